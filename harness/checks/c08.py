"""
C08 - any docstring in any format is rendered; markup errors degrade to plain text.

spec -> code : TLC enumerates spec/Docstring.tla: every fault combination of the environment lattice (parser returns /
               returns with errors / raises ParseError / raises other; to_stan ok / raises; get_summary ok / broken /
               its to_stan raises; get_toc none / ok / to_node raises / its to_stan raises) x own / inherited docstring
               x function / class x call order; each terminal behaviour is FORCED on the real pipeline by run-time
               fault injection (the parser and the ParsedDocstring it returns are wrapped inside this process) and the
               observed results / projected states are judged against the property and compared with the model.
code -> spec : fuzzed docstrings (Hypothesis: markup fragments of every format, mutated real docstrings from
               /repo/pydoctor/*.py, arbitrary unicode incl. control characters) x 5 docformats x object kinds x
               --process-types on/off run through the real format_docstring / format_summary / format_toc /
               extract_fields with OBSERVING wrappers; every execution (injected ones too) is recorded as an event
               trace (parse outcome, errors reported, fallback used, complete text present, projected state after each
               call) and validated in batches by TLC against Docstring.tla (faults = what was observed).
"""
from __future__ import annotations

import ast
import contextlib
import inspect
import io
import json
import os
import random
import re
import signal
import time
from concurrent.futures import ProcessPoolExecutor
from typing import Any, Dict, List, Optional, Tuple

from ..core import Ctx, MachineryError, NCPU, chunks

FMTS = ["epytext", "restructuredtext", "google", "numpy", "plaintext"]
OBJS = ["A", "B", "V"]          # V: attribute of A documented by a field of A's docstring (class / module scenarios only)


def text_of(o: str, inherit: bool) -> str:
    """Whose faults the text rendered for o has (Docstring.tla Text)."""
    return "A" if (o == "B" and inherit) else o


def src_of(o: str, inherit: bool) -> str:
    """The 'source' the pipeline reports against and hands to the fallbacks (Docstring.tla Src)."""
    return "A" if ((o == "B" and inherit) or o == "V") else o
NOFAULT = {"parse": "ok", "n": 1, "tostan": "ok", "summary": "ok", "toc": "none", "field": "ok", "node": "ok",
           "lvl": "warning", "tag": "none", "ann": "ok"}
# a real epytext docstring whose ParsedEpytextDocstring.to_node() raises (an indented field before a top-level one leaves a
# nested field list in the tree): realises the model's node = "once" on the real, unwrapped code
ONCE_DOC = "Summary of %s here.\n  @note: x\n@note: y"
CALL_TIMEOUT = 5           # seconds per entry-point call ("terminates"); a healthy call needs milliseconds
HANG_BUDGET = 12           # once that many calls had to be interrupted in a phase, the rest of the phase is not run
# the model describes the tree as it is: both known deviations present. VERIF_C08_MODEL=fixed describes the tree with
# proposed_fixes/C08-*.diff applied (used to try the fixes; flip the defaults when they are committed)
_FIXED = os.environ.get("VERIF_C08_MODEL") != "prefix"      # the two defects are repaired in /repo (dac0793, 1bcc148)
MODEL_CONSTANTS = "  PoisonedCache = %s\n  TocGuarded = %s\n" % (("FALSE", "TRUE") if _FIXED else ("TRUE", "FALSE"))
# deviation rst-long-line-refused: repaired in /repo (db69556); the model states the repaired behaviour
LONGLINE_FIXED = True
MODEL_CONSTANTS += "  LongLineRefused = %s\n" % ("FALSE" if LONGLINE_FIXED else "TRUE")


SCALE = [1]                # time limits are multiplied by this when a scenario that ran out of time is run a second time


class Injected(Exception):
    """The injected internal failure (deliberately not a ParseError)."""


class HangAlarm(BaseException):
    """Raised by the alarm; NOT an Exception, so that none of pydoctor's catch-alls can turn a hang into a fallback."""


# ----------------------------------------------------------------------------------- scenario sources
def scenario_source(kind: str, inherit: bool, docA: str, docB: str, dup: bool = False) -> Tuple[str, Dict[str, str]]:
    """A module holding A, B and the bystander X. Returns (source, names of A / B / X)."""
    fine = '"""Fine docstring of `other`."""'
    a, b = repr(docA), repr(docB)
    if kind == "module":
        src = f"{a}\nv = 1\ndef fb(x):\n    {b}\ndef other():\n    {fine}\n"
        names = {"A": "m", "B": "m.fb", "V": "m.v"}
    elif kind in ("class", "cls") and dup:
        # A is a NESTED class (its docstring is parsed while the module is built) of a class that is defined twice: the
        # first definition, with the same text in the same place, is superseded and renamed before the second is met
        inner = f"    class K:\n        {a}\n        v = 1\n        w = 2\n        def meth(self):\n            {fine}\n"
        src = (f"class Outer:\n    {fine}\n{inner}class Outer:\n    {fine}\n{inner}"
               f"def fb(x):\n    {b}\ndef other():\n    {fine}\n")
        names = {"A": "m.Outer.K", "B": "m.fb", "V": "m.Outer.K.v", "W": "m.Outer.K.w"}
    elif kind in ("class", "cls"):
        src = (f"class K:\n    {a}\n    v = 1\n    w = 2\n    def meth(self):\n        {fine}\n"
               f"def fb(x):\n    {b}\ndef other():\n    {fine}\n")
        names = {"A": "m.K", "B": "m.fb", "V": "m.K.v", "W": "m.K.w"}
    elif kind in ("function", "func") and not inherit:
        src = f"def fa(x):\n    {a}\ndef fb(x):\n    {b}\ndef other():\n    {fine}\n"
        names = {"A": "m.fa", "B": "m.fb"}
    elif kind in ("method", "func"):
        body = "pass" if inherit else b
        src = (f"class Base:\n    def meth(self, x):\n        {a}\nclass Derived(Base):\n    def meth(self, x):\n        {body}\n"
               f"def other():\n    {fine}\n")
        names = {"A": "m.Base.meth", "B": "m.Derived.meth"}
    elif kind == "attribute":
        tail = "" if inherit else f"\n    {b}"
        src = (f"class Base:\n    v: int = 1\n    {a}\nclass Derived(Base):\n    v = 2{tail}\n"
               f"def other():\n    {fine}\n")
        names = {"A": "m.Base.v", "B": "m.Derived.v"}
    else:
        raise MachineryError(f"unknown kind {kind}")
    names["X"] = "m.other"
    return src, names


def model_kind(kind: str) -> str:
    return "cls" if kind in ("module", "class", "cls") else "func"


# ------------------------------------------------------------------------- wrappers (inject / observe)
class _Alarm:
    def __init__(self, seconds: int):
        self.seconds = seconds

    def __enter__(self):
        def handler(signum, frame):
            raise HangAlarm("entry point did not return in time")
        self.old = signal.signal(signal.SIGALRM, handler)
        signal.alarm(self.seconds)

    def __exit__(self, *a):
        signal.alarm(0)
        signal.signal(signal.SIGALRM, self.old)


def run_scenario(sc: Dict[str, Any]) -> Dict[str, Any]:
    """
    Build the scenario with the real builder, run the calls on the real pipeline; faults injected (sc['faults'] given)
    or only observed. Returns the trace: F (injected / observed), events with projected states, frame observations.
    """
    from pydoctor import model, epydoc2stan
    from pydoctor.epydoc import markup
    from pydoctor.epydoc.markup import ParsedDocstring, ParseError
    from pydoctor.epydoc.markup.plaintext import ParsedPlaintextDocstring
    from pydoctor.stanutils import flatten
    from twisted.web._flatten import escapeForContent

    fmt, pt, kind, inherit = sc["fmt"], sc["pt"], sc["kind"], sc["inherit"]
    docA, docB = sc["docA"], sc["docB"]
    # scenarios share a worker process: what an earlier one may have left in docutils' process-wide role table is not
    # this scenario's business (within a scenario it is: the bystander X is rendered after A)
    from docutils.parsers.rst import roles as _roles
    _roles._roles.pop("", None)
    src, names = scenario_source(kind, inherit, docA, docB, dup=bool(sc.get("dup")))
    try:
        tree = ast.parse(src)
    except (SyntaxError, ValueError) as e:
        return {"skip": f"source not parsable: {e}"}
    def encodable(t: str) -> str:                 # what pydoctor shows for a lone surrogate (astutils.encodable_text)
        try:
            t.encode("utf-8")
            return t
        except UnicodeEncodeError:
            return t.encode("utf-8", "backslashreplace").decode("utf-8")
    raw = {"A": inspect.cleandoc(docA), "B": inspect.cleandoc(docB)}
    clean = {o: encodable(raw[o]) for o in raw}
    if not clean["A"] or (not inherit and not clean["B"]) or (not inherit and clean["A"] == clean["B"]):
        return {"skip": "empty or identical docstrings"}
    inject: Optional[Dict[str, Dict[str, Any]]] = sc.get("faults")
    by_text = {clean["A"]: "A", raw["A"]: "A"}     # the parser may be handed the text before or after the surrogates are escaped
    if not inherit:
        by_text[clean["B"]] = "B"
        by_text[raw["B"]] = "B"
    # what the wrappers saw, per source docstring
    seen = {o: {"parse": None, "n": 0, "tostan": "ok", "summary": "ok", "toc": "none", "field": "ok", "node": "ok",
                "lvl": "warning", "tag": "none", "ann": "ok"} for o in OBJS}
    last_call = {"lost": False}
    fallback_used = {"flag": False}
    reports: List[Tuple[Any, int, bool]] = []       # (the object reported against, number of messages, names the file)
    cur = {"o": None}

    def fault(o: Optional[str], key: str) -> str:
        if inject is None or o is None:
            return NOFAULT[key]
        return inject[o][key]

    class Raising(ParsedDocstring):
        """A summary / toc whose to_stan fails."""
        def __init__(self, inner: ParsedDocstring):
            ParsedDocstring.__init__(self, inner.fields)
            self._inner = inner

        @property
        def has_body(self) -> bool:
            return self._inner.has_body

        def to_stan(self, linker: Any) -> Any:
            raise Injected("summary/toc to_stan")

        def to_node(self) -> Any:
            return self._inner.to_node()

    class Proxy(ParsedDocstring):
        """The parser's result, passed through; injects / observes failures of to_stan and to_node."""
        def __init__(self, inner: ParsedDocstring, who: str):
            ParsedDocstring.__init__(self, inner.fields)
            if who == "A":
                for fld in self.fields:               # the body extract_fields will hand to the attribute v
                    if fld.tag() in ("ivar", "cvar", "var") and fld.arg() == "v" and not isinstance(fld.body(), Proxy):
                        fld.replace_body(Proxy(fld.body(), "V"))
            if fault(who, "field") == "raises":
                for fld in self.fields:              # (the bodies handed to attributes are other objects' docstrings)
                    if not isinstance(fld.body(), Proxy) and fld.tag() not in ("ivar", "cvar", "var"):
                        fld.replace_body(Raising(fld.body()))
            self._inner, self._who, self._ctx = inner, who, None
            self._c08_summary: Optional[ParsedDocstring] = None
            self._node_failed = False        # a to_node() call on the wrapped object has raised

        @property
        def has_body(self) -> bool:
            return self._inner.has_body

        def to_stan(self, linker: Any) -> Any:
            if fault(self._who, "tostan") == "raises":
                seen[self._who]["tostan"] = "raises"
                raise Injected("to_stan")
            failed_before = self._node_failed
            uses_to_node = type(self._inner).to_stan is ParsedDocstring.to_stan
            if uses_to_node:
                self._inner.to_node = self._observed_to_node      # type: ignore[method-assign]  (default to_stan calls self.to_node())
            try:
                r = self._inner.to_stan(linker)
            except Exception:
                seen[self._who]["tostan"] = "raises"
                raise
            finally:
                if uses_to_node:
                    del self._inner.to_node
            if failed_before and uses_to_node:
                # the body comes from a document whose construction had failed earlier: the half-built cache
                seen[self._who]["node"] = "once"
                last_call["lost"] = True
            return r

        def _observed_to_node(self) -> Any:
            try:
                return type(self._inner).to_node(self._inner)
            except NotImplementedError:
                raise
            except Exception:
                self._node_failed = True
                raise

        def to_node(self) -> Any:
            if self._ctx == "summary" and fault(self._who, "summary") == "broken":
                raise Injected("to_node in get_summary")
            if self._ctx == "toc" and fault(self._who, "toc") == "noderaises":
                raise Injected("to_node in get_toc")
            failed_before = self._node_failed
            r = self._observed_to_node()
            if failed_before:
                seen[self._who]["node"] = "once"                  # raised before, returns now
            return r

        def get_summary(self) -> ParsedDocstring:          # the REAL get_summary on top of our to_node
            if self._c08_summary is None:
                self._ctx = "summary"
                try:
                    s = ParsedDocstring.get_summary(self)
                finally:
                    self._ctx = None
                if isinstance(s, epydoc2stan.ParsedStanOnly) and "Broken summary" in flatten(s.to_stan(None)):
                    seen[self._who]["summary"] = "broken"
                elif fault(self._who, "summary") == "stanraises":
                    seen[self._who]["summary"] = "stanraises"
                    s = Raising(s)
                else:
                    s = SummaryObs(s, self._who)
                self._c08_summary = s
            return self._c08_summary

        def get_toc(self, depth: int) -> Optional[ParsedDocstring]:   # the REAL get_toc on top of our to_node
            self._ctx = "toc"
            try:
                t = ParsedDocstring.get_toc(self, depth)
            except NotImplementedError:
                raise
            except Exception:
                seen[self._who]["toc"] = "noderaises"
                raise
            finally:
                self._ctx = None
            if t is None:
                return None
            if fault(self._who, "toc") == "stanraises":
                seen[self._who]["toc"] = "stanraises"
                return Raising(t)
            seen[self._who]["toc"] = "ok"
            return TocObs(t, self._who)

    class SummaryObs(ParsedDocstring):
        def __init__(self, inner: ParsedDocstring, who: str):
            ParsedDocstring.__init__(self, inner.fields)
            self._inner, self._who = inner, who

        @property
        def has_body(self) -> bool:
            return self._inner.has_body

        def to_stan(self, linker: Any) -> Any:
            try:
                return self._inner.to_stan(linker)
            except Exception:
                seen[self._who]["summary"] = "stanraises"
                raise

        def to_node(self) -> Any:
            return self._inner.to_node()

    class TocObs(SummaryObs):
        def to_stan(self, linker: Any) -> Any:
            try:
                return self._inner.to_stan(linker)
            except Exception:
                seen[self._who]["toc"] = "stanraises"
                raise

    orig_get_parser, orig_pt = epydoc2stan.get_parser_by_name, epydoc2stan.processtypes
    orig_re, orig_dfb = epydoc2stan.reportErrors, epydoc2stan.format_docstring_fallback

    def wrap_parser(parser: Any) -> Any:
        def wrapped(doc: str, errs: List[Any]) -> Any:
            who = by_text.get(doc)
            if who is None:
                return parser(doc, errs)                      # the bystander, wrapper classes ...
            mode = fault(who, "parse")
            before = len(errs)
            try:
                if mode == "crash":
                    raise Injected("parser")
                if mode == "fatal":
                    e = ParseError("injected fatal error", 0)
                    errs.append(e)
                    raise e
                pd = parser(doc, errs)
                if mode == "warn":
                    for j in range(inject[who]["n"]):         # type: ignore[index]
                        errs.append(ParseError("injected recoverable error %d" % j, 0, is_fatal=False))
            except ParseError:
                seen[who]["parse"] = "fatal"
                raise
            except Exception:
                seen[who]["parse"] = "crash"
                raise
            seen[who]["parse"] = "warn" if len(errs) > before else "ok"
            if any(e.is_fatal() and "line-length-limit" in e.descr() for e in errs[before:]) and not pd.has_body and not pd.fields:
                seen[who]["parse"] = "refused"        # docutils refused the input as a whole: NOTHING of the text in the result
            return Proxy(pd, who)
        return wrapped

    def get_parser_by_name(docformat: str, obj: Any = None) -> Any:
        return wrap_parser(orig_get_parser(docformat, obj))

    def processtypes(parser: Any) -> Any:
        # --process-types post-processing runs on the parser's result; a failure there is a parser crash
        inner = orig_pt(parser)

        def wrapped(doc: str, errs: List[Any]) -> Any:
            who = by_text.get(doc)
            before = len(errs)
            try:
                r = inner(doc, errs)
            except ParseError:
                raise
            except Exception:
                if who is not None:
                    seen[who]["parse"] = "crash"
                raise
            if who is not None and seen[who]["parse"] == "ok" and len(errs) > before:
                seen[who]["parse"] = "warn"
            return r
        return wrapped

    def reportErrors(obj: Any, errs: Any, section: str = "docstring") -> None:
        had = obj.fullName() in obj.system.parse_errors[section]
        buf = io.StringIO()
        with contextlib.redirect_stdout(buf):
            orig_re(obj, errs, section=section)
        if errs and not had and section == "docstring":
            lines = [l for l in buf.getvalue().splitlines() if l.strip()]
            firsts = [l for l in lines if re.match(r"^.+?:(\d+|\?\?\?): bad docstring: ", l)]
            reports.append((obj, len(errs), len(firsts) == len(errs) and all(l.startswith(obj.description + ":") for l in firsts)))
            who = rev.get(obj.fullName())
            if who is not None and cur["o"] == "parse:" + who:
                seen[who]["n"] = len(errs)

    def format_docstring_fallback(errs: Any, parsed_doc: Any, ctx: Any) -> Any:
        fallback_used["flag"] = True
        return orig_dfb(errs, parsed_doc, ctx)

    orig_gpt = epydoc2stan.get_parsed_type

    def get_parsed_type(obj: Any) -> Any:
        pt_ = orig_gpt(obj)
        who = rev.get(obj.fullName())
        if pt_ is not None and who is not None and fault(who, "ann") == "raises":
            return Raising(pt_)
        return pt_
    epydoc2stan.get_parsed_type = get_parsed_type
    orig_field_format = epydoc2stan.Field.format

    def field_format(self: Any) -> Any:
        prev = cur["o"]
        cur["o"] = "field"
        try:
            r = orig_field_format(self)
        finally:
            cur["o"] = prev
        who = rev.get(self.source.fullName())
        if who is not None and "Broken description" in flatten(r) and type(self.body).to_stan is not epydoc2stan.ParsedStanOnly.to_stan:
            try:
                self.body.to_stan(self.source.docstring_linker)
            except Exception:
                seen[who]["field"] = "raises"
        return r
    epydoc2stan.Field.format = field_format

    rev: Dict[str, str] = {}
    epydoc2stan.get_parser_by_name = get_parser_by_name
    epydoc2stan.processtypes = processtypes
    epydoc2stan.reportErrors = reportErrors
    epydoc2stan.format_docstring_fallback = format_docstring_fallback
    orig_parse_docstring = epydoc2stan.parse_docstring

    def parse_docstring(obj: Any, doc: str, source: Any, markup: Any = None, section: str = "docstring") -> Any:
        who = by_text.get(doc) if markup is None else None
        prev = cur["o"]
        if who is not None:
            cur["o"] = "parse:" + who
        try:
            return orig_parse_docstring(obj, doc, source, markup=markup, section=section)
        finally:
            cur["o"] = prev
    epydoc2stan.parse_docstring = parse_docstring

    out: Dict[str, Any] = {}
    try:
        system = model.System()
        system.options.docformat = fmt
        system.options.processtypes = pt
        sink = io.StringIO()
        rev.update({names[o]: o for o in OBJS if o in names})
        try:
            with contextlib.redirect_stdout(sink), contextlib.redirect_stderr(sink), _Alarm(CALL_TIMEOUT * SCALE[0]):
                b = system.systemBuilder(system)
                b.addModuleString(src, "m")
                b.buildModules()
        except (Exception, HangAlarm) as e:
            # extract_fields (module / class docstrings are parsed while the module is built) let something escape
            blank = {"pd": {o: "none" for o in OBJS}, "ps": {o: "none" for o in OBJS}, "perr": {o: False for o in OBJS},
                     "nrep": {o: 0 for o in OBJS}, "pz": {o: False for o in OBJS}, "lk": {o: "home" for o in OBJS}, "aerr": {o: False for o in OBJS}}
            F0 = {o: (dict(sc["declared"][o]) if "declared" in sc else dict(inject[o]) if inject else dict(NOFAULT)) for o in OBJS}
            return {"F": F0, "inherit": inherit, "kindA": model_kind(kind), "vdoc": False, "aux": [], "frame_ok": True, "xhtml": None, "reports": [],
                    "names": names, "seen": seen,
                    "ev": [{"o": "A", "op": "extract_fields", "r": "timeout" if isinstance(e, HangAlarm) else "escaped", "st": blank, "full": False,
                            "exc": f"{type(e).__name__}: {e}"[:200]}]}
        obs = {o: system.allobjects[names[o]] for o in ("A", "B", "X")}
        obs["V"] = system.allobjects.get(names["V"]) if "V" in names else None
        vdoc = obs["V"] is not None and isinstance(obs["V"].parsed_docstring, Proxy)
        if obs["A"].docstring not in (clean["A"], raw["A"]) or (not inherit and obs["B"].docstring not in (clean["B"], raw["B"])):
            return {"skip": "docstring changed on the way through the builder"}

        def project() -> Dict[str, Any]:
            st: Dict[str, Any] = {"pd": {}, "ps": {}, "perr": {}, "nrep": {}, "pz": {}, "lk": {}, "aerr": {}}
            for o in OBJS:
                ob = obs[o]
                st["aerr"][o] = ob is not None and ob.fullName() in system.parse_errors["annotation"]
                lnk = getattr(ob, "_linker", None) if ob is not None else None
                st["lk"][o] = "home" if lnk is None or (not lnk._context_switched and lnk.reporting_obj is ob) else "away"
                if ob is None:
                    st["pd"][o], st["pz"][o], st["ps"][o], st["perr"][o], st["nrep"][o] = "none", False, "none", False, 0
                    continue
                p = ob.parsed_docstring
                st["pd"][o] = "none" if p is None else ("parsed" if isinstance(p, Proxy) else "plain")
                st["pz"][o] = bool(isinstance(p, Proxy) and p._node_failed)
                s = ob.parsed_summary
                if s is None:
                    st["ps"][o] = "none"
                elif isinstance(s, epydoc2stan.ParsedStanOnly):
                    t = flatten(s.to_stan(None))
                    st["ps"][o] = "brokensum" if "Broken summary" in t else "brokenstan" if "Broken description" in t else "ok"
                else:
                    st["ps"][o] = "ok"
                st["perr"][o] = ob.fullName() in system.parse_errors["docstring"]
                st["nrep"][o] = sum(n for (rob, n, _) in reports if rob is ob)
            return st

        def xstate() -> Tuple[Any, ...]:
            x = obs["X"]
            return (x.parsed_docstring is None, x.parsed_summary is None, x.fullName() in system.parse_errors["docstring"],
                    sum(n for (rob, n, _) in reports if rob is x))

        events: List[Dict[str, Any]] = []
        pre_exc = ""
        if inject is not None and inject["A"].get("ann") == "raises":
            # the page shows the annotation of an attribute before its docstring (type2stan, section 'annotation')
            try:
                with contextlib.redirect_stdout(sink), contextlib.redirect_stderr(sink), _Alarm(CALL_TIMEOUT * SCALE[0]):
                    tv0 = epydoc2stan.type2stan(obs["A"])
                    if tv0 is not None:
                        flatten(tv0)
            except (Exception, HangAlarm) as e:
                pre_exc = f"{type(e).__name__}: {e}"[:200]
        st0 = project()
        x0 = xstate()
        frame_ok = True
        fn_of = {"docstring": epydoc2stan.format_docstring, "summary": epydoc2stan.format_summary, "toc": epydoc2stan.format_toc}
        for (o, op) in sc["order"]:
            ob = obs[o]
            fallback_used["flag"] = False
            last_call["lost"] = False
            html = ""
            r = None
            exc = ""
            try:
                with contextlib.redirect_stdout(sink), contextlib.redirect_stderr(sink), _Alarm(CALL_TIMEOUT * SCALE[0]):
                    val = fn_of[op](ob)
                    html = "" if val is None else flatten(val)
            except HangAlarm as e:           # the property: this never happens
                r = "timeout"
                exc = f"{type(e).__name__}: {e}"[:200]
                val = None
            except Exception as e:           # ... nor this
                r = "escaped"
                exc = f"{type(e).__name__}: {e}"[:200]
                val = None
            srcname = src_of(o, inherit)
            full = escapeForContent(clean[srcname]).decode("utf-8", "surrogateescape") in html if html else False
            if r is None:
                if op == "docstring":
                    pstate = project()["pd"][o]
                    if 'class="undocumented">Undocumented' in html and pstate == "none":
                        r = "undoc"
                    elif fallback_used["flag"] or pstate == "plain":
                        r = "plainfull" if (full and '<p class="pre">' in html) else ("broken" if "Broken description" in html else "partial")
                    elif last_call["lost"] or (seen[text_of(o, inherit)]["parse"] == "refused" and not re.sub(r"<[^>]*>", "", html).strip()):
                        r = "lost"
                    else:
                        r = "rendered"
                elif op == "summary":
                    r = ("brokensum" if "Broken summary" in html else "broken" if "Broken description" in html
                         else "undoc" if 'class="undocumented">Undocumented' in html else "summary")
                else:
                    r = "none" if val is None else ("broken" if "Broken description" in html else "toc")
            events.append({"o": o, "op": op, "r": r, "st": project(), "full": full, "exc": exc})
            if xstate() != x0:
                frame_ok = False
            if r == "timeout":
                break                        # one hang is the verdict; the remaining calls would only wait again
        # the type of the field-documented attribute (type2stan, used by the attribute tables) must come out as well
        aux: List[Dict[str, Any]] = []
        if pre_exc:
            aux.append({"call": "type2stan", "o": "A", "r": "escaped", "exc": pre_exc})
        if obs["V"] is not None and not any(e["r"] == "timeout" for e in events):
            try:
                with contextlib.redirect_stdout(sink), contextlib.redirect_stderr(sink), _Alarm(CALL_TIMEOUT * SCALE[0]):
                    tv = epydoc2stan.type2stan(obs["V"])
                    if tv is not None:
                        flatten(tv)
                aux.append({"call": "type2stan", "o": "V", "r": "ok", "exc": ""})
            except (Exception, HangAlarm) as e:
                aux.append({"call": "type2stan", "o": "V", "r": "timeout" if isinstance(e, HangAlarm) else "escaped",
                            "exc": f"{type(e).__name__}: {e}"[:200]})
        # a SIBLING of V (second attribute documented by a field of A: same source, same linker) renders as without faults
        whtml = None
        wobj = system.allobjects.get(names["W"]) if "W" in names else None
        if wobj is not None and wobj.parsed_docstring is not None and not any(e["r"] == "timeout" for e in events):
            wbuf = io.StringIO()
            try:
                with contextlib.redirect_stdout(wbuf), contextlib.redirect_stderr(sink), _Alarm(CALL_TIMEOUT * SCALE[0]):
                    whtml = flatten(epydoc2stan.format_docstring(wobj))
                whtml += "\n#reports: %d" % sum(1 for l in wbuf.getvalue().splitlines() if "Cannot find link target" in l)
            except (Exception, HangAlarm) as e:
                whtml = "escaped: %s" % type(e).__name__
        # the bystander still renders as in a scenario without any fault
        with contextlib.redirect_stdout(sink), contextlib.redirect_stderr(sink):
            xhtml = flatten(epydoc2stan.format_docstring(obs["X"])) + flatten(epydoc2stan.format_summary(obs["X"]))
        F = {}
        for o in OBJS:
            if inject is not None:
                F[o] = dict(sc["declared"][o]) if "declared" in sc else dict(inject[o])
            else:
                s = dict(seen[o])
                if s["parse"] is None:
                    s["parse"] = "ok"                     # never parsed (inherited B): irrelevant
                s["n"] = max(1, s["n"])
                if s["node"] == "once":                   # the other observations are consequences of the half-built cache
                    s.update({"tostan": "ok", "summary": "ok", "toc": "none"})
                F[o] = s
        if inject is None and inherit:
            F["B"] = dict(NOFAULT)
        if inject is None:
            # the summary of the plain text fallback object can fail as well; nothing wraps it: read it off the results
            for e in events:
                so = text_of(e["o"], inherit)
                if e["op"] == "summary" and e["st"]["pd"][e["o"]] == "plain" and e["r"] in ("broken", "brokensum"):
                    F[so]["summary"] = "stanraises" if e["r"] == "broken" else "broken"
        for e in events:          # the half-built cache only exists where a failed to_node() was later seen to return
            for o in OBJS:
                so = text_of(o, inherit)
                if seen[so]["node"] != "once":
                    e["st"]["pz"][o] = False
        out = {"F": F, "inherit": inherit, "kindA": model_kind(kind), "vdoc": vdoc, "aux": aux, "st0": st0, "ev": events, "frame_ok": frame_ok, "xhtml": xhtml, "whtml": whtml,
               "reports": [[rob.fullName(), n, ok] for (rob, n, ok) in reports], "names": names, "seen": seen,
               "built_parse": system.allobjects[names["A"]].parsed_docstring is not None and len(events) == 0}
    finally:
        epydoc2stan.get_parser_by_name, epydoc2stan.processtypes = orig_get_parser, orig_pt
        epydoc2stan.reportErrors, epydoc2stan.format_docstring_fallback = orig_re, orig_dfb
        epydoc2stan.parse_docstring = orig_parse_docstring
        epydoc2stan.Field.format = orig_field_format
        epydoc2stan.get_parsed_type = orig_gpt
    return out


# ----------------------------------------------------------------------------------- the property twin
def frame_offences(tr: Dict[str, Any]) -> List[Tuple[str, str, str]]:
    """(object worked on, object changed, what changed) for every change Docstring.tla's FrameClause forbids."""
    inherit = tr["inherit"]
    out: List[Tuple[str, str, str]] = []
    prev = tr.get("st0")
    for e in tr["ev"]:
        st, o = e["st"], e["o"]
        if prev is not None and e["r"] not in ("escaped", "timeout"):
            for p in OBJS:
                if p == o:
                    continue
                for k in ("pd", "pz"):
                    if prev[k][p] != st[k][p]:
                        out.append((o, p, k))
                if p != src_of(o, inherit):
                    for k in ("ps", "nrep", "perr"):
                        if prev[k][p] != st[k][p]:
                            out.append((o, p, k))
                elif not (o == "B" and inherit) and prev["ps"][p] != st["ps"][p]:
                    out.append((o, p, "ps"))
        prev = st
    return out


def judge(tr: Dict[str, Any]) -> List[str]:
    """Python twin of Docstring.tla's invariants, evaluated on an OBSERVED trace."""
    bad: List[str] = []
    F, inherit = tr["F"], tr["inherit"]
    text = lambda o: text_of(o, inherit)
    src = lambda o: src_of(o, inherit)
    for e in tr["ev"]:
        f = F[text(e["o"])]
        st = e["st"]
        if e["r"] in ("escaped", "timeout"):
            bad.append("AlwaysResult" if e["r"] == "escaped" else "Terminates")
            continue
        if e["op"] == "docstring":
            gave_up = f["parse"] in ("fatal", "crash")
            if (gave_up or (f["tostan"] == "raises" and st["pd"][e["o"]] == "parsed")) and e["r"] != "plainfull":
                bad.append("FallbackComplete")
            if e["r"] in ("lost", "partial", "broken"):
                bad.append("FallbackComplete")
            if (f["tostan"] == "raises" or f.get("field") == "raises") and st["pd"][e["o"]] == "parsed" \
                    and not (st["perr"][src(e["o"])] and st["nrep"][src(e["o"])] >= 1):
                bad.append("ReportedWhenRenderFails")
        if e["op"] == "summary" and e["r"] not in ("summary", "brokensum", "broken", "undoc"):
            bad.append("SummaryAlways")
        for o in OBJS:
            if o != "V" and st["pd"][o] != "none" and F[text(o)]["parse"] != "ok" and not (F[text(o)]["parse"] == "refused" and LONGLINE_FIXED) and not (st["perr"][src(o)] and st["nrep"][src(o)] >= 1):
                bad.append("ReportedWhenFailed")
            if (st["nrep"][o] > 0) != st["perr"][o]:
                bad.append("OneReport")
    if frame_offences(tr):
        bad.append("Frame")
    if any(v != "home" for e in tr["ev"] if e["r"] not in ("escaped", "timeout") for v in e["st"].get("lk", {}).values()):
        bad.append("LinkerRestored")
    if not tr.get("w_same", True):
        bad.append("Frame")              # the sibling attribute does not render (links, reports) as in a scenario without faults
    for a in tr.get("aux", []):
        if a["r"] != "ok":
            bad.append("AlwaysResult" if a["r"] == "escaped" else "Terminates")
    # one report per object: at most one effective reportErrors per (object)
    per_obj: Dict[str, int] = {}
    for fn, n, names_file in tr["reports"]:
        per_obj[fn] = per_obj.get(fn, 0) + 1
        if not names_file:
            bad.append("ReportNamesFile")
    if any(v > 1 for v in per_obj.values()):
        bad.append("OneReport")
    if not tr["frame_ok"] or not tr.get("x_same", True):
        bad.append("Frame")
    return sorted(set(bad))


def _explained(w: Dict[str, Any]) -> Optional[set]:
    """Which known deviations account for EVERY offending event of the witness (None: something else is wrong)."""
    if not set(w.get("failed") or ["?"]) <= {"AlwaysResult", "FallbackComplete"}:
        return None
    tr = w.get("trace") or {}
    inherit = bool(tr.get("inherit"))
    need = set()
    for e in tr.get("ev", []):
        f = tr["F"][text_of(e["o"], inherit)]
        if e["r"] == "escaped":
            if e["op"] == "toc" and (f["toc"] == "noderaises" or f.get("node") == "once"):
                need.add("toc")
            else:
                return None
        elif e["op"] == "docstring":
            if e["r"] == "lost" and f.get("node") == "once":
                need.add("cache")
            elif e["r"] in ("lost", "partial", "broken"):
                return None
            elif (f["parse"] in ("fatal", "crash") or (f["tostan"] == "raises" and e["st"]["pd"][e["o"]] == "parsed")) and e["r"] != "plainfull":
                return None
    if any(x["r"] != "ok" for x in tr.get("aux", [])):
        return None
    return need or None


def kf_toc_escapes(w: Dict[str, Any]) -> bool:
    """Python twin of Docstring.tla KF_TocEscapes: every escape is a format_toc call whose get_toc met a to_node failure
    (and whatever else fails in the same execution is the other known deviation)."""
    need = _explained(w)
    return need is not None and "toc" in need


def kf_poisoned_cache(w: Dict[str, Any]) -> bool:
    """Python twin of Docstring.tla KF_PoisonedCache: the only offence is a body rendered from the half-built cached
    document of an epytext docstring whose to_node() had failed (unreported) in get_summary / get_toc before."""
    need = _explained(w)
    return need == {"cache"}


# ---------------------------------------------------------------------------------------- docstrings
TITLED = {
    "epytext": "Summary here.\n\nTitle\n=====\n\nSection text with I{markup}.\n\n@note: a field\n",
    "restructuredtext": "Summary here.\n\nTitle\n=====\n\nSection text with *markup*.\n\n:note: a field\n",
    "google": "Summary here.\n\nTitle\n=====\n\nSection text with *markup*.\n\nNote:\n    a note\n\n:note: a field\n",
    "numpy": "Summary here.\n\nTitle\n=====\n\nSection text with *markup*.\n\nNote\n----\na note\n\n:note: a field\n",
    "plaintext": "Summary here.\n\nTitle\n=====\n\nSection text.\n",
}
PLAIN = {
    "epytext": "Summary of B{this} object & <its> kin.\n\nMore text with C{code} here.\n\n@note: a field\n",
    "restructuredtext": "Summary of **this** object & <its> kin.\n\nMore text with ``code`` here.\n\n:note: a field\n",
    "google": "Summary of **this** object & <its> kin.\n\nMore text with ``code`` here.\n\nNote:\n    a note\n\n:note: a field\n",
    "numpy": "Summary of **this** object & <its> kin.\n\nMore text with ``code`` here.\n\nNote\n----\na note\n\n:note: a field\n",
    "plaintext": "Summary of this object & <its> kin.\n\nMore text here.\n",
}


# the field that documents the sibling attribute w: a link to a member of the class (relative to the class page) and an
# unresolvable link (reported); both depend on the state of the linker of the class
W_FIELD = {"epytext": "@ivar w: See L{meth} and L{nosuch.thing}.\n"}
W_FIELD.update({f: ":ivar w: See `meth` and `nosuch.thing`.\n" for f in ("restructuredtext", "google", "numpy")})


# reST texts with ONE markup problem docutils recovers from, by the level docutils gives it
LVL_TEXT = {"info": ["Summary of %s.\n\nTitle\n==\n\nText.\n", "Summary of %s.\n\n3. item\n4. item\n", "Summary of %s::\n  x\n\ny\n"],
            "error": ["Summary of %s with |nosub| here.\n", "Summary of %s with nosuchtarget_ here.\n"],
            "severe": ["Summary of %s.\n\nA\n===\n\nB\n---\n\nC\n~~~\n\nD\n---\n\nE\n^^^\n"],
            # not docutils' but pydoctor's own splitter of consolidated fields gives up (the field is shown as-is)
            "split": ["Summary of %s.\n\n:Parameters:\n    this is not a list\n", "Summary of %s.\n\n:Parameters:\n    - **x**: not an identifier\n"]}


def helper_tags() -> List[str]:
    """Field tags that are names of methods of the class dispatching on tags, in the tree under test."""
    from pydoctor import epydoc2stan
    return sorted({n[len("handle_"):] for n in dir(epydoc2stan.FieldHandler) if n.startswith("handle_") and n != "handle_"})


def inj_scenario(rec: Dict[str, Any], fmt: str, pt: bool, sur: bool = False, idx: int = 0) -> Dict[str, Any]:
    """The real scenario that realises one enumerated behaviour of Docstring.tla."""
    F = rec["F"]
    def doc(o: str) -> str:
        if F[o]["node"] == "once":
            return ONCE_DOC % o
        if F[o]["parse"] == "refused":
            return "Summary of %s.\n\n%s\n\nThe end.\n" % (o, "word " * 2100)
        if F[o]["lvl"] != "warning":
            alts = LVL_TEXT[F[o]["lvl"]]
            return alts[idx % len(alts)] % o
        base = TITLED if F[o]["toc"] in ("ok", "stanraises", "noderaises") else PLAIN
        return base[fmt].replace("Summary", "Summary of %s" % o, 1)
    docA = doc("A")
    if F["A"]["tag"] != "none":
        tags = helper_tags()
        tag = "zzzunknown" if F["A"]["tag"] == "unknown" else tags[idx % len(tags)]
        with_arg = (idx // max(1, len(tags))) % 2
        docA = docA.rstrip("\n") + "\n" + (("@%s%s: some text\n" if fmt == "epytext" else ":%s%s: some text\n") % (tag, " x" if with_arg else ""))
    if sur:             # a lone surrogate in the text: legal in a string literal, cannot be written to a page as it is
        docA = docA.replace("Summary of A", "Summary of A \ud800", 1)
    if rec["kindA"] == "cls" and fmt != "plaintext":      # the field that documents the attribute v
        docA = docA.rstrip("\n") + ("\n@ivar v: The I{v} attribute.\n" if fmt == "epytext" else "\n:ivar v: The *v* attribute.\n") + W_FIELD[fmt]
    kind = "class" if rec["kindA"] == "cls" else ("method" if rec["inherit"] else "function")
    if F["A"]["ann"] == "raises":
        kind = "attribute"                    # the object with an annotation: Base.v (inherited by Derived.v or not)
    return {"fmt": fmt, "pt": pt, "kind": kind, "inherit": rec["inherit"], "docA": docA, "docB": doc("B"),
            "faults": inject_for(F), "declared": F, "order": [[x["o"], x["op"]] for x in rec["res"]], "dup": bool(rec.get("dup")),
            "wfield": rec["kindA"] == "cls" and fmt != "plaintext" and not rec.get("dup")}


def _inj_job(job: Tuple[Dict[str, Any], str, bool]) -> Dict[str, Any]:
    rec, fmt, pt = job[:3]
    sc = inj_scenario(rec, fmt, pt, sur=len(job) > 3 and job[3], idx=job[4] if len(job) > 4 else 0)
    tr = run_scenario(sc)
    tr["sc"] = sc
    return tr


FRAGMENTS = {
    "epytext": ["L{", "}", "B{", "I{", "C{", "U{", "M{", "E{", "E{lb}", "G{", "S{", "X{", "@param x:", "@type x:", "@return:", "@rtype:",
                "@ivar v:", "@unknown:", "@note:", "@raise E:", "  - ", "  1. ", ">>> ", "::", "Title\n=====\n", "Sub\n---\n", "L{a.b}",
                "U{label<http://x>}", "C{{}}", "E{-}", "@newfield a: B, C", "@see: x", "@param", "@"],
    "restructuredtext": ["*", "**", "`", "``", "_", "__", "|", ":param x:", ":type x:", ":returns:", ":rtype:", ":ivar v:", ":var", ".. note::",
                         ".. code::", ".. unknown::", ".. _t:", "t_", "[1]_", ".. [1] x", "Title\n=====\n", "Sub\n---\n", "^^^\n", "::",
                         "+---+\n| a |\n+---+\n", "| line", ".. image:: x", ".. |s| replace:: y", "|s|", ":Parameters:\n  x\n",
                         ".. default-role:: emphasis\n\n", ".. VersionAdded:: 1\n", ".. versionadded:: 1\n", ".. include:: /etc/passwd", ".. raw:: html\n\n  <b>", ":role:`x`", "`a <b>`_", ".. python::\n\n  x=1", ">>> x", "- ", "1. "],
    "google": ["Args:", "Returns:", "Raises:", "Yields:", "Note:", "Example::", "Attributes:", "    x (int): d", "    x: d", "Todo:", "Keyword Args:",
               "See Also:", "*", "``", "`", ":param x:", "Title\n=====\n", "    ", ".. note::"],
    "numpy": ["Parameters\n----------\n", "Returns\n-------\n", "Raises\n------\n", "x : int", "x : {'a', 'b'}, optional", "    desc", "See Also\n--------\n",
              "Notes\n-----\n", "Attributes\n----------\n", "Yields\n------\n", "*", "``", "`", "Title\n=====\n", "f, g : int", ".. note::"],
    "plaintext": ["<", ">", "&", "<p>", "&amp;", "\n\n", "word"],
}
COMMON = ["\n", "\n\n", " ", "  ", "    ", "word", "a.b.c", "(", ")", "[", "]", "{", "}", "<a>", "&amp;", "&#0;", "<", ">", "&", ":", ";", "..", "...",
          " -- ", "~", "\\", "\t", "\u00a0", "\ud800", "I{a\u00a0b}", "*a\u00a0b*", "\x00", "\x0b", "\x0c", "\r", "\u2028", "\x85", "\x1f", "\ufeff", "\u200b", "\U0001f600", "é", "'", '"', "'''", "%s", "{0}"]


# texts known to matter, run in every tier in front of the generated ones
CURATED = [("curated", ".. default-role:: emphasis\n\n`x` here.\n\n.. VersionAdded:: 1\n"),
           ("curated", "Summary.\n\n.. default-role:: literal\n\n.. unknowndirective:: x\n\n`y`\n"),
           ("curated", "Summary \ud800 with I{a\u00a0b} and *a\u00a0b*.\n"),
           ("curated", "Para\n  @note: x\n@note: y"),
           ("curated", "Summary.\n\n" + "word " * 2100 + "\n\nThe end.\n")]


def real_docstrings(limit: int = 400) -> List[str]:
    """Docstrings of the implementation itself (read from the tree under test)."""
    import pydoctor
    root = os.path.dirname(pydoctor.__file__)
    docs: List[str] = []
    for fn in sorted(os.listdir(root)):
        if not fn.endswith(".py"):
            continue
        try:
            tree = ast.parse(open(os.path.join(root, fn), encoding="utf-8").read())
        except Exception:
            continue
        for node in ast.walk(tree):
            if isinstance(node, (ast.Module, ast.ClassDef, ast.FunctionDef, ast.AsyncFunctionDef)):
                d = ast.get_docstring(node, clean=False)
                if d and 10 < len(d) < 1500:
                    docs.append(d)
    return docs[:limit]


def gen_docstrings(seed: int, n: int) -> List[Tuple[str, str]]:
    """(family, text) pairs generated by Hypothesis strategies, deterministically from the seed."""
    from hypothesis import strategies as st, given, settings, HealthCheck, Phase, seed as hseed
    reals = real_docstrings()
    frag = st.sampled_from(sorted(set(sum(FRAGMENTS.values(), []) + COMMON)))
    s_frag = st.lists(frag, min_size=1, max_size=14).map(lambda xs: "".join(xs))
    s_frag_sp = st.lists(st.tuples(frag, st.sampled_from(["", " ", "\n", "\n    "])), min_size=1, max_size=12).map(
        lambda xs: "".join(a + b for a, b in xs))
    s_uni = st.text(alphabet=st.characters(blacklist_categories=("Cs",)), min_size=1, max_size=60)
    s_ctl = st.text(alphabet=st.sampled_from([chr(c) for c in list(range(0, 32)) + [127, 133, 160, 0x2028, 0x2029, 0xFEFF]] + list("ab \n*`{}@:")),
                    min_size=1, max_size=40)

    def mutate(args: Tuple[str, List[Tuple[int, str, int]]]) -> str:
        text, edits = args
        for pos, ins, dele in edits:
            p = pos % (len(text) + 1)
            text = text[:p] + ins + text[p + dele:]
        return text
    s_mut = st.tuples(st.sampled_from(reals) if reals else st.just("Doc."),
                      st.lists(st.tuples(st.integers(0, 5000), frag, st.integers(0, 6)), min_size=1, max_size=5)).map(mutate)
    # documents divided in sections whose headings repeat, from one word to well over a hundred characters
    words = ["\u65e5\u672c\u8a9e", "\u0395\u03bb\u03bb\u03b7\u03bd\u03b9\u03ba\u03ac", "!?", "Notes", "Usage", "Thread safety", "and reentrancy guarantees", "of the public interface", "when the transport is closed by the peer",
             "1", "2", "Caf\u00e9", "x" * 30]
    s_head = st.lists(st.sampled_from(words), min_size=1, max_size=6).map(lambda ws: " ".join(ws))
    under = st.sampled_from(["=", "-", "~"])

    def sections(args: Tuple[List[str], List[int], str, str]) -> str:
        pool, picks, u1, tail = args
        parts = ["Summary of the thing."]
        for j, pk in enumerate(picks):
            h = pool[pk % len(pool)]
            parts.append("%s\n%s\nText of part %d%s" % (h, u1 * len(h), j, tail))
        return "\n\n".join(parts) + "\n"
    s_sect = st.tuples(st.lists(s_head, min_size=1, max_size=2), st.lists(st.integers(0, 3), min_size=2, max_size=4), under,
                       st.sampled_from([".", " L{x}.", " *y*."])).map(sections)
    # body and type of an attribute documented by a field of its class (@ivar v: .. / @type v: ..), separated by \x1e
    tfrag = st.sampled_from(["int", "str", " or ", "C{int}", "I{str}", "I{a\u00a0b}", "L{x.y}", "`x`", "*a*", "list of ", "(", ")", "[", "{1, 2}", ",", " ",
                             "\u00a0", "optional", "B{", "}", "'q", "\n    more",
                             "list of str, the caller's responsibility to release every one of them when it is done with the thing",
                             'mapping of "unclosed name to the objects that were registered under it before the first call was made'])
    s_ivar = st.tuples(st.lists(frag, min_size=1, max_size=6).map(lambda xs: "".join(xs)),
                       st.lists(tfrag, min_size=1, max_size=5).map(lambda xs: "".join(xs))).map(lambda bt: bt[0] + "\x1e" + bt[1])
    out: List[Tuple[str, str]] = []
    fams = [("ivarbody", s_ivar), ("fragments", s_frag), ("fragments", s_frag_sp), ("mutated", s_mut), ("unicode", s_uni), ("control", s_ctl), ("sections", s_sect)]
    strat = st.one_of(*[s.map(lambda t, f=f: (f, t)) for f, s in fams])

    @hseed(seed)
    @settings(max_examples=n, database=None, deadline=None, derandomize=False, phases=[Phase.generate],
              suppress_health_check=list(HealthCheck))
    @given(strat)
    def collect(x: Tuple[str, str]) -> None:
        out.append(x)
    collect()
    return (CURATED + out)[:n]


# ------------------------------------------------------------------------------- Slug.tla: section anchors
SLUG_WORD = {"a": "Alpha beta gamma delta epsilon zeta eta", "b": "Notes", "j": "\u65e5\u672c\u8a9e \u0395\u03bb\u03bb\u03b7\u03bd\u03b9\u03ba\u03ac !?",
             "1": "1", "2": "2", "3": "3", "4": "4"}
SLUG_ORDERS = [list(p) for p in __import__("itertools").permutations(["docstring", "summary", "toc"])]


def slug_id(tokens: List[str]) -> str:
    """The real anchor that corresponds to a model slug (a sequence of tokens; "-1" is the bare candidate suffix)."""
    return "-".join(SLUG_WORD.get(t, t) for t in tokens).lower().replace(" ", "-").replace("--", "-")


def slug_doc(doc: List[List[str]]) -> str:
    """The epytext docstring for an enumerated sequence of section headings (token sequences)."""
    parts = ["Summary of the thing."]
    for j, h in enumerate(doc):
        text = " ".join(SLUG_WORD[t] for t in h)
        parts.append("%s\n%s\nText of part %d." % (text, "=" * len(text), j))
    return "\n\n".join(parts) + "\n"


def _slug_job(rec: Dict[str, Any]) -> Dict[str, Any]:
    from docutils import nodes
    from pydoctor.epydoc.markup import epytext
    text = slug_doc(rec["doc"])
    errs: List[Any] = []
    pd = epytext.parse_docstring(text, errs)
    if errs:
        return {"gen_error": [e.descr() for e in errs], "text": text}
    try:
        with _Alarm(CALL_TIMEOUT * SCALE[0]):
            document = pd.to_node()
    except HangAlarm:
        return {"r": "timeout", "ids": [], "text": text}
    except Exception as e:
        return {"r": "escaped", "ids": [], "text": text, "exc": f"{type(e).__name__}: {e}"[:200]}
    ids = [sec["ids"][0] if sec["ids"] else "" for sec in document.findall(nodes.section)]
    # the same document through the pipeline, in each of the six orders of body / summary / toc (fresh system each time)
    bad_orders = []
    # (documents of up to two sections: all six orders; longer ones: body first and toc first)
    for order in (SLUG_ORDERS if len(rec["doc"]) <= 2 else [["docstring", "summary", "toc"], ["toc", "summary", "docstring"]]):
        tr = run_scenario({"fmt": "epytext", "pt": False, "kind": "function", "inherit": False, "docA": text, "docB": "Docstring of B.",
                           "faults": None, "order": [["A", op] for op in order]})
        worst = [e for e in tr.get("ev", []) if e["r"] in ("escaped", "timeout")]
        if worst:
            bad_orders.append({"order": order, "op": worst[0]["op"], "r": worst[0]["r"], "exc": worst[0]["exc"]})
    return {"r": "ok", "ids": ids, "text": text, "bad_orders": bad_orders}


def _fuzz_job(job: Dict[str, Any]) -> Dict[str, Any]:
    tr = run_scenario(job)
    tr["sc"] = job
    return tr


# ------------------------------------------------------------------------------------------------- cfgs
def cfg_enum(order_mode: str, bmenu: str, ns: str, emit: bool = True) -> str:
    return f"""SPECIFICATION Spec
CONSTANTS Source = "enum"
  OrderMode = "{order_mode}"
  BMenu = "{bmenu}"
  Ns = {ns}
{MODEL_CONSTANTS}{"CONSTRAINT EmitTerminal" if emit else ""}
INVARIANT AlwaysResultOrKF
INVARIANT Terminates
INVARIANT LinkerRestored
INVARIANT FallbackCompleteOrKF
INVARIANT ReportedWhenFailed
INVARIANT ReportedWhenRenderFails
INVARIANT OneReport
INVARIANT SummaryAlways
PROPERTY Frame
PROPERTY SourceParseUntouched
"""


CFG_FILE = """SPECIFICATION Spec
CONSTANTS Source = "file"
  OrderMode = "all"
  BMenu = "small"
  Ns = {1, 2}
""" + MODEL_CONSTANTS + """CONSTRAINT Accept
POSTCONDITION Post
INVARIANT AlwaysResultOrKF
INVARIANT Terminates
INVARIANT LinkerRestored
INVARIANT FallbackCompleteOrKF
INVARIANT ReportedWhenFailed
INVARIANT ReportedWhenRenderFails
INVARIANT OneReport
INVARIANT SummaryAlways
PROPERTY Frame
"""


def slim(tr: Dict[str, Any]) -> Dict[str, Any]:
    return {"F": tr["F"], "inherit": tr["inherit"], "kindA": tr["kindA"], "vdoc": tr.get("vdoc", False), "st0": tr.get("st0"),
            "aux": tr.get("aux", []), "frame_ok": tr.get("frame_ok", True), "x_same": tr.get("x_same", True),
            "ev": [{"o": e["o"], "op": e["op"], "r": e["r"], "st": e["st"]} for e in tr["ev"]]}


def tlc_trace(tr: Dict[str, Any]) -> Dict[str, Any]:
    """What Docstring.tla reads of a recorded execution (no nulls: TLC's JSON reader has no value for them)."""
    return {"F": tr["F"], "inherit": tr["inherit"], "kindA": tr["kindA"], "vdoc": bool(tr.get("vdoc", False)),
            "ev": [{"o": e["o"], "op": e["op"], "r": e["r"], "st": e["st"]} for e in tr["ev"]]}


def inject_for(F: Dict[str, Any]) -> Dict[str, Any]:
    """The faults to inject for an enumerated configuration: node = 'once' is realised by the docstring itself."""
    out = {}
    for o in OBJS:
        f = dict(NOFAULT) if F[o]["node"] == "once" else dict(F[o])
        if f["lvl"] != "warning" or f["parse"] == "refused":
            f["parse"] = "ok"             # nothing injected: the real parser recovers from / refuses the real text
        out[o] = f
    return out


JOB_DEADLINE = 45          # seconds for one scenario in a worker process, then the process is KILLED: a loop inside C code
                           # (a regular expression that backtracks for ever) never lets the alarm's handler run


def _worker_loop(fn: Any, conn: Any) -> None:
    while True:
        try:
            job = conn.recv()
        except EOFError:
            return
        if job is None:
            return
        try:
            conn.send(("ok", fn(job)))
        except BaseException as e:          # our own tooling failed inside the worker: reported as such by the parent
            conn.send(("err", f"{type(e).__name__}: {e}"))


def _scaled(args: Tuple[Any, Any, int]) -> Any:
    fn, job, scale = args
    SCALE[0] = scale
    try:
        return fn(job)
    finally:
        SCALE[0] = 1


def second_opinion(fn: Any, jobs: List[Any], results: List[Any], nproc: int, hung: Any) -> int:
    """A scenario that ran out of time is run again, alone among few, with four times the limits: on a loaded machine a
    healthy call can be slow; only what still does not return is a Terminates verdict. Returns how many were cleared."""
    again = [k for k, r in enumerate(results) if hung(r)]
    if not again:
        return 0
    res2, _ = budgeted_map(_scaled, [(fn, jobs[k], 4) for k in again], max(2, nproc // 4), hung, deadline=JOB_DEADLINE * 4, budget=10 ** 6)
    cleared = 0
    for k, r2 in zip(again, res2):
        if r2.get("hung"):
            r2 = {"hung": True, "job": jobs[k]}
        if not hung(r2):
            cleared += 1
        results[k] = r2
    return cleared


def budgeted_map(fn: Any, jobs: List[Any], nproc: int, hung: Any, deadline: int = 0, budget: int = 0) -> Tuple[List[Any], bool]:
    """
    Map over worker PROCESSES, one job at a time per worker, each job under a hard deadline: a worker that does not answer
    within JOB_DEADLINE seconds is killed and replaced, its job gets the result {"hung": True}.  Stops handing out jobs once
    HANG_BUDGET results report an interrupted call or a killed worker (every one of them costs seconds).
    Returns (results in job order - only for the jobs that were run, cut short?).
    """
    import multiprocessing as mp
    from multiprocessing.connection import wait
    mpc = mp.get_context("fork")
    results: Dict[int, Any] = {}
    workers: List[Dict[str, Any]] = []

    def spawn() -> Dict[str, Any]:
        parent, child = mpc.Pipe()
        proc = mpc.Process(target=_worker_loop, args=(fn, child), daemon=True)
        proc.start()
        child.close()
        return {"proc": proc, "conn": parent, "job": None, "since": 0.0}

    nxt = 0
    hangs = 0
    cut = False
    try:
        workers = [spawn() for _ in range(min(nproc, max(1, len(jobs))))]
        while True:
            for w in workers:                                        # hand out
                if w["job"] is None and nxt < len(jobs) and not cut:
                    w["job"], w["since"] = nxt, time.time()
                    w["conn"].send(jobs[nxt])
                    nxt += 1
            busy = [w for w in workers if w["job"] is not None]
            if not busy:
                break
            ready = wait([w["conn"] for w in busy], timeout=1.0)
            now = time.time()
            for w in busy:
                if w["conn"] in ready:
                    try:
                        tag, val = w["conn"].recv()
                    except (EOFError, OSError):
                        tag, val = "err", "worker died"
                    if tag == "err":
                        raise MachineryError(f"worker failed on job {w['job']}: {val}")
                    results[w["job"]] = val
                    if hung(val):
                        hangs += 1
                    w["job"] = None
                elif now - w["since"] > (deadline or JOB_DEADLINE):                 # stuck where no signal handler can run: kill it
                    w["proc"].kill()
                    w["proc"].join(5)
                    w["conn"].close()
                    results[w["job"]] = {"hung": True, "job": jobs[w["job"]]}
                    hangs += 1
                    workers[workers.index(w)] = spawn()
            if hangs >= (budget or HANG_BUDGET):
                cut = True
    finally:
        for w in workers:
            try:
                if w["job"] is None:
                    w["conn"].send(None)
                else:
                    w["proc"].kill()
                w["conn"].close()
            except Exception:
                pass
        for w in workers:
            w["proc"].join(5)
            if w["proc"].is_alive():
                w["proc"].kill()
    return [results[k] for k in sorted(results)], cut


def hung_trace(job: Dict[str, Any]) -> Dict[str, Any]:
    """The trace of a scenario whose worker had to be killed: one call that never returned."""
    blank = {"pd": {o: "none" for o in OBJS}, "ps": {o: "none" for o in OBJS}, "perr": {o: False for o in OBJS},
             "nrep": {o: 0 for o in OBJS}, "pz": {o: False for o in OBJS}, "lk": {o: "home" for o in OBJS}, "aerr": {o: False for o in OBJS}}
    return {"F": {o: dict(NOFAULT) for o in OBJS}, "inherit": job.get("inherit", False), "kindA": model_kind(job.get("kind", "function")),
            "vdoc": False, "aux": [], "st0": blank, "frame_ok": True, "xhtml": None, "reports": [], "names": {}, "seen": {},
            "ev": [{"o": "A", "op": "?", "r": "timeout", "st": blank, "full": False,
                    "exc": "the worker process did not answer within %d s and was killed" % JOB_DEADLINE}], "sc": job}


# ------------------------------------------------------------------------------------------------ check
def run(ctx: Ctx) -> int:
    rng = random.Random(ctx.seed)
    ctx.register_matcher("format-toc-unguarded", kf_toc_escapes)
    ctx.register_matcher("epytext-half-built-document-cached", kf_poisoned_cache)
    nproc = max(2, min(NCPU, 16))
    all_traces: List[Dict[str, Any]] = []

    def account(tr: Dict[str, Any], origin: str, baseline_x: Dict[str, str]) -> None:
        """Verdict on one real execution."""
        tr["x_same"] = tr["xhtml"] is None or tr["xhtml"] == baseline_x[tr["sc"]["fmt"]]
        if tr["sc"].get("wfield") and tr.get("whtml") is not None:
            tr["w_same"] = tr["whtml"] == baseline_w[tr["sc"]["fmt"]]
        bad = judge(tr)
        if bad:
            sc = tr["sc"]
            esc = [e for e in tr["ev"] if e["r"] == "escaped"]
            wit = {"invariant": bad[0], "failed": bad, "origin": origin, "scenario": sc, "trace": slim(tr),
                   "observed": {"exceptions": [e["exc"] for e in esc][:3], "reports": tr["reports"],
                                "results": [[e["o"], e["op"], e["r"], e["full"]] for e in tr["ev"]]},
                   "key": "%s:%s:%s:%s:%s" % (origin, bad, sc["fmt"] if origin != "inject" else "*", tr["kindA"],
                                              sorted((o, k, v) for o in OBJS for k, v in tr["F"][o].items() if v != NOFAULT[k] and k != "n"))}
            if wit["key"] not in pending_keys or origin == "fuzz":       # one witness per class for the injected ones
                pending_keys.add(wit["key"])
                pending[origin].append(wit)
            pending_count[origin] = pending_count.get(origin, 0) + 1

    pending: Dict[str, List[Dict[str, Any]]] = {"fuzz": [], "inject": []}
    pending_keys: set = set()
    pending_count: Dict[str, int] = {}

    # baseline rendering of the bystander per docformat (no faults anywhere)
    baseline_x: Dict[str, str] = {}
    baseline_w: Dict[str, str] = {}
    for fmt in FMTS:
        t = run_scenario({"fmt": fmt, "pt": False, "kind": "function", "inherit": False, "docA": "Doc of A.", "docB": "Doc of B.",
                          "faults": None, "order": []})
        baseline_x[fmt] = t["xhtml"]
        if fmt in W_FIELD:
            tw = run_scenario({"fmt": fmt, "pt": False, "kind": "class", "inherit": False, "docA": "Doc of A.\n\n" + W_FIELD[fmt],
                               "docB": "Doc of B.", "faults": None, "order": []})
            baseline_w[fmt] = tw["whtml"]
            if not tw["whtml"] or "#reports: 1" not in tw["whtml"] or 'href="#meth"' not in tw["whtml"]:
                raise MachineryError(f"baseline of the sibling attribute is not what the harness expects: {tw['whtml']!r}")

    # ================================================================= spec -> code : every fault combination, injected
    r = ctx.tlc("Docstring", cfg_enum("Bfixed", "tiny" if ctx.quick else "small", "{1}" if ctx.quick else "{1, 2}"),
                workers="auto", check=False, coverage=False, timeout=1500, java_opts=["-Xmx6g"])
    if not ctx.quick:
        # every interleaving of the six calls, invariants only (nothing printed: ~10^6 behaviours)
        r_all = ctx.tlc("Docstring", cfg_enum("all", "small", "{1, 2}", emit=False), workers="auto", check=False,
                        timeout=3000, java_opts=["-Xmx8g"])
        hard_all = [e for e in r_all.errors if "behavior up to this point" not in e]
        if hard_all or (r_all.rc != 0 and not r_all.violated):
            raise MachineryError(f"Docstring(enum, all orders): TLC failed rc={r_all.rc} {hard_all[:3]}")
        ctx.extra["all_interleavings_invariants_violated"] = list(r_all.violated)
        ctx.extra["all_interleavings_states"] = r_all.distinct
    hard = [e for e in r.errors if "behavior up to this point" not in e]
    if hard or (r.rc != 0 and not r.violated):
        raise MachineryError(f"Docstring(enum): TLC failed rc={r.rc} {hard[:3]}\n" + "\n".join(r.out.splitlines()[-25:]))
    ctx.extra["design_level_invariants_violated"] = list(r.violated)
    recs = r.printed
    if not recs:
        raise MachineryError("Docstring: TLC emitted no behaviour")
    ctx.extra["behaviours_enumerated"] = len(recs)
    # distinct fault configurations x inherit x kind (every one is replayed with every enumerated order)
    ctx.extra["fault_configurations"] = len({json.dumps([x["F"], x["inherit"], x["kindA"]], sort_keys=True) for x in recs})
    # replay: every fault configuration with a seeded sample of the enumerated call orders (all of them would be ~13 ms each)
    # (all six orders of body / summary / toc on A are replayed for every configuration)
    per_perm = 2 if ctx.quick else 8
    groups: Dict[str, Dict[str, List[Dict[str, Any]]]] = {}
    for rec in recs:
        perm_a = ",".join(x["op"] for x in rec["res"] if x["o"] == "A")
        groups.setdefault(json.dumps([rec["F"], rec["inherit"], rec["kindA"], rec.get("dup", False)], sort_keys=True), {}).setdefault(perm_a, []).append(rec)
    chosen: List[Dict[str, Any]] = []
    for key in sorted(groups):
        for perm_a in sorted(groups[key]):
            g = groups[key][perm_a]
            g.sort(key=lambda x: json.dumps(x["res"], sort_keys=True))
            chosen += g if len(g) <= per_perm else rng.sample(g, per_perm)
    ctx.extra["orders_of_A_replayed_per_configuration"] = sorted({len(v) for v in groups.values()})
    ctx.extra["behaviours_replayed"] = len(chosen)
    ctx.exhaustive = len(chosen) == len(recs)
    jobs = []
    markup_fmts = [f for f in FMTS if f != "plaintext"]
    for idx, rec in enumerate(chosen):
        needs_titles = any(rec["F"][o]["toc"] in ("ok", "stanraises") or rec["F"][o]["field"] == "raises" or rec["F"][o]["tag"] != "none"
                           for o in OBJS) or rec.get("vdoc", False)   # plain text has neither section titles nor fields
        fmt = markup_fmts[idx % len(markup_fmts)] if needs_titles else FMTS[idx % len(FMTS)]
        if any(rec["F"][o]["node"] == "once" for o in OBJS):
            fmt = "epytext"                              # the deviation lives in ParsedEpytextDocstring
        if any(rec["F"][o]["lvl"] != "warning" or rec["F"][o]["parse"] == "refused" for o in OBJS):
            fmt = ("restructuredtext", "google", "numpy")[idx % 3]     # what docutils recovers from
        jobs.append((rec, fmt, bool((idx // len(FMTS)) % 2), idx % 3 == 0, idx))
    hung_tr = lambda t: t.get("hung") or any(e["r"] == "timeout" for e in t.get("ev", []))
    results, cut_inj = budgeted_map(_inj_job, jobs, nproc, hung_tr)
    jobs = jobs[:len(results)]
    ctx.extra["inject_slow_not_hung"] = second_opinion(_inj_job, jobs, results, nproc, hung_tr)
    if any(hung_tr(t) for t in results):            # well-formed templates: a third try before calling it a failure of ours
        ctx.extra["inject_slow_not_hung"] += second_opinion(_inj_job, jobs, results, 2, hung_tr)
    if cut_inj or any(hung_tr(t) for t in results):
        stuck = [(j[1], j[0]["F"], j[0]["kindA"], [[x["o"], x["op"]] for x in j[0]["res"]]) for j, t in zip(jobs, results) if hung_tr(t)][:3]
        raise MachineryError(f"an injected scenario (well-formed template text) did not return: not a docstring-specific hang: {stuck}")
    mism = 0
    for (rec, fmt, pt, _sur, _idx), tr in zip(jobs, results):
        if "skip" in tr:
            raise MachineryError(f"injected scenario could not be built: {tr['skip']}")
        ctx.traces += 1
        account(tr, "inject", baseline_x)
        got = [[e["o"], e["op"], e["r"]] for e in tr["ev"]]
        want = [[x["o"], x["op"], x["r"]] for x in rec["res"]]
        fin = tr["ev"][-1]["st"] if tr["ev"] else None
        if got != want or fin != rec["final"]:
            mism += 1
            ctx.drift_note({"F": rec["F"], "inherit": rec["inherit"], "kindA": rec["kindA"], "fmt": fmt, "spec": want, "real": got,
                            "spec_final": rec["final"], "real_final": fin})
        all_traces.append(tr)
        if ctx.traces % 4000 == 1:
            ctx.sample({"faults": rec["F"], "inherit": rec["inherit"], "kindA": rec["kindA"], "fmt": fmt, "results": got})
    ctx.extra["spec_vs_code_mismatches"] = mism

    # ================================================================= Slug.tla : the anchor de-duplication loop terminates
    rs = ctx.tlc("Slug", "SPECIFICATION Spec\nCONSTANTS MaxSections = %d\n Cap = 0\n Bound = 8\nCONSTRAINT EmitTerminal\n"
                 "INVARIANT Variant\nINVARIANT IdsDistinct\nINVARIANT IdsFaithful\nPROPERTY Terminates\n" % (3 if ctx.quick else 4),
                 workers="auto", check=True, timeout=900)
    ctx.extra["slug_design_level_violated"] = list(rs.violated)
    srecs = list({json.dumps(x["doc"]): x for x in rs.printed}.values())
    if not srecs:
        raise MachineryError("Slug: TLC emitted no document")
    rng.shuffle(srecs)
    sres, cut = budgeted_map(_slug_job, srecs, nproc, lambda x: x.get("hung") or x.get("r") == "timeout" or any(b["r"] == "timeout" for b in x.get("bad_orders", [])))
    hung_sl = lambda x: x.get("hung") or x.get("r") == "timeout" or any(b["r"] == "timeout" for b in x.get("bad_orders", []))
    ctx.extra["slug_slow_not_hung"] = second_opinion(_slug_job, srecs[:len(sres)], sres, nproc, hung_sl)
    sres = [{"r": "timeout", "ids": [], "text": slug_doc(x["job"]["doc"])} if x.get("hung") else x for x in sres]
    ctx.extra["slug_phase_cut_short_by_hangs"] = cut
    slug_mism = 0
    for rec, got in zip(srecs, sres):
        if "gen_error" in got:
            raise MachineryError(f"Slug: generated epytext does not parse: {got}")
        ctx.traces += 1
        want = [slug_id(sid) for sid in rec["ids"]]
        bad_s = []
        if got["r"] == "timeout":
            bad_s.append("Terminates")
        elif got["r"] == "escaped":
            bad_s.append("AlwaysResult")
        elif len(got["ids"]) != len(rec["doc"]) or len(set(got["ids"])) != len(got["ids"]):
            bad_s.append("IdsDistinct")
        elif got.get("bad_orders"):
            bad_s.append("Terminates" if got["bad_orders"][0]["r"] == "timeout" else "AlwaysResult")
        if bad_s:
            ctx.violation({"invariant": bad_s[0], "failed": bad_s, "origin": "slug", "headings": rec["doc"], "input": got["text"],
                           "observed": {"result": got["r"], "ids": got["ids"], "exc": got.get("exc", ""), "orders": got.get("bad_orders", [])[:3]},
                           "expected": {"ids": want},
                           "key": "slug:%s:%s" % (bad_s, [len(h) for h in rec["doc"]])})
        elif got["ids"] != want:
            slug_mism += 1
            ctx.drift_note({"slug": rec["doc"], "model": want, "real": got["ids"]})
    ctx.extra["slug_documents"] = len(srecs)
    ctx.extra["slug_documents_with_loop_iterations"] = sum(1 for x in srecs if x["iters"] > 0)
    ctx.extra["slug_model_vs_code_mismatches"] = slug_mism
    if srecs:
        mx = max(srecs, key=lambda x: x["iters"])
        ctx.sample({"slug_headings": mx["doc"], "model_ids": mx["ids"], "loop_iterations": mx["iters"]})

    # ================================================================= code -> spec : fuzzed docstrings, observed
    ndocs = 700 if ctx.quick else 12000
    docs = gen_docstrings(ctx.seed, ndocs)
    fam_count: Dict[str, int] = {}
    fjobs: List[Dict[str, Any]] = []
    kinds = ["module", "class", "function", "method", "attribute"]
    ops = [["A", "docstring"], ["A", "summary"], ["A", "toc"], ["B", "docstring"], ["B", "summary"], ["B", "toc"]]
    for idx, (fam, text) in enumerate(docs):
        fam_count[fam] = fam_count.get(fam, 0) + 1
        # every docstring in every docformat; kind / process-types / order rotate and are shuffled by the seed
        for fi, fmt in enumerate(FMTS):
            kind = kinds[(idx + fi) % len(kinds)]
            docA = text
            if fam == "ivarbody":             # the fuzzed text is the body (and the type) of the field that documents K.v / m.v
                kind = ("class", "module")[(idx + fi) % 2]
                body, typ = text.split("\x1e", 1)
                body = body.replace("\n", "\n    ").strip() or "x"
                f1, f2 = ("@ivar v: %s", "@type v: %s") if fmt == "epytext" else (":ivar v: %s", ":type v: %s")
                typ = typ.strip() or "int"
                if fmt == "google" and idx % 2:          # the same attribute through napoleon's own section
                    docA = "Summary of the owner.\n\nAttributes:\n    v (%s): %s\n" % (typ.replace("\n", " "), body.replace("\n", " "))
                elif fmt == "numpy" and idx % 2:
                    docA = "Summary of the owner.\n\nAttributes\n----------\nv : %s\n    %s\n" % (typ.replace("\n", " "), body.replace("\n", " "))
                else:
                    docA = "Summary of the owner.\n\n" + (f1 % body) + "\n" + (f2 % typ) + "\n"
                if kind == "class" and fmt in W_FIELD and not (fmt in ("google", "numpy") and idx % 2):
                    docA += W_FIELD[fmt]
            order = ops[:] + ([["V", "docstring"], ["V", "summary"]] if kind in ("class", "module") else [])
            rng.shuffle(order)
            fjobs.append({"fmt": fmt, "pt": bool((idx + fi) % 2), "kind": kind, "inherit": kind in ("method", "attribute"),
                          "docA": docA, "docB": "Docstring of B, %s." % ("inherited" if kind in ("method", "attribute") else "own"),
                          "faults": None, "order": order, "family": fam,
                          # (a directive in the fuzzed field body - default-role, role, substitution definitions - legitimately changes
                          # how the REST OF THE SAME docstring, the sibling field included, is read: no baseline to compare with then)
                          "wfield": fam == "ivarbody" and kind == "class" and fmt in W_FIELD and not (fmt in ("google", "numpy") and idx % 2)
                                    and ".. " not in text and "::" not in text})
    fres, cut = budgeted_map(_fuzz_job, fjobs, nproc, lambda t: t.get("hung") or any(e["r"] == "timeout" for e in t.get("ev", [])))
    ctx.extra["fuzz_slow_not_hung"] = second_opinion(_fuzz_job, fjobs[:len(fres)], fres, nproc, hung_tr)
    ctx.extra["fuzz_workers_killed"] = sum(1 for t in fres if t.get("hung"))
    fres = [hung_trace(t["job"]) if t.get("hung") else t for t in fres]
    ctx.extra["fuzz_phase_cut_short_by_hangs"] = cut
    skipped = 0
    outcome_count: Dict[str, int] = {}
    for tr in fres:
        if "skip" in tr:
            skipped += 1
            continue
        ctx.traces += 1
        account(tr, "fuzz", baseline_x)
        all_traces.append(tr)
        k = "%s/%s" % (tr["sc"]["fmt"], tr["F"]["A"]["parse"]) + ("+tostan" if tr["F"]["A"]["tostan"] == "raises" else "") \
            + ("+sumbroken" if tr["F"]["A"]["summary"] != "ok" else "") + ("+toc:" + tr["F"]["A"]["toc"] if tr["F"]["A"]["toc"] not in ("none",) else "")
        outcome_count[k] = outcome_count.get(k, 0) + 1
    ctx.extra["fuzz_docstrings"] = len(docs)
    ctx.extra["fuzz_families"] = fam_count
    ctx.extra["fuzz_executions"] = len(fres) - skipped
    ctx.extra["fuzz_skipped_unbuildable"] = skipped
    ctx.extra["fuzz_observed_outcomes"] = dict(sorted(outcome_count.items()))
    fz = [t for t in fres if "skip" not in t]
    if fz:
        t = fz[len(fz) // 3]
        ctx.sample({"fuzz": {"fmt": t["sc"]["fmt"], "kind": t["sc"]["kind"], "pt": t["sc"]["pt"], "doc": t["sc"]["docA"][:120]},
                    "observed_faults": t["F"]["A"], "results": [[e["o"], e["op"], e["r"]] for e in t["ev"]]})

    # verdicts: witnesses found with real docstrings first (they get the replay files), then the injected ones
    renderer_failures = [t for t in fz if t["F"]["A"]["tostan"] != "ok" or t["F"]["A"]["summary"] != "ok" or t["F"]["A"]["toc"] in ("noderaises", "stanraises")]
    ctx.extra["fuzz_renderer_failures"] = len(renderer_failures)
    ctx.extra["fuzz_renderer_failure_examples"] = [
        {"fmt": t["sc"]["fmt"], "kind": t["sc"]["kind"], "pt": t["sc"]["pt"], "doc": t["sc"]["docA"][:160], "faults_observed": t["F"]["A"],
         "results": [[e["o"], e["op"], e["r"], e["exc"][:100]] for e in t["ev"]]} for t in renderer_failures[:8]]
    for origin in ("fuzz", "inject"):
        for wit in pending[origin]:
            ctx.violation(wit)
    ctx.extra["executions_violating_the_property"] = pending_count
    if mism > len(chosen) // 10 and not ctx.violations:
        # the code no longer behaves like the model although the property holds on everything observed
        raise MachineryError(f"{mism} of {len(chosen)} replayed behaviours are not reproduced by the code: coverage claim void")

    # ================================================================= TLC validates every recorded execution
    def validate(trs: List[Dict[str, Any]], count: bool = True) -> Tuple[set, List[str]]:
        f = ctx.scratch / "traces.json"
        f.write_text(json.dumps([tlc_trace(t) for t in trs]))
        rr = ctx.tlc("Docstring", CFG_FILE, workers=1, env={"TRACE_FILE": str(f)}, check=False, timeout=1500, count=count,
                     extra=["-continue"], java_opts=["-Xmx4g"])
        hard2 = [e for e in rr.errors if "behavior up to this point" not in e]
        if hard2 or (rr.rc != 0 and not rr.violated):
            raise MachineryError(f"Docstring(file): TLC failed rc={rr.rc} {hard2[:3]}\n" + "\n".join(rr.out.splitlines()[-25:]))
        acc = [v for v in rr.printed if isinstance(v, dict) and "accepted" in v]
        if len(acc) != 1:
            raise MachineryError("Docstring(file): no acceptance record\n" + "\n".join(rr.out.splitlines()[-20:]))
        return set(acc[0]["accepted"]), list(rr.violated)

    rejected = 0
    tlc_viol: List[str] = []
    for batch in chunks(all_traces, 4000):
        acc, viol = validate(list(batch))
        tlc_viol += viol
        for k, t in enumerate(batch, 1):
            if k not in acc:
                rejected += 1
                if not judge(t):                       # property holds on it, model cannot follow it: drift
                    ctx.drift_note({"trace_rejected": t["sc"].get("family", "inject"), "fmt": t["sc"]["fmt"], "F": t["F"],
                                    "doc": t["sc"]["docA"][:200], "ev": [[e["o"], e["op"], e["r"]] for e in t["ev"]]})
    ctx.extra["traces_validated_by_tlc"] = len(all_traces)
    ctx.extra["traces_rejected_by_tlc"] = rejected
    ctx.extra["trace_invariants_violated_in_tlc"] = sorted(set(tlc_viol))
    if tlc_viol and not ctx.violations and not ctx.known_seen:
        raise MachineryError(f"TLC reports {sorted(set(tlc_viol))} on recorded traces but the Python twin accepted every execution")

    # ================================================================= negative controls
    nc: Dict[str, bool] = {}
    base = next((t for t in all_traces if t["F"]["A"]["parse"] == "fatal" and not judge(t) and len(t["ev"]) >= 3), None)
    if base is not None:
        b1 = json.loads(json.dumps(slim(base)))                 # the report is lost
        for e in b1["ev"]:
            e["st"]["perr"]["A"] = False
            e["st"]["nrep"]["A"] = 0
        b2 = json.loads(json.dumps(slim(base)))                 # the same object reported a second time
        for e in b2["ev"][1:]:
            e["st"]["nrep"]["A"] += 1
        b3 = json.loads(json.dumps(slim(base)))                 # fallback shows something else
        for e in b3["ev"]:
            if e["op"] == "docstring":
                e["r"] = "partial"
        full = lambda b: {**base, **b, "ev": [{**e, "full": True, "exc": ""} for e in b["ev"]]}
        acc, _ = validate([slim(base), b1, b2, b3], count=False)
        nc["genuine_accepted"] = 1 in acc
        nc["lost_report_rejected"] = 2 not in acc and "ReportedWhenFailed" in judge(full(b1))
        twice = {**full(b2), "reports": base["reports"] + base["reports"][:1]}
        nc["second_report_rejected"] = 3 not in acc and "OneReport" in judge(twice)
        nc["partial_fallback_rejected"] = 4 not in acc and "FallbackComplete" in judge(full(b3))
    ctx.extra["negative_control"] = nc or "not run: no execution with a fatal parse error satisfied the property"
    if (not nc and not ctx.violations) or not all(nc.values()):
        raise MachineryError(f"negative control failed: {nc}")

    ctx.assumptions += [
        "'succeeds and terminates' = the entry point returns a value that twisted flattens, within %d s" % CALL_TIMEOUT,
        "faults are injected at the pipeline's own seams (the parser function, ParsedDocstring.to_stan / to_node of its result, "
        "to_stan of the summary / toc); what happens inside a parser is not modelled",
        "lone surrogates are excluded from the fuzzed text (they cannot be written to a UTF-8 page at all)",
        "'reported against the object' = the source object's name enters System.parse_errors['docstring'] and a "
        "'<file>:<line>: bad docstring:' message naming its file is printed; a second failure of the same object is not reported again",
        "field bodies (Field.format) and split-field attributes (@ivar) are exercised by the fuzz runs only as far as the events of the "
        "two objects under test show; they have no action of their own in Docstring.tla",
    ]
    return ctx.finish(
        rule="behaviours = (fault combination, own|inherited, function|class, call order) enumerated by TLC from Docstring.tla and forced "
             "on the real pipeline by fault injection, plus fuzzed docstrings x 5 docformats x kinds x process-types observed on the real "
             "pipeline; every execution validated by TLC. distinct = distinct enumerated behaviours + distinct fuzz executions; "
             "non-trivial = behaviours with at least one fault + fuzz executions whose parser reported or failed",
        distinct_nontrivial=sum(1 for x in chosen if any(x["F"][o] != NOFAULT for o in OBJS))
        + sum(1 for t in fz if t["F"]["A"]["parse"] != "ok" or t["F"]["A"]["tostan"] != "ok"))


def replay(ctx: Ctx, path: str) -> int:
    w = json.load(open(path))
    if w.get("origin") == "slug":
        got = _slug_job({"doc": w["headings"]})
        bad_s = (["Terminates"] if got.get("r") == "timeout" else ["AlwaysResult"] if got.get("r") == "escaped"
                 else ["IdsDistinct"] if len(set(got.get("ids", []))) != len(w["headings"])
                 else ["AlwaysResult"] if got.get("bad_orders") else [])
        print("replay:", got.get("r"), got.get("ids"))
        print("replay:", "still violated: " + ",".join(bad_s) if bad_s else "holds now")
        if bad_s:
            print(f"VIOLATION property=C08 replay={path}")
        ctx.cleanup()
        return 1 if bad_s else 0
    sc = w["scenario"]
    tr = run_scenario(sc)
    bad: List[str] = []
    if "skip" in tr:
        print("replay: scenario cannot be built any more:", tr["skip"])
    else:
        tr["sc"] = sc
        base = run_scenario({"fmt": sc["fmt"], "pt": False, "kind": "function", "inherit": False, "docA": "Doc of A.", "docB": "Doc of B.",
                             "faults": None, "order": []})
        tr["x_same"] = tr["xhtml"] == base["xhtml"]
        bad = judge(tr)
        print("replay: results", [[e["o"], e["op"], e["r"], e["exc"]] for e in tr["ev"]])
    print("replay:", "still violated: " + ",".join(bad) if bad else "holds now")
    if bad:
        print(f"VIOLATION property=C08 replay={path}")
    ctx.cleanup()
    return 1 if bad else 0
