"""
C18 - equal inputs give byte-identical output.

spec -> code : spec/Determinism.tla is the run as a function of the input (roots on the command line, project name
               given or not) with every environment choice explicit (directory listing order at each iterdir(),
               iteration order of the set root_names, fresh / reused output directory).  TLC enumerates every
               (input, choice) combination and prints its terminal state.  EVERY printed combination is realised
               as one real `python -m pydoctor` subprocess: PYTHONHASHSEED chosen so that the real set iterates in
               the chosen order, a sitecustomize.py that makes os.listdir / os.scandir / Path.iterdir return the
               chosen listing, fresh or pre-filled output directory, SOURCE_DATE_EPOCH fixed.
               verdict     : all runs of one input have byte-identical trees (recursive comparison)
               conformance : project name, written file set, allobjects order observed == the spec's terminal state
               design level: the inputs TLC reports as choice dependent (hyper-property by registers) are compared
                             with the inputs whose real trees differ
code -> spec : repository test packages are run under random hash seeds and salted listing shuffles; the OBSERVED
               environment (logged listings, observed set order) is handed to TLC (Source = "file") which recomputes
               the run; same verdict and conformance.
"""
from __future__ import annotations

import hashlib
import json
import os
import random
import re
import shutil
import subprocess
import sys
import zlib
from concurrent.futures import ThreadPoolExecutor
from pathlib import Path
from typing import Any, Dict, List, Optional, Sequence, Tuple
from urllib.parse import quote

from ..core import Ctx, MachineryError, NCPU

PY = sys.executable
PROJECT_NAME = "Proj"

# ------------------------------------------------------------------------------------- universes
# name -> kind tree; ids used by the spec are the ranks of the names under sorted(Path) among siblings
ZOPE_SRC = (
    '"""Module Ma: differs from ma only in the case of a letter; zope interfaces inherited from ONE base;\n'
    'reStructuredText, with a consolidated field written as prose (it cannot be split: shown as a field of its own);\n'
    'no __all__: what `from .Ma import *` gives is what Ma defines followed by what it merely imports."""\n'
    '__docformat__ = "restructuredtext"\n'
    'from zope.interface import Interface, implementer\nfrom .ma import A, A2, A3\n'
    'class IAlpha(Interface):\n    "Alpha."\n    def run():\n        "Run in the way IAlpha wants it."\n'
    'class IBeta(Interface):\n    "Beta."\n    def run():\n        "Run in the way IBeta wants it."\n'
    'class IGamma(Interface):\n    "Gamma."\n    def run():\n        "Run in the way IGamma wants it."\n'
    '@implementer(IAlpha, IBeta, IGamma)\nclass ZBase:\n    "Declares the interfaces."\n'
    'class ZChild(ZBase):\n    "Inherits the interfaces from `ZBase`."\n    def run(self):\n        pass\n'
    'def cfield(x):\n    """Consolidated field as prose.\n\n    :Parameters:\n        x is not written as a list item\n    """\n')
MODULE_SRC = {
    # a three module chain: __init__ star-imports Ma (no __all__), Ma imports the names from ma, __init__ re-exports them
    "alpha/__init__.py": '"""Alpha package."""\nfrom .Ma import *\n__all__ = ["A", "A2", "A3", "helper"]\ndef helper(x: int = 1) -> int:\n    "Help."\n    return x\n',
    # four attributes assigned on ONE line: equal line numbers, "the order of insertion" decides under source order
    "alpha/ma.py": ('"""Module ma."""\nclass A:\n    "Class A."\n    left = right = top = bottom = 0\n    def m(self):\n        "method"\n'
                    'class A2(A):\n    "Sub of A, see L{A}."\nclass A3(A):\n    "Another sub of A."\n'),
    "alpha/Ma.py": ZOPE_SRC,
    "alpha/mb.py": '"""Module mb."""\nfrom alpha.ma import A\nclass B(A):\n    "B."\nclass B2(A):\n    "B2."\nCONST = {"k": 1, "j": 2}\n',
    "alpha/.hidden": "not python\n",
    # no docstring: its summary counts the documented members per kind - a sub-package AND a module
    # one import statement naming two modules of the package (the reverse of the order they wait in the queue)
    "beta/__init__.py": 'from alpha.ma import A\nimport beta.sc, beta.me\ndef bfun():\n    "b function"\n',
    "beta/sc/__init__.py": '"""Sub package."""\ndef scfun():\n    "sc function"\n',
    "beta/sc/md.py": '"""Module md."""\nfrom alpha.ma import A\nclass D(A):\n    "D."\n    x = 1\n    "x doc"\n',
    "beta/me.py": ('"""Module me."""\n__docformat__ = "restructuredtext"\nimport alpha.ma\nclass E(alpha.ma.A):\n    "E extends `alpha.ma.A`."\n'
                   'def f(a, b=(1, 2)):\n    """f.\n\n    :Parameters:\n        a and b are described in prose\n    """\n'),
    "beta/README.txt": "data\n",
    # epytext sections whose titles have no Latin letter or digit (ids and table of contents)
    "gamma.py": '"""Gamma module.\n\n\u0420\u0430\u0437\u0434\u0435\u043b\n======\n\u03b1\u03b2\u03b3 text.\n\n'
                '\u6982\u8981\n==\nMore text.\n\n\u2605\u2605\u2605\n===\nLast.\n"""\nimport alpha.ma\nclass G(alpha.ma.A):\n    "G."\nv = 3\n"v doc"\n',
    # a second module named gamma in another directory (think build/lib/gamma.py next to src/gamma.py)
    "dup/gamma.py": '"""Gamma module, stale copy."""\nclass Gold:\n    "old"\nv = 2\n"old v doc"\n',
}
ROOTS = ["alpha", "beta", "gamma.py", "dup/gamma.py"]
# inputs enumerated whatever the bound on the number of roots: a package with independent modules still waiting to be
# processed, then the same module name twice
EXTRA_INPUTS = [["beta", "dup/gamma.py", "gamma.py"]]
# "small": a package with two modules whose names differ only in case, a package with a nested package, a module
UNIVERSES = {
    "small": ["alpha/__init__.py", "alpha/Ma.py", "alpha/ma.py", "beta/__init__.py", "beta/me.py", "beta/sc/__init__.py",
              "gamma.py", "dup/gamma.py"],
    "large": ["alpha/__init__.py", "alpha/Ma.py", "alpha/ma.py", "alpha/mb.py", "alpha/.hidden",
              "beta/__init__.py", "beta/me.py", "beta/README.txt", "beta/sc/__init__.py", "beta/sc/md.py", "gamma.py", "dup/gamma.py"],
}
# collections of names that reach a page (Determinism.tla `sites`): (name, module, how, [(defining module, element)])
# elements are listed in the order the code collects them; ranks are those of the sort key (fullName().lower())
BOTH = lambda h: {"alphabetical": h, "source": h}
SITES = [
    ("interfaces:alpha.Ma.ZChild.run", "alpha.Ma", BOTH("list"),
     [("alpha.Ma", "alpha.Ma.IAlpha"), ("alpha.Ma", "alpha.Ma.IBeta"), ("alpha.Ma", "alpha.Ma.IGamma")]),
    ("subclasses:alpha.ma.A", "alpha.ma", BOTH("sorted"),
     [("alpha.ma", "alpha.A2"), ("alpha.ma", "alpha.A3"), ("alpha.mb", "alpha.mb.B"), ("alpha.mb", "alpha.mb.B2"),
      ("beta.me", "beta.me.E"), ("beta.sc.md", "beta.sc.md.D"), ("gamma", "gamma.G")]),
    # summary of the undocumented package beta: "1/1 function, 1/1 module, 1/1 package documented" - kinds sorted by their value
    # (epydoc2stan.format_undocumented); shown in moduleIndex.html
    # a consolidated field that cannot be split is shown as a field of its own ("Unknown Field: Parameters"), in every
    # build (restructuredtext._SplitFieldsTranslator._newfields belongs to one docstring)
    ("newfield:alpha.Ma.cfield", "alpha.Ma", BOTH("list"), [("alpha.Ma", "1:Parameters")]),
    ("newfield:beta.me.f", "beta.me", BOTH("list"), [("beta.me", "1:Parameters")]),
    # `import beta.sc, beta.me` in beta/__init__.py: the modules are analysed in the order the statement names them
    # (astbuilder.visit_Import: getProcessedModule per alias), which is the order their members enter allobjects
    ("importorder:beta", "beta", BOTH("list"), [("beta.sc", "1:beta.sc.scfun"), ("beta.me", "2:beta.me.E")]),
    ("undocumented-kinds:beta", "beta", BOTH("sorted"), [("beta.sc", "2:package"), ("beta.me", "1:module"), ("beta", "0:function")]),
    # sections of an epytext docstring whose titles have no Latin letter or digit, in document order (table of contents)
    ("sections:gamma", "gamma", BOTH("list"),
     [("gamma", "1:\u0420\u0430\u0437\u0434\u0435\u043b"), ("gamma", "2:\u6982\u8981"), ("gamma", "3:\u2605\u2605\u2605")]),
    # order in which _handleReExport moves the names into `alpha` = their order in allobjects (astbuilder._importAll)
    ("reexports:alpha", "alpha", BOTH("list"),
     [("alpha.ma", "alpha.A"), ("alpha.ma", "alpha.A2"), ("alpha.ma", "alpha.A3")]),
    # "Inherited from A" on the page of A2: by name, or by line number and then insertion order (util.py:114-124)
    ("inherited:alpha.A2", "alpha.ma", {"alphabetical": "sorted", "source": "list"},
     [("alpha.ma", "left"), ("alpha.ma", "right"), ("alpha.ma", "top"), ("alpha.ma", "bottom")]),
]
# option variants of an input: (member order, SOURCE_DATE_EPOCH, enumerated for inputs with at most `upto` roots)
EPOCH = 1000000000
# (member order, SOURCE_DATE_EPOCH, upto, pages all|summary, --sidebar-expand-depth=2, explore listing permutations,
#  two --template-dir: footer.html / FOOTER.html in the first, header.html in both; sources through add-package in a
#  configuration file)
DEFAULT_VARIANT = ("alphabetical", EPOCH, 9, "all", False, True, False, True)
VARIANTS = {"quick": [DEFAULT_VARIANT, ("source", 0, 1, "all", True, True, True, False),
                      ("alphabetical", EPOCH, 1, "summary", False, False, False, False)],
            "thorough": [DEFAULT_VARIANT, ("source", 0, 1, "all", True, True, True, False), ("source", EPOCH, 1, "all", False, True, False, False),
                         ("alphabetical", 0, 1, "all", True, True, False, False), ("alphabetical", EPOCH, 2, "summary", False, False, True, False)]}
FIXED_PAGES = {"index.html": [0, 0], "moduleIndex.html": [0, 1], "classIndex.html": [0, 2], "nameIndex.html": [0, 3],
               "undoccedSummary.html": [0, 4], "all-documents.html": [0, 5]}


def entry_kind(p: Path) -> str:
    if p.is_dir():
        return "pkg" if (p / "__init__.py").exists() else "dir"
    if p.name == "__init__.py":
        return "init"
    if p.name.startswith("."):
        return "dot"
    return "mod" if p.name.endswith(".py") else "other"


class Tree:
    """A materialised source tree + the numbering the spec uses for it."""

    def __init__(self, src: Path, root_names: Sequence[str]):
        self.src = src
        self.roots: List[Dict[str, Any]] = []
        self.root_name: Dict[int, str] = {}
        self.dirs: List[Dict[str, Any]] = []            # spec form
        self.dir_of_path: Dict[Tuple[int, ...], Path] = {}
        self.name_of: Dict[Tuple[int, ...], str] = {}   # id path -> dotted module name
        self.id_of_entry: Dict[Tuple[Tuple[int, ...], str], int] = {}
        self.root_args: Dict[int, str] = {}
        # a root in a sub directory ("dup/gamma.py") is a second module of the same name: numbered after the others
        ordered = sorted(root_names, key=lambda n: ("/" in n, n))
        modnames = [Path(n).name[:-3] if n.endswith(".py") else Path(n).name for n in ordered]
        namerank = {m: k for k, m in enumerate(sorted(set(modnames)), 1)}
        for i, (nm, modname) in enumerate(zip(ordered, modnames), 1):
            p = src / nm
            ispkg = p.is_dir()
            first = modnames.index(modname) + 1
            self.roots.append({"id": i, "pkg": ispkg, "name": namerank[modname], "dupof": first if first != i else 0})
            self.root_name[i] = modname
            self.root_args[i] = nm
            self.name_of[(i,)] = modname
            if ispkg:
                self._scan(p, (i,))
        self.path_of_name = {}
        for k, v in self.name_of.items():
            self.path_of_name.setdefault(v, k)           # the first (not the duplicate) root of a name

    def _scan(self, d: Path, path: Tuple[int, ...]) -> None:
        ents = []
        self.dir_of_path[path] = d
        for i, p in enumerate(sorted(d.iterdir())):
            k = entry_kind(p)
            ents.append({"id": i, "kind": k})
            self.id_of_entry[(path, p.name)] = i
        self.dirs.append({"path": list(path), "ents": ents})
        for i, p in enumerate(sorted(d.iterdir())):
            k = entry_kind(p)
            sub = path + (i,)
            if k == "pkg":
                self.name_of[sub] = self.name_of[path] + "." + p.name
                self._scan(p, sub)
            elif k == "mod":
                self.name_of[sub] = self.name_of[path] + "." + p.name[:-3]

    def universe(self, sites: bool = True, variants: Sequence[Tuple[Any, ...]] = (DEFAULT_VARIANT,)) -> Dict[str, Any]:
        out = []
        for name, mod, how, elems in (SITES if sites else []):
            if mod not in self.path_of_name:
                continue
            present = [(m, e) for m, e in elems if m in self.path_of_name]
            rank = {e: i for i, e in enumerate(sorted((e for _, e in present), key=str.lower), 1)}
            out.append({"name": name, "mod": list(self.path_of_name[mod]), "how": how,
                        "elems": [{"m": list(self.path_of_name[m]), "r": rank[e]} for m, e in present]})
        rid = {a: i for i, a in self.root_args.items()}
        extra = [[rid[a] for a in seq] for seq in EXTRA_INPUTS if all(a in rid for a in seq)] if sites else []
        return {"roots": self.roots, "dirs": self.dirs, "sites": out, "extra": extra,
                "variants": [{"order": o, "epochset": True, "epoch": e, "upto": u, "pages": pg, "expand": ex, "permute": pm, "tpl": tp, "viacfg": vc}
                             for o, e, u, pg, ex, pm, tp, vc in variants]}

    def site_element(self, site: str, rank: int) -> str:
        elems = next(el for name, _, _, el in SITES if name == site)
        present = sorted((e for m, e in elems if m in self.path_of_name), key=str.lower)
        e = present[rank - 1]
        return e.split(":", 1)[1] if re.match(r"\d:", e) else e        # "n:label" = rank given explicitly

    def entry_names(self, path: Sequence[int]) -> Dict[int, str]:
        d = self.dir_of_path[tuple(path)]
        return {i: p.name for i, p in enumerate(sorted(d.iterdir()))}

    def root_arg(self, rid: int) -> str:
        return self.root_args[rid]

    def eff(self, roots: Sequence[int]) -> List[int]:
        """System.rootobjects for these command line roots: of two roots with one module name the last wins."""
        return [r for i, r in enumerate(roots) if not any(self.root_name[s] == self.root_name[r] for s in roots[i + 1:])]

    def by_name(self, ids: Sequence[Sequence[int]]) -> List[List[Any]]:
        """File ids / module paths of the spec with the numbers of modules replaced by their names."""
        out = []
        for f in ids:
            f = list(f)
            out.append(f if f[0] in (0, 3) else [f[0], self.name_of[tuple(f[1:])]])
        return sorted(out, key=str)


def materialise(dst: Path, files: Sequence[str]) -> None:
    for rel in files:
        p = dst / rel
        p.parent.mkdir(parents=True, exist_ok=True)
        p.write_text(MODULE_SRC[rel])


# ----------------------------------------------------------------- the environment, made controllable
SITECUSTOMIZE = r'''
import os, json, hashlib
_cfg = os.environ.get("C18_LISTING")
if _cfg:
    with open(_cfg) as _f:
        _c = json.load(_f)
    _orders, _salt, _log, _under = _c.get("orders", {}), str(_c.get("salt", 0)), _c.get("log"), _c.get("under")
    _listdir, _scandir = os.listdir, os.scandir

    def _s(x):
        return os.fsdecode(x) if not isinstance(x, str) else x

    def _perm(d, items, name):
        d = os.path.abspath(_s(d) if not isinstance(d, int) else ".")
        want = _orders.get(d)
        h = lambda n: hashlib.sha1((_salt + "\0" + d + "\0" + n).encode("utf8", "surrogateescape")).hexdigest()
        if want is not None:
            pos = {n: i for i, n in enumerate(want)}
            res = sorted(items, key=lambda it: (pos.get(_s(name(it)), len(pos)), h(_s(name(it)))))
        else:
            res = sorted(items, key=lambda it: h(_s(name(it))))
        if _log and _under and (d + os.sep).startswith(_under):
            with open(_log, "a") as f:
                f.write(json.dumps({"dir": d, "order": [_s(name(it)) for it in res]}) + "\n")
        return res

    def listdir(path="."):
        return _perm(path, _listdir(path), lambda n: n)

    class _Scan:
        def __init__(self, ents):
            self._it = iter(ents)
        def __iter__(self):
            return self
        def __next__(self):
            return next(self._it)
        def __enter__(self):
            return self
        def __exit__(self, *a):
            return False
        def close(self):
            pass

    def scandir(path="."):
        with _scandir(path) as it:
            ents = list(it)
        return _Scan(_perm(path, ents, lambda e: e.name))

    os.listdir, os.scandir = listdir, scandir
    import pathlib
    _iterdir = pathlib.Path.iterdir

    def iterdir(self):
        return iter(_perm(str(self), list(_iterdir(self)), lambda p: p.name))
    pathlib.Path.iterdir = iterdir
'''


def set_order_probe(seed: int, tuples: List[List[str]]) -> List[List[str]]:
    """Iteration order, under PYTHONHASHSEED=seed, of the set built like System.root_names builds it."""
    code = ("import json,sys; ts=json.loads(sys.argv[1]); "
            "print(json.dumps([list({n for n in t}) for t in ts]))")
    p = subprocess.run([PY, "-S", "-c", code, json.dumps(tuples)], capture_output=True, text=True,
                       env={"PYTHONHASHSEED": str(seed), "PATH": os.environ.get("PATH", "")}, timeout=60)
    if p.returncode != 0:
        raise MachineryError(f"set order probe failed: {p.stderr[-300:]}")
    return json.loads(p.stdout)


def seeds_for_orders(tuples: List[List[str]], nseeds: int, pool: ThreadPoolExecutor) -> Dict[Tuple[str, ...], Dict[Tuple[str, ...], List[int]]]:
    """(names in rootobjects order) -> (iteration order) -> hash seeds producing it."""
    res: Dict[Tuple[str, ...], Dict[Tuple[str, ...], List[int]]] = {tuple(t): {} for t in tuples}
    for seed, orders in zip(range(nseeds), pool.map(lambda s: set_order_probe(s, tuples), range(nseeds))):
        for t, o in zip(tuples, orders):
            res[tuple(t)].setdefault(tuple(o), []).append(seed)
    return res


def tree_digest(out: Path) -> Dict[str, str]:
    d: Dict[str, str] = {}
    for root, dirs, files in os.walk(out):
        dirs.sort()
        for nm in list(dirs):
            p = Path(root) / nm
            if p.is_symlink():
                d[str(p.relative_to(out))] = "L:" + os.readlink(p)
        for nm in sorted(files):
            p = Path(root) / nm
            rel = str(p.relative_to(out))
            if p.is_symlink():
                d[rel] = "L:" + os.readlink(p)
            else:
                d[rel] = hashlib.sha256(p.read_bytes()).hexdigest()
    return d


def _inv_plain(b: bytes) -> bytes:
    parts = b.split(b"\n", 4)
    if len(parts) == 5 and parts[0].startswith(b"# Sphinx inventory"):
        try:
            return b"\n".join(parts[:4]) + b"\n" + zlib.decompress(parts[4])
        except zlib.error:
            return b
    return b


def name_forms(name: str) -> List[bytes]:
    return [x.encode() for x in dict.fromkeys([name, quote(name), quote(name, safe=""), name.replace("/", "\\/")])]


def residual(ref: Path, out: Path, differing: List[str], name_ref: str, name_out: str) -> List[str]:
    """Files that still differ after rewriting the observed project name of `out` to that of `ref`."""
    left = []
    for rel in differing:
        a, b = ref / rel, out / rel
        if a.is_symlink() or b.is_symlink() or not a.exists() or not b.exists():
            left.append(rel)
            continue
        ba, bb = _inv_plain(a.read_bytes()), _inv_plain(b.read_bytes())
        if name_ref != name_out:
            for fa, fb in zip(name_forms(name_ref), name_forms(name_out)):
                bb = bb.replace(fb, fa)
        if ba != bb:
            left.append(rel)
    return left


def first_diff(a: Path, b: Path) -> Dict[str, str]:
    try:
        la, lb = a.read_bytes().splitlines(), b.read_bytes().splitlines()
    except OSError:
        return {}
    for x, y in zip(la, lb):
        if x != y:
            return {"ref": x[:200].decode("utf8", "replace"), "run": y[:200].decode("utf8", "replace")}
    return {"ref": f"{len(la)} lines", "run": f"{len(lb)} lines"}


SAMEPROC = ("import sys, json, os\nfrom pydoctor.driver import main\nfirst, args, blocked = json.loads(sys.argv[1])\n"
            "if blocked:\n    os.makedirs(blocked)          # a directory sits where a page goes: the first build aborts there\n"
            "try:\n    main(first)\nexcept BaseException as e:\n    print('FIRST-BUILD-ENDED-WITH', type(e).__name__)\n"
            "sys.exit(main(args))\n")
ABORTRUN = ("import sys, json\nfrom pydoctor.driver import main\nfrom pydoctor.templatewriter import writer\n"
            "args, page = json.loads(sys.argv[1])\n_flatten = writer.flattenToFile\n"
            "def flattenToFile(fobj, elem):\n"
            "    if page in str(getattr(fobj, 'name', '')):\n"
            "        fobj.write(b'<html><body><p>half a page')\n        fobj.flush()\n"
            "        raise RuntimeError('the run is interrupted while a page is rendered')\n"
            "    return _flatten(fobj, elem)\n"
            "writer.flattenToFile = flattenToFile\nsys.exit(main(args))\n")
# a page written late by the build of each root: blocking it aborts the build part-way through its pages
ABORT_PAGE = {"alpha": "alpha.Ma.ZChild.html", "beta": "beta.sc.html", "gamma.py": "gamma.G.html"}
_TABLE_ID = re.compile(rb"\bid\d+\b")
_SIDEBAR_ID = re.compile(rb"expandableItemId\d+")
class Runner:
    """Runs the real pydoctor as a subprocess under a chosen environment."""

    def __init__(self, scratch: Path):
        self.scratch = scratch
        self.site = scratch / "site"
        self.site.mkdir(exist_ok=True)
        (self.site / "sitecustomize.py").write_text(SITECUSTOMIZE)
        self.n = 0
        # a custom template directory with two footer templates whose names differ only by case (outside the source tree:
        # the sitecustomize lists it in an order salted per run)
        import pydoctor
        base = (Path(pydoctor.__file__).parent / "themes" / "base" / "footer.html").read_text()
        self.tpl = scratch / "tpl"
        self.tpl.mkdir(exist_ok=True)
        (self.tpl / "footer.html").write_text(base.replace("<footer ", '<footer data-tpl="lower" ', 1))
        (self.tpl / "FOOTER.html").write_text(base.replace("<footer ", '<footer data-tpl="upper" ', 1))
        # ... and a second directory: both provide header.html
        self.tpl2 = scratch / "tpl2"
        self.tpl2.mkdir(exist_ok=True)
        (self.tpl / "header.html").write_text('<div data-hdr="first">header of the first template directory</div>\n')
        (self.tpl2 / "header.html").write_text('<div data-hdr="second">header of the second template directory</div>\n')
        # ... the project's extra.css, and a copy of the first directory whose extra.css has other bytes of the same length
        (self.tpl / "extra.css").write_text("/* tpl-css */ a { color: #1a5fb4; }\n")
        self.tplB = scratch / "tplB"
        shutil.copytree(self.tpl, self.tplB, dirs_exist_ok=True)
        (self.tplB / "extra.css").write_text("/* tpl-css */ a { color: #26a269; }\n")

    def run(self, src: Path, root_args: List[str], named: bool, seed: int, orders: Dict[str, List[str]], salt: int,
            out: Path, extra_args: Sequence[str] = (), var: Optional[Dict[str, Any]] = None,
            sameproc: bool = False, other_root: Optional[str] = None, abort_first: bool = False,
            css_alt: bool = False, abort_at: Optional[str] = None) -> Dict[str, Any]:
        self.n += 1
        tag = out.name
        cfg = self.scratch / f"listing_{tag}.json"
        log = self.scratch / f"listing_{tag}.log"
        cfg.write_text(json.dumps({"orders": orders, "salt": salt, "log": str(log), "under": str(src) + os.sep}))
        env = {k: v for k, v in os.environ.items() if not k.startswith("C18_")}
        var = var or {"order": "alphabetical", "epochset": True, "epoch": EPOCH}
        if var.get("pages") == "summary":
            extra_args = list(extra_args) + ["--html-summary-pages"]
        if var.get("expand"):
            extra_args = list(extra_args) + ["--sidebar-expand-depth=2"]
        if var.get("tpl"):
            extra_args = list(extra_args) + ["--template-dir", str(self.tplB if css_alt else self.tpl), "--template-dir", str(self.tpl2)]
        env.pop("SOURCE_DATE_EPOCH", None)
        if var["epochset"]:
            env["SOURCE_DATE_EPOCH"] = str(var["epoch"])
        if var["order"] == "source":
            extra_args = list(extra_args) + ["--cls-member-order=source", "--mod-member-order=source"]
        env.update({"PYTHONHASHSEED": str(seed), "C18_LISTING": str(cfg),
                    "PYTHONPATH": str(self.site) + os.pathsep + env.get("PYTHONPATH", ""),
                    "PYTHONDONTWRITEBYTECODE": "1"})
        warm = out.with_name(out.name + "_warm")
        opts = (["--project-name", PROJECT_NAME] if named else []) + list(extra_args)

        def sources(roots: List[str], name: str) -> List[str]:
            ispkg = [(src / r).is_dir() for r in roots]
            grouped = ispkg == sorted(ispkg) or ispkg == sorted(ispkg, reverse=True)
            if not var.get("viacfg") or not grouped:      # package, module, package cannot be written with two keys
                return roots
            # the sources are named in a configuration file, nothing on the command line: packages under add-package,
            # modules under add-module, the key of the first root first
            ini = self.scratch / f"cfg_{tag}_{name}.ini"
            keys: Dict[str, List[str]] = {}
            for r, pk in zip(roots, ispkg):
                keys.setdefault("add-package" if pk else "add-module", []).append(str(src / r))
            ini.write_text("[pydoctor]\n" + "".join(f"{k} =\n" + "".join(f"    {v}\n" for v in vs) for k, vs in keys.items()))
            return ["--config", str(ini)]
        args = ["--html-output", str(out)] + opts + sources(root_args, "main")
        cmd = [PY, "-m", "pydoctor"] + args
        if abort_at:
            # this run aborts while the page `abort_at` is being rendered
            cmd = [PY, "-c", ABORTRUN, json.dumps([args, abort_at])]
        if sameproc:
            # the run under observation is the SECOND pydoctor run of its process (what pydoctor.sphinx_ext does with two
            # configured projects): the first one builds ANOTHER project into a directory that is thrown away
            first = ["--html-output", str(warm)] + opts + sources([other_root or root_args[0]], "warm")
            blocked = str(warm / ABORT_PAGE[other_root]) if abort_first and other_root in ABORT_PAGE else ""
            cmd = [PY, "-c", SAMEPROC, json.dumps([first, args, blocked])]
        p = subprocess.run(cmd, cwd=str(src), env=env, capture_output=True, text=True, timeout=300)
        shutil.rmtree(warm, ignore_errors=True)
        for f in self.scratch.glob(f"cfg_{tag}_*.ini"):
            f.unlink()
        listings = []
        if log.exists():
            listings = [json.loads(l) for l in log.read_text().splitlines() if l.strip()]
            log.unlink()
        cfg.unlink()
        guesses = re.findall(r"Guessing '(.*)' for project name", p.stdout + p.stderr)      # the last run of the process
        if sameproc and abort_first and "FIRST-BUILD-ENDED-WITH" not in p.stdout:
            raise MachineryError(f"the first build of the process was meant to abort and did not: {(p.stdout + p.stderr)[-300:]}")
        return {"rc": p.returncode, "guess": guesses[-1] if guesses else None, "listings": listings,
                "tail": (p.stdout + p.stderr)[-600:]}


def project_files(tree: Tree, out: Path) -> List[List[int]]:
    """Projection of a real output directory on the spec's file ids."""
    ids = []
    for p in sorted(out.iterdir()):
        nm = p.name
        if p.is_symlink() and nm.endswith(".html") and nm[:-5] in tree.path_of_name:
            ids.append([2] + list(tree.path_of_name[nm[:-5]]))
        elif nm in FIXED_PAGES:
            ids.append(FIXED_PAGES[nm])
        elif nm == "extra.css" and b"tpl-css" in p.read_bytes():
            ids.append([3, 0])                    # the extra.css of the --template-dir
        elif nm.endswith(".html") and nm[:-5] in tree.path_of_name:
            ids.append([1] + list(tree.path_of_name[nm[:-5]]))
    return ids


def observed_sites(out: Path) -> Dict[str, Any]:
    """What the pages show at the places Determinism.tla calls sites."""
    obs: Dict[str, Any] = {}
    f = out / "alpha.Ma.ZChild.html"
    if f.exists():
        # the docstring ZChild.run inherits comes from the FIRST interface of allImplementedInterfaces that has run()
        obs["interfaces:alpha.Ma.ZChild.run"] = ["alpha.Ma." + m for m in re.findall(r"Run in the way (I\w+) wants it", f.read_text())[:1]]
    f = out / "alpha.A.html"          # alpha/__init__.py re-exports alpha.ma.A through __all__: the class moves
    if f.exists():
        m = re.search(r"Known subclasses:(.*?)</p>", f.read_text(), re.S)
        obs["subclasses:alpha.ma.A"] = re.findall(r'<a [^>]*>([^<]+)</a>', m.group(1)) if m else []
    f = out / "index.html"
    if f.exists():
        t = f.read_text()
        m = re.search(r"Or start at one of the root\s+([a-z/]+):", t)
        obs["rootkinds"] = m.group(1) if m else ""
        ids = [int(x) for x in re.findall(r'id="id(\d+)"', t)]
        if ids:
            obs["first_table_id"], obs["idbase"] = min(ids), 1 if min(ids) > 1 else 0
        m = re.search(r" at (\d{4}-\d\d-\d\d \d\d:\d\d:\d\d)\.", t)        # footer.html:7
        if m:
            import calendar, time as _time
            obs["buildtime"] = [0, calendar.timegm(_time.strptime(m.group(1), "%Y-%m-%d %H:%M:%S"))]
    f = out / "moduleIndex.html"
    if f.exists():
        t = f.read_text()
        if "buildtime" not in obs:          # --html-summary-pages with a single root: no index.html
            m = re.search(r" at (\d{4}-\d\d-\d\d \d\d:\d\d:\d\d)\.", t)
            if m:
                import calendar, time as _time
                obs["buildtime"] = [0, calendar.timegm(_time.strptime(m.group(1), "%Y-%m-%d %H:%M:%S"))]
        m = re.search(r'data-tpl="(\w+)"', t)
        # footer.html sorts after FOOTER.html: it is added last and wins (TemplateLookup is case-insensitive)
        obs["footer"] = "default" if not m else ("sorted-last" if m.group(1) == "lower" else "the other one: " + m.group(1))
        m = re.search(r"No package docstring; ([^<]*) documented", t)
        if m:
            obs["undocumented-kinds:beta"] = re.findall(r"\d+/\d+ ([a-z]+)", m.group(1))
    f = out / ("gamma.html" if (out / "gamma.html").exists() and not (out / "gamma.html").is_symlink() else "index.html")
    if f.exists():
        obs["sections:gamma"] = re.findall(r'id="rst-toc-entry-\d+">([^<]+)<', f.read_text())
    for site, page in (("newfield:alpha.Ma.cfield", "alpha.Ma.html"), ("newfield:beta.me.f", "beta.me.html")):
        f = out / page
        if f.exists():
            obs[site] = ["Parameters"] if "Unknown Field: newfield" in f.read_text() else []
    sid = []
    for f in out.glob("*.html"):
        if not f.is_symlink():
            sid += [int(x) for x in re.findall(r'expandableItemId(\d+)', f.read_text())]
    if sid:
        obs["first_sidebar_id"], obs["sidebarbase"] = min(sid), 1 if min(sid) > 1 else 0
    f = out / "all-documents.html"
    if f.exists():
        got = [i for i in re.findall(r'<li id="([^"]+)"', f.read_text()) if i in ("beta.sc.scfun", "beta.me.E")]
        if got:
            obs["importorder:beta"] = got
    f = out / "all-documents.html"
    if f.exists():
        ids = re.findall(r'<li id="([^"]+)"', f.read_text())
        obs["reexports:alpha"] = [i for i in ids if i in ("alpha.A", "alpha.A2", "alpha.A3")]
    f = out / "alpha.A2.html"
    if f.exists():
        # the "Inherited from A" members table (and sidebar) of the subclass page
        m = re.search(r'id="baseTables".*', f.read_text(), re.S) or re.search(r"Inherited from.*", f.read_text(), re.S)
        seen = re.findall(r'href="alpha\.A\.html#(left|right|top|bottom)"', m.group(0)) if m else []
        obs["inherited:alpha.A2"] = list(dict.fromkeys(seen))
    return obs


def obs_header(out: Path) -> str:
    f = out / "moduleIndex.html"
    m = re.search(r'data-hdr="(\w+)"', f.read_text()) if f.exists() else None
    # two --template-dir provide header.html: the directory given last wins
    return "default" if not m else ("last-given" if m.group(1) == "second" else "the other one: " + m.group(1))


def alldocs_order(tree: Tree, out: Path) -> List[List[int]]:
    f = out / "all-documents.html"
    if not f.exists():
        return []
    got = re.findall(r'<li id="([^"]+)"', f.read_text())
    return [list(tree.path_of_name[g]) for g in got if g in tree.path_of_name]


CFG = """SPECIFICATION Spec
CONSTANTS MaxRoots = {maxroots}
          Source = "{source}"
          ReuseUpTo = {reuse}
          PermuteUpTo = {permute}
          EpochRule = "{epochrule}"
          SameProcUpTo = {sameproc}
          Listing = "{listing}"
CONSTRAINT Collect
CONSTRAINT Emit
POSTCONDITION Post
"""


def tlc_enum(ctx: Ctx, tree: Tree, maxroots: int, listing: str = "sorted", count: bool = True, coverage: bool = False,
             reuse: int = 9, sites_as_set: bool = False, variants: Sequence[Tuple[Any, ...]] = (DEFAULT_VARIANT,),
             epochrule: str = "is_set", permute: int = 9, sameproc: int = 0):
    f = ctx.scratch / f"universe_{tree.src.name}.json"
    uni = tree.universe(variants=variants)
    if sites_as_set:
        for st in uni["sites"]:
            st["how"] = BOTH("set")
    f.write_text(json.dumps(uni))
    r = ctx.tlc("Determinism", CFG.format(maxroots=maxroots, source="enum", listing=listing, reuse=reuse, epochrule=epochrule, permute=permute,
                                            sameproc=sameproc), workers=1,
                env={"C18_UNIVERSE": str(f)}, check=True, timeout=1500, count=count, coverage=coverage)
    post = [x for x in r.printed if "dependent" in x]
    recs = [x for x in r.printed if "pid" in x]
    if len(post) != 1 or not recs:
        raise MachineryError("Determinism.tla did not print its terminal states / postcondition")
    return recs, set(post[0]["dependent"]), r


def is_identity(rec: Dict[str, Any]) -> bool:
    return (rec["outdir"] == "fresh" and rec["setOrder"] == sorted(rec["setOrder"])
            and all([e["id"] for e in l["order"]] == sorted(e["id"] for e in l["order"]) for l in rec["listing"]))


def compare_with_ref(ref_out: Path, ref_digest: Dict[str, str], out: Path, name_ref: Optional[str],
                     name_out: Optional[str]) -> Optional[Dict[str, Any]]:
    dg = tree_digest(out)
    if dg == ref_digest:
        return None
    differing = sorted(k for k in set(dg) | set(ref_digest) if dg.get(k) != ref_digest.get(k))
    res = residual(ref_out, out, differing, name_ref or "", name_out or "")
    ids_left, sid_left = [], []
    for rel in differing:
        a, b = ref_out / rel, out / rel
        if a.is_symlink() or b.is_symlink() or not a.is_file() or not b.is_file():
            ids_left.append(rel)
            sid_left.append(rel)
            continue
        ba, bb = a.read_bytes(), b.read_bytes()
        if _TABLE_ID.sub(b"idN", ba) != _TABLE_ID.sub(b"idN", bb):
            ids_left.append(rel)
        if _SIDEBAR_ID.sub(b"expandableItemIdN", ba) != _SIDEBAR_ID.sub(b"expandableItemIdN", bb):
            sid_left.append(rel)
    return {"residual_after_table_id_normalisation": ids_left[:12], "residual_after_sidebar_id_normalisation": sid_left[:12], "differing_files": differing[:12], "n_differing": len(differing), "same_file_set": set(dg) == set(ref_digest),
            "observed_projname": [name_ref, name_out], "residual_after_projname_normalisation": res[:12],
            "first_difference": first_diff(ref_out / differing[0], out / differing[0]) if differing else {},
            "first_residual_difference": first_diff(ref_out / res[0], out / res[0]) if res else {}}


def realise_enumeration(ctx: Ctx, runner: Runner, tree: Tree, uname: str, recs: List[Dict[str, Any]],
                        pool: ThreadPoolExecutor, nseeds: int) -> Dict[str, Any]:
    """One real run per TLC terminal state; returns per-pid results."""
    tuples = sorted({tuple(tree.root_name[r] for r in tree.eff(rec["roots"])) for rec in recs})
    seedmap = seeds_for_orders([list(t) for t in tuples], nseeds, pool)
    by_pid: Dict[int, List[Dict[str, Any]]] = {}
    for rec in recs:
        by_pid.setdefault(rec["pid"], []).append(rec)
    outbase = ctx.scratch / f"out_{uname}"
    outbase.mkdir(exist_ok=True)
    counter = {"i": 0}

    def prepare(rec: Dict[str, Any]) -> Dict[str, Any]:
        names = tuple(tree.root_name[r] for r in tree.eff(rec["roots"]))
        want = tuple(tree.root_name[r] for r in rec["setOrder"])
        cands = seedmap[names].get(want)
        if not cands:
            raise MachineryError(f"no hash seed below {nseeds} makes the set {names} iterate as {want}")
        counter["i"] += 1
        seed = cands[counter["i"] % len(cands)]
        orders = {}
        for l in rec["listing"]:
            en = tree.entry_names(l["dir"])
            orders[str(tree.dir_of_path[tuple(l["dir"])])] = [en[e["id"]] for e in l["order"]]
        return {"seed": seed, "orders": orders, "salt": counter["i"], "root_args": [tree.root_arg(r) for r in rec["roots"]]}

    results: Dict[int, Dict[str, Any]] = {}
    refs: Dict[int, Dict[str, Any]] = {}

    def run_ref(pid: int) -> None:
        rec = next((x for x in by_pid[pid] if is_identity(x)), None)
        if rec is None:
            raise MachineryError(f"no reference (identity environment) state for project {pid}")
        env = prepare(rec)
        out = outbase / f"ref_{pid}"
        o = runner.run(tree.src, env["root_args"], rec["named"], env["seed"], env["orders"], env["salt"], out, var=rec["var"])
        if o["rc"] not in (0, 2) or not out.exists():       # 2 = docstring syntax errors were reported, the pages are written
            raise MachineryError(f"reference pydoctor run failed rc={o['rc']}: {o['tail']}")
        refs[pid] = {"rec": rec, "env": env, "out": out, "digest": tree_digest(out), "obs": o}

    list(pool.map(run_ref, sorted(by_pid)))

    def conformance(rec: Dict[str, Any], out: Path, o: Dict[str, Any]) -> Optional[Dict[str, Any]]:
        files = tree.by_name(project_files(tree, out))
        alld = [tree.name_of[tuple(x)] for x in alldocs_order(tree, out)]
        bad = {}
        if files != tree.by_name(rec["files"]):
            bad["files"] = {"model": tree.by_name(rec["files"]), "real": files}
        if alld != [tree.name_of[tuple(x)] for x in rec["alldocs"]]:
            bad["alldocs"] = {"model": [tree.name_of[tuple(x)] for x in rec["alldocs"]], "real": alld}
        if obs_header(out) != rec["header"]:
            bad["header_template"] = {"model": rec["header"], "real": obs_header(out)}
        obs = observed_sites(out)
        for st in rec.get("sites", []):
            model_names = [tree.site_element(st["name"], r) for r in st["order"]]
            real = obs.get(st["name"])
            if real is None or real != model_names[:len(real)] or (model_names and not real):
                bad["site:" + st["name"]] = {"model": model_names, "real": real}
        if obs.get("idbase") is not None and obs["idbase"] != rec["idbase"]:
            bad["table_ids"] = {"model": "start at id1" if rec["idbase"] == 0 else "continue after the previous run of the process",
                                "real_first_id": obs.get("first_table_id")}
        if obs.get("sidebarbase") is not None and obs["sidebarbase"] != rec["sidebarbase"]:
            bad["sidebar_ids"] = {"model": "start at 1" if rec["sidebarbase"] == 0 else "continue after the previous run of the process",
                                  "real_first_id": obs.get("first_sidebar_id")}
        if obs.get("footer") != rec["footer"]:
            bad["footer_template"] = {"model": rec["footer"], "real": obs.get("footer")}
        if obs.get("buildtime") != rec["buildtime"]:
            bad["buildtime"] = {"model": rec["buildtime"], "real": obs.get("buildtime")}
        kinds = "/".join({1: "modules", 2: "packages"}[k] for k in rec.get("rootkinds", []))
        if kinds != (obs.get("rootkinds") or ""):
            bad["rootkinds"] = {"model": kinds, "real": obs.get("rootkinds")}
        # the listing the code saw must be the one chosen (otherwise the binding is void)
        for l in rec["listing"]:
            d = str(tree.dir_of_path[tuple(l["dir"])])
            seen = [x["order"] for x in o["listings"] if x["dir"] == d]
            want = [tree.entry_names(l["dir"])[e["id"]] for e in l["order"]]
            if not seen or any(s != want for s in seen):
                raise MachineryError(f"listing of {d} was not realised: wanted {want}, process saw {seen[:2]}")
        return bad or None

    def other_root(rec: Dict[str, Any]) -> Optional[str]:
        """The project built first in a process that then builds `rec`: another root of the universe."""
        return next((tree.root_arg(r["id"]) for r in tree.roots if r["id"] not in rec["roots"] and not r["dupof"]), None)

    def run_one(item: Tuple[int, Dict[str, Any]]) -> Dict[str, Any]:
        idx, rec = item
        pid = rec["pid"]
        ref = refs[pid]
        if rec is ref["rec"]:
            return {"rec": rec, "env": ref["env"], "diff": None, "drift": conformance(rec, ref["out"], ref["obs"]),
                    "guess": ref["obs"]["guess"]}
        env = prepare(rec)
        out = outbase / f"run_{idx}"
        if rec["outdir"] == "reused":
            shutil.copytree(ref["out"], out, symlinks=True)
        elif rec["outdir"] in ("reusedaborted", "reusedcss"):
            # the directory first goes through a run of the same input that aborts among its pages / that only differs
            # in the bytes of the template directory's extra.css
            page = ABORT_PAGE.get(env["root_args"][0]) if rec["outdir"] == "reusedaborted" else None
            first = runner.run(tree.src, env["root_args"], rec["named"], env["seed"], env["orders"], env["salt"], out, var=rec["var"],
                               css_alt=rec["outdir"] == "reusedcss", abort_at=page)
            if rec["outdir"] == "reusedaborted" and (first["rc"] in (0, 2) or "interrupted while a page" not in first["tail"]):
                raise MachineryError(f"the run that was to abort at {page} did not: rc={first['rc']} {first['tail'][-200:]}")
            if rec["outdir"] == "reusedcss" and first["rc"] not in (0, 2):
                raise MachineryError(f"first run into the directory failed: {first['tail'][-200:]}")
        o = runner.run(tree.src, env["root_args"], rec["named"], env["seed"], env["orders"], env["salt"], out, var=rec["var"],
                       sameproc=rec["outdir"] in ("sameproc", "afterabort"), other_root=other_root(rec),
                       abort_first=rec["outdir"] == "afterabort")
        try:
            name_ref = ref["obs"]["guess"] or PROJECT_NAME
            name_out = o["guess"] or PROJECT_NAME
            if o["rc"] not in (0, 2) or not out.exists():
                # the reference environment produced a tree, this environment did not: the output depends on it
                diff = {"differing_files": [], "n_differing": -1, "same_file_set": False, "observed_projname": [name_ref, name_out],
                        "residual_after_projname_normalisation": ["<run failed>"], "failure": {"rc": o["rc"], "tail": o["tail"]}}
                drift = None
            else:
                diff = compare_with_ref(ref["out"], ref["digest"], out, name_ref, name_out)
                drift = conformance(rec, out, o)
        finally:
            shutil.rmtree(out, ignore_errors=True)
        return {"rec": rec, "env": env, "diff": diff, "drift": drift, "guess": o["guess"]}

    done = list(pool.map(run_one, list(enumerate(recs))))
    return {"runs": done, "refs": refs}


def env_summary(tree: Tree, rec: Dict[str, Any], env: Dict[str, Any]) -> Dict[str, Any]:
    return {"hash_seed": env["seed"], "set_order": [tree.root_name[r] for r in rec["setOrder"]],
            "listing": {os.path.relpath(k, tree.src): v for k, v in env["orders"].items()}, "outdir": rec["outdir"]}


def other_root_of(tree: Tree, rec: Dict[str, Any]) -> Optional[str]:
    return next((tree.root_arg(r["id"]) for r in tree.roots if r["id"] not in rec["roots"] and not r["dupof"]), None)


def judge_enumeration(ctx: Ctx, tree: Tree, uname: str, res: Dict[str, Any], dependent_model: set) -> Dict[str, Any]:
    dependent_real = set()
    drift = 0
    for r in res["runs"]:
        rec = r["rec"]
        ctx.traces += 1
        ref = res["refs"][rec["pid"]]
        project = {"roots": [tree.root_arg(x) for x in rec["roots"]], "named": rec["named"], "universe": uname,
                   "member_order": rec["var"]["order"], "source_date_epoch": rec["var"]["epoch"],
                   "pages": rec["var"]["pages"], "sidebar_expand": rec["var"]["expand"], "template_dir": rec["var"]["tpl"],
                   "via_config_file": rec["var"]["viacfg"], "built_before_in_the_process": other_root_of(tree, rec)}
        if r["diff"] is not None:
            dependent_real.add(rec["pid"])
            w = {"invariant": "OutputIndependentOfEnvironment", "origin": "enum", "project": project,
                 "ref_env": env_summary(tree, ref["rec"], ref["env"]), "env": env_summary(tree, rec, r["env"]),
                 **r["diff"]}
            ctx.violation({**w, "key": f"{uname}:{project['roots']}:{project['named']}:" +
                                       ("sidebar-ids-only" if r["diff"].get("residual_after_sidebar_id_normalisation") == [] and r["diff"]["same_file_set"]
                                        else "table-ids-only" if r["diff"].get("residual_after_table_id_normalisation") == [] and r["diff"]["same_file_set"]
                                        else "name-only" if not r["diff"]["residual_after_projname_normalisation"] and r["diff"]["same_file_set"]
                                        else ",".join(r["diff"]["residual_after_projname_normalisation"][:3] or r["diff"]["differing_files"][:3]))})
        if r["drift"]:
            drift += 1
            ctx.drift_note({"project": project, "env": env_summary(tree, rec, r["env"]), "mismatch": r["drift"]})
        if ctx.traces % 97 == 1:
            ctx.sample({"project": project, "env": env_summary(tree, rec, r["env"]), "identical_to_reference": r["diff"] is None,
                        "observed_guess": r["guess"]})
    return {"dependent_real": sorted(dependent_real), "dependent_model": sorted(dependent_model), "drift": drift}


# ------------------------------------------------------------------------------ code -> spec (test packages)
SAFE_TESTPACKAGES = ["basic", "allgames", "relativeimporttest", "cyclic_imports", "cyclic_imports_base_classes",
                     "importingfrompackage", "multipleinheritance", "nestedconfusion", "codeininit", "liveobject"]


def testpackages_dir() -> Path:
    import pydoctor
    return Path(pydoctor.__file__).parent / "test" / "testpackages"


def observed_runs(ctx: Ctx, runner: Runner, pool: ThreadPoolExecutor, rng: random.Random, nprojects: int, nenv: int):
    src = ctx.scratch / "src_testpackages"
    src.mkdir()
    avail = [p for p in SAFE_TESTPACKAGES if (testpackages_dir() / p / "__init__.py").exists()]
    for p in avail:
        shutil.copytree(testpackages_dir() / p, src / p, ignore=shutil.ignore_patterns("__pycache__"))
    projects = []
    for i in range(nprojects):
        k = rng.choice([1, 2, 2, 3])
        roots = rng.sample(avail, min(k, len(avail)))
        projects.append({"roots": roots, "named": rng.random() < 0.5})
    outbase = ctx.scratch / "out_file"
    outbase.mkdir()
    jobs = []
    for pi, pr in enumerate(projects):
        for e in range(nenv):
            jobs.append((pi, e, pr, rng.randrange(0, 1000), rng.randrange(1, 10 ** 6),
                         "fresh" if e == 0 or rng.random() < 0.5 else "reused"))
    trees = {pi: Tree(src, pr["roots"]) for pi, pr in enumerate(projects)}
    refs: Dict[int, Dict[str, Any]] = {}

    def run_job(job) -> Dict[str, Any]:
        pi, e, pr, seed, salt, outdir = job
        tree = trees[pi]
        out = outbase / f"p{pi}_e{e}"
        if outdir == "reused" and pi in refs:
            shutil.copytree(refs[pi]["out"], out, symlinks=True)
        else:
            outdir = "fresh"
        o = runner.run(src, list(pr["roots"]), pr["named"], seed, {}, salt, out)
        if o["rc"] not in (0, 2, 3) or not out.exists():    # 2 = docstring syntax errors were reported (pages are written)
            raise MachineryError(f"pydoctor failed on test packages {pr['roots']}: rc={o['rc']} {o['tail']}")
        setorder = set_order_probe(seed, [list(pr["roots"])])[0]
        return {"pi": pi, "e": e, "pr": pr, "seed": seed, "salt": salt, "outdir": outdir, "out": out, "obs": o,
                "setorder": setorder}

    firsts = [j for j in jobs if j[1] == 0]
    rest = [j for j in jobs if j[1] != 0]
    done = []
    for r in pool.map(run_job, firsts):
        r["digest"] = tree_digest(r["out"])
        refs[r["pi"]] = r
        done.append(r)
    done += list(pool.map(run_job, rest))
    return src, projects, trees, refs, done


def run(ctx: Ctx) -> int:
    rng = random.Random(ctx.seed)
    runner = Runner(ctx.scratch)
    pool = ThreadPoolExecutor(max_workers=max(2, min(NCPU - 2, 14)))
    plans = [("small", 2, 1)] if ctx.quick else [("small", 3, 9), ("large", 1, 9)]
    nseeds = 64 if ctx.quick else 128
    summary: Dict[str, Any] = {}
    total_recs = 0
    nontrivial = 0
    try:
        for uname, maxroots, reuse in plans:
            src = ctx.scratch / f"src_{uname}"
            materialise(src, UNIVERSES[uname])
            tree = Tree(src, ROOTS)
            variants = VARIANTS[ctx.tier] if uname == "small" else [DEFAULT_VARIANT]
            permute = 1 if ctx.quick else 9
            sameproc = 1 if uname == "small" else 0
            recs, dep_model, r = tlc_enum(ctx, tree, maxroots, coverage=ctx.quick, reuse=reuse, variants=variants,
                                          permute=permute, sameproc=sameproc)
            if r.coverage:
                ctx.extra["action_coverage"] = r.coverage
                ctx.extra["actions_never_taken"] = [a for a, c in r.coverage.items() if c == 0 and a[0].isupper() and a != "Init"]
            res = realise_enumeration(ctx, runner, tree, uname, recs, pool, nseeds)
            # the guessed project name (stdout) against the spec's: command line order of the roots
            for x in res["runs"]:
                m = x["rec"]
                model = PROJECT_NAME if m["named"] else "/".join(tree.root_name[i] for i in m["projname"])
                real = x["guess"] if x["guess"] is not None else PROJECT_NAME
                if model != real or (m["named"] and x["guess"] is not None):
                    x["drift"] = {**(x["drift"] or {}), "projname": {"model": model, "real": x["guess"]}}
            j = judge_enumeration(ctx, tree, uname, res, dep_model)
            j["terminal_states"] = len(recs)
            j["projects"] = len({x["pid"] for x in recs})
            summary[uname] = j
            total_recs += len(recs)
            nontrivial += sum(1 for x in recs if not is_identity(x))
            for ref in res["refs"].values():
                shutil.rmtree(ref["out"], ignore_errors=True)
            if j["dependent_real"] != j["dependent_model"]:
                ctx.notes.append(f"{uname}: inputs whose real trees differ {j['dependent_real']} != inputs the model calls "
                                 f"choice dependent {j['dependent_model']}")
        ctx.exhaustive = True
        ctx.extra["enumerations"] = summary

        # ---- model-level negative control: with the listing NOT sorted the register mechanism must report dependence
        src = ctx.scratch / "src_small"
        tree = Tree(src, ROOTS)
        _, dep_sorted, _ = tlc_enum(ctx, tree, 1, "sorted", count=False)
        _, dep_raw, _ = tlc_enum(ctx, tree, 1, "raw", count=False)
        _, dep_sets, _ = tlc_enum(ctx, tree, 1, "sorted", count=False, reuse=0, sites_as_set=True)
        _, dep_epoch, _ = tlc_enum(ctx, tree, 1, "sorted", count=False, reuse=0, variants=[("alphabetical", 0, 1, "all", False, True, False, False)],
                                   epochrule="truthy")
        ctx.extra["negative_control_model"] = {"dependent_when_epoch_zero_counts_as_unset": sorted(dep_epoch),
                                               "dependent_with_sorted_listing": sorted(dep_sorted),
                                               "dependent_with_raw_listing": sorted(dep_raw),
                                               "dependent_with_name_collections_iterated_as_sets": sorted(dep_sets)}
        if dep_sorted or not dep_raw or not dep_sets or not dep_epoch:
            raise MachineryError(f"negative control of the hyper-property registers failed: {dep_sorted} / {dep_raw}")

        # ---- code -> spec
        nproj, nenv = (3, 3) if ctx.quick else (12, 5)
        fsrc, projects, trees, refs, done = observed_runs(ctx, runner, pool, rng, nproj, nenv)
        fruns = []
        for r in done:
            tree = trees[r["pi"]]
            byd: Dict[str, List[str]] = {}
            for l in r["obs"]["listings"]:
                byd.setdefault(l["dir"], l["order"])
            listing = []
            for d in tree.dirs:
                dp = str(tree.dir_of_path[tuple(d["path"])])
                if dp not in byd:
                    raise MachineryError(f"no listing of {dp} was logged")
                ids = {nm: i for i, nm in tree.entry_names(d["path"]).items()}
                listing.append([{"id": ids[n], "kind": d["ents"][ids[n]]["kind"]} for n in byd[dp] if n in ids])
            rid = {v: k for k, v in tree.root_name.items()}
            fruns.append({"reg": r["pi"] + 1, "u": tree.universe(sites=False), "roots": [rid[n] for n in r["pr"]["roots"]],
                          "named": r["pr"]["named"], "var": {"order": "alphabetical", "epochset": True, "epoch": EPOCH, "upto": 9, "pages": "all", "expand": False, "permute": True, "tpl": False, "viacfg": False},
                          "setOrder": [rid[n] for n in r["setorder"]],
                          "listing": listing, "outdir": r["outdir"]})
        f = ctx.scratch / "runs.json"
        f.write_text(json.dumps(fruns))
        file_drift = 0
        r2 = ctx.tlc("Determinism", CFG.format(maxroots=0, source="file", listing="sorted", reuse=9, epochrule="is_set", permute=9,
                                            sameproc=0), workers=1,
                     env={"C18_RUNS": str(f)}, check=True, timeout=1500)
        got = {x["pid"]: x for x in r2.printed if "pid" in x}
        if len(got) != len(fruns):
            raise MachineryError(f"TLC replayed {len(got)} of {len(fruns)} observed runs")
        for i, r in enumerate(done, 1):
            ctx.traces += 1
            tree, rec = trees[r["pi"]], got[i]
            project = {"roots": r["pr"]["roots"], "named": r["pr"]["named"], "universe": "testpackages"}
            ref = refs[r["pi"]]
            bad = {}
            files = sorted(project_files(tree, r["out"]))
            if files != sorted(rec["files"]):
                bad["files"] = {"model": sorted(rec["files"]), "real": files}
            if alldocs_order(tree, r["out"]) != rec["alldocs"]:
                bad["alldocs"] = {"model": rec["alldocs"], "real": alldocs_order(tree, r["out"])}
            if not r["pr"]["named"] and "/".join(tree.root_name[x] for x in rec["projname"]) != r["obs"]["guess"]:
                bad["projname"] = {"model": [tree.root_name[x] for x in rec["projname"]], "real": r["obs"]["guess"]}
            if bad:
                file_drift += 1
                ctx.drift_note({"project": project, "hash_seed": r["seed"], "salt": r["salt"], "mismatch": bad})
            if r is not ref:
                diff = compare_with_ref(ref["out"], ref["digest"], r["out"], ref["obs"]["guess"] or PROJECT_NAME,
                                        r["obs"]["guess"] or PROJECT_NAME)
                if diff is not None:
                    env = {"hash_seed": r["seed"], "listing_salt": r["salt"], "outdir": r["outdir"]}
                    ctx.violation({"invariant": "OutputIndependentOfEnvironment", "origin": "testpackages", "project": project,
                                   "ref_env": {"hash_seed": ref["seed"], "listing_salt": ref["salt"], "outdir": "fresh"},
                                   "env": env, **diff,
                                   "key": f"testpackages:{project['roots']}:{project['named']}:" +
                                          ("name-only" if not diff["residual_after_projname_normalisation"] and diff["same_file_set"]
                                           else ",".join(diff["residual_after_projname_normalisation"][:3] or diff["differing_files"][:3]))})
        ctx.extra["observed_runs_replayed_by_tlc"] = len(done)
        ctx.extra["observed_runs_model_mismatch"] = file_drift
        if done:
            ctx.sample({"origin": "testpackages", "project": done[-1]["pr"], "hash_seed": done[-1]["seed"],
                        "first_logged_listing": done[-1]["obs"]["listings"][:1]})
    finally:
        pool.shutdown(wait=True)
    ctx.assumptions += [
        "the set root_names iterates in one order per process (same construction, same hash seed); the order is "
        "realised by searching a PYTHONHASHSEED that produces it",
        "the reused output directory holds the result of a run of the same input under the reference environment "
        "(identity listing, sorted set order)",
        "directory listing order is controlled at os.listdir / os.scandir / pathlib.Path.iterdir; the spec models the "
        "listings of the source packages, the listings of pydoctor's own template/theme directories are only shuffled",
        "SOURCE_DATE_EPOCH is fixed; runs happen at different wall-clock seconds, so a leaked current time shows",
    ]
    return ctx.finish(
        rule="one real pydoctor subprocess per terminal state of Determinism.tla (input x listing orders x set order x "
             "fresh/reused) plus observed runs of repository test packages replayed by TLC; distinct = distinct "
             "(input, environment) combinations; non-trivial = environment differs from the reference one",
        distinct_nontrivial=nontrivial + len(done))


# ------------------------------------------------------------------------------------------- replay
def replay(ctx: Ctx, path: str) -> int:
    w = json.load(open(path))
    runner = Runner(ctx.scratch)
    pr = w["project"]
    bad = False
    try:
        if w.get("origin") == "testpackages":
            src = ctx.scratch / "src"
            src.mkdir()
            for p in pr["roots"]:
                shutil.copytree(testpackages_dir() / p, src / p, ignore=shutil.ignore_patterns("__pycache__"))
            args = list(pr["roots"])
            envs = [(w["ref_env"], {}), (w["env"], {})]
        else:
            src = ctx.scratch / "src"
            materialise(src, UNIVERSES[pr["universe"]])
            tree = Tree(src, ROOTS)
            args = list(pr["roots"])
            envs = [(e, {str(src / k): v for k, v in e["listing"].items()}) for e in (w["ref_env"], w["env"])]
        outs = []
        for i, (e, orders) in enumerate(envs):
            out = ctx.scratch / f"out{i}"
            if e.get("outdir") == "reused" and outs:
                shutil.copytree(outs[0][0], out, symlinks=True)
            o = runner.run(src, args, pr["named"], e["hash_seed"], orders, e.get("listing_salt", i), out,
                           var={"order": pr.get("member_order", "alphabetical"), "epochset": True,
                                "epoch": pr.get("source_date_epoch", EPOCH), "pages": pr.get("pages", "all"),
                                "expand": pr.get("sidebar_expand", False), "tpl": pr.get("template_dir", False), "viacfg": pr.get("via_config_file", False)},
                           sameproc=e.get("outdir") in ("sameproc", "afterabort"), other_root=pr.get("built_before_in_the_process"),
                           abort_first=e.get("outdir") == "afterabort")
            outs.append((out, o))
        diff = compare_with_ref(outs[0][0], tree_digest(outs[0][0]), outs[1][0], outs[0][1]["guess"] or PROJECT_NAME,
                                outs[1][1]["guess"] or PROJECT_NAME)
        bad = diff is not None
        print("replay:", "still violated: " + json.dumps(diff)[:600] if bad else "holds now (trees identical)")
        if bad:
            print(f"VIOLATION property=C18 replay={path}")
    finally:
        ctx.cleanup()
    return 1 if bad else 0
