"""
C19 - visitor extensions see a balanced, ordered walk whatever the main visitor prunes.

spec -> code : every configuration TLC enumerates from spec/Visitor.tla (tree x pruning x extension set x
               walk/walkabout) is run through the real pydoctor.visitor.Visitor; the observed event trace is
               (a) judged against the contract (verdict) and (b) compared with the spec's trace (conformance).
code -> spec : the real ASTBuilder walks generated modules with instrumented extensions; the observed
               (tree, pruning, events) are handed to TLC (Source = "file"), which recomputes the behaviour and
               the contract; the scope-stack clause is checked on the builder after every module.
"""
from __future__ import annotations

import ast
import json
import random
from typing import Any, Dict, List, Tuple

from ..core import Ctx, MachineryError, chunks
from .. import pygen

EXT_WHEN = {"B": "BEFORE", "B2": "BEFORE", "A": "AFTER", "I": "INNER", "O": "OUTTER"}


# ------------------------------------------------------------------------------------ the contract
def contract(cfg: Dict[str, Any], events: List[List[Any]], status: str) -> List[str]:
    """Python twin of Visitor.tla's Contract, evaluated on an OBSERVED event list. Returns failed clauses."""
    n, parent, prune, mode = cfg["n"], cfg["parent"], cfg["prune"], cfg["mode"]
    exts = list(cfg["exts"])
    whos = exts + ["main"]
    pos: Dict[Tuple[str, str, int], List[int]] = {}
    for i, (w, k, x) in enumerate(events):
        pos.setdefault((w, k, x), []).append(i)
    seen = lambda w, k, x: (w, k, x) in pos
    p = lambda w, k, x: pos[(w, k, x)][0]
    bad: List[str] = []
    # a genuine error raised by the main visitor's depart_* reaches the caller (and only then is the traversal abandoned)
    raised = any(prune[x - 1] in ("DepartError", "SkipSiblingsDepartError") and seen("main", "depart", x) for x in range(1, n + 1))
    if raised != (status == "failed"):
        bad.append("ErrorsSurface")
    if status == "failed":
        return bad
    if any(len(v) > 1 for v in pos.values()):
        bad.append("EnteredAtMostOnce")
    if status != "done":
        bad.append("NoEscape")
    if mode == "walkabout":
        for e in exts:
            for x in range(1, n + 1):
                if len(pos.get((e, "visit", x), [])) != len(pos.get((e, "depart", x), [])):
                    bad.append("ExtBalanced")
                    break
            else:
                continue
            break
        for x in range(1, n + 1):
            v, d = seen("main", "visit", x), seen("main", "depart", x)
            skip = prune[x - 1] in ("SkipNode", "SkipDeparture")
            if (v and not skip and not d) or (v and skip and d) or (d and not v):
                bad.append("MainBalanced")
                break
        nested_ok = True
        for w in whos:
            for x in range(2, n + 1):
                if not seen(w, "visit", x):
                    continue
                px = parent[x - 1]
                if not seen(w, "visit", px) or not p(w, "visit", px) < p(w, "visit", x):
                    nested_ok = False
                if seen(w, "depart", x) and seen(w, "depart", px) and not p(w, "depart", x) < p(w, "depart", px):
                    nested_ok = False
                if seen(w, "depart", x) and not p(w, "visit", x) < p(w, "depart", x):
                    nested_ok = False
        if not nested_ok:
            bad.append("WellNested")
    else:
        if any(k != "visit" for _, k, x in events if x <= n):
            bad.append("WalkNoDepart")
    order_ok = True
    for e in exts:
        wh = EXT_WHEN[e]
        for x in range(1, n + 1):
            if seen(e, "visit", x) and seen("main", "visit", x):
                before = p(e, "visit", x) < p("main", "visit", x)
                if before != (wh in ("BEFORE", "OUTTER")):
                    order_ok = False
            if seen(e, "depart", x) and seen("main", "depart", x):
                before = p(e, "depart", x) < p("main", "depart", x)
                if before != (wh in ("BEFORE", "INNER")):
                    order_ok = False
    if not order_ok:
        bad.append("DocumentedOrder")
    # ... and of the extensions among themselves, also where the main visitor does not leave the node (ExtOrder in Visitor.tla)
    rank_v = {"BEFORE": 1, "OUTTER": 2, "AFTER": 3, "INNER": 4}
    rank_d = {"BEFORE": 1, "INNER": 2, "AFTER": 3, "OUTTER": 4}
    reg = {t: i for i, t in enumerate(["B", "B2", "A", "I", "O"])}
    ext_ok = True
    for e1 in exts:
        for e2 in exts:
            if e1 == e2:
                continue
            for kind, rank in (("visit", rank_v), ("depart", rank_d)):
                if (rank[EXT_WHEN[e1]], reg[e1]) < (rank[EXT_WHEN[e2]], reg[e2]):
                    for x in range(1, n + 2):
                        if seen(e1, kind, x) and seen(e2, kind, x) and not p(e1, kind, x) < p(e2, kind, x):
                            ext_ok = False
    if not ext_ok:
        bad.append("ExtOrder")
    if any(seen(e, "visit", x) != seen("main", "visit", x) for e in exts for x in range(1, n + 1)):
        bad.append("SameNodesForAll")
    # documented meaning of the pruning exceptions
    visited = {1: True}
    dropped = (cfg.get("edit") or {}).get("drop", 0)
    for x in range(2, n + 1):
        px = parent[x - 1]
        elder = [y for y in range(2, x) if parent[y - 1] == px]
        visited[x] = (visited[px] and x != dropped and prune[px - 1] not in ("SkipChildren", "SkipNode")
                      and not any(visited[s] and prune[s - 1] in ("SkipSiblings", "DepartSkipSiblings", "SkipSiblingsDepartError") for s in elder))
    if any(seen("main", "visit", x) != visited[x] for x in range(1, n + 1)):
        bad.append("PruningMeans")
    # a traversal started from inside a visit_* / depart_* method is a traversal of its own (NestedContract in Visitor.tla)
    nest = cfg.get("nest") or {"at": 0}
    if nest["at"]:
        N = n + 1
        ran = seen("main", nest["when"], nest["at"])
        about = nest["how"] == "walkabout"
        ok = all(len(pos.get((w, "visit", N), [])) == (1 if ran else 0) for w in whos)
        ok = ok and all(len(pos.get((e, "depart", N), [])) == (1 if ran and about else 0) for e in exts)
        ok = ok and len(pos.get(("main", "depart", N), [])) == (1 if ran and about and nest["prune"] not in ("SkipNode", "SkipDeparture") else 0)
        if ran:
            start = p("main", nest["when"], nest["at"])
            mine = [i for i, (_, _, x) in enumerate(events) if x == N]
            ok = ok and mine == list(range(start + 1, start + 1 + len(mine)))
        if not ok:
            bad.append("NestedContract")
    return bad


class _Boom(Exception):
    """The genuine error a depart_* method raises in the DepartError configurations."""


# ------------------------------------------------------------------------- real Visitor on a config
def run_real(cfg: Dict[str, Any]) -> Tuple[List[List[Any]], str]:
    from pydoctor import visitor as V

    n, parent, prune = cfg["n"], cfg["parent"], cfg["prune"]

    nest = cfg.get("nest") or {"at": 0}
    edit = cfg.get("edit") or {"at": 0}
    prune = list(prune) + [nest.get("prune", "none")]       # node n + 1: the root of the detached tree of an inner traversal

    class Nd:
        def __init__(self, i: int):
            self.i = i
            self.kids: List["Nd"] = []

    if cfg.get("eq") == "equal":
        # nodes are positions in the tree: two distinct nodes may well compare (and hash) equal
        Nd.__eq__ = lambda self, other: isinstance(other, Nd)      # type: ignore[assignment]
        Nd.__hash__ = lambda self: 0                               # type: ignore[assignment]

    nodes = {i: Nd(i) for i in range(1, n + 2)}
    for i in range(2, n + 1):
        nodes[parent[i - 1]].kids.append(nodes[i])
    events: List[List[Any]] = []

    class Main(V.Visitor):  # type: ignore[type-arg]
        @classmethod
        def get_children(cls, ob):  # type: ignore[override]
            return list(ob.kids)

        def visit_Nd(self, ob):
            events.append(["main", "visit", ob.i])
            if edit.get("at") == ob.i:
                ob.kids = [k for k in ob.kids if k.i != edit["drop"]]       # in-place edit of the node being entered
            if nest["at"] == ob.i and nest["when"] == "visit":
                getattr(self, nest["how"])(nodes[n + 1])          # a traversal of its own, with this very visitor
            k = prune[ob.i - 1]
            if k == "SkipSiblingsDepartError":
                raise self.SkipSiblings()
            if k not in ("none", "DepartSkipSiblings", "DepartError"):
                raise getattr(self, k)()

        def depart_Nd(self, ob):
            events.append(["main", "depart", ob.i])
            if nest["at"] == ob.i and nest["when"] == "depart":
                getattr(self, nest["how"])(nodes[n + 1])
            if prune[ob.i - 1] == "DepartSkipSiblings":
                raise self.SkipSiblings()
            if prune[ob.i - 1] in ("DepartError", "SkipSiblingsDepartError"):
                raise _Boom(ob.i)

    def mk(tag: str):
        # how an extension class comes by its handlers is no dimension of the spec, so every run mixes the five ways: defined by
        # the class itself (B, I), all inherited from another extension class (B2, O), the departure alone inherited (A),
        # spelled in lower case (I, trees of even size), left to unknown_visit / unknown_departure (B, trees of odd size)
        class Own(V.VisitorExt):  # type: ignore[type-arg]
            when = getattr(V.When, EXT_WHEN[tag])

            def visit_Nd(self, ob):
                events.append([tag, "visit", ob.i])

            def depart_Nd(self, ob):
                events.append([tag, "depart", ob.i])

        if tag in ("B2", "O"):
            class E(Own):
                when = getattr(V.When, EXT_WHEN[tag])
        elif tag == "A":
            class E(Own):       # type: ignore[no-redef]
                def visit_Nd(self, ob):
                    events.append([tag, "visit", ob.i])
        elif tag == "I" and n % 2 == 0:
            # the lower-case spelling of the handlers (the dispatch accepts it for entering and for leaving alike)
            class E(V.VisitorExt):  # type: ignore[no-redef,type-arg]
                when = getattr(V.When, EXT_WHEN[tag])

                def visit_nd(self, ob):
                    events.append([tag, "visit", ob.i])

                def depart_nd(self, ob):
                    events.append([tag, "depart", ob.i])
        elif tag == "B" and n % 2 == 1:
            # no handler of its own for this class of node: what the dispatch falls back on
            class E(V.VisitorExt):  # type: ignore[no-redef,type-arg]
                when = getattr(V.When, EXT_WHEN[tag])

                def unknown_visit(self, ob):
                    events.append([tag, "visit", ob.i])

                def unknown_departure(self, ob):
                    events.append([tag, "depart", ob.i])
        else:
            E = Own             # type: ignore[misc]
        E.__name__ = "E_" + tag
        return E

    # registration order B, B2, A, I, O (RegOrder in the spec)
    order = [t for t in ["B", "B2", "A", "I", "O"] if t in cfg["exts"]]
    if cfg.get("hist", "fresh") == "rewalk":
        # the visitor has already walked this tree without any extension; they are registered afterwards
        vis = Main(V.ExtList())
        try:
            getattr(vis, cfg["mode"])(nodes[1])
        except (V.Visitor._TreePruningException, _Boom):
            pass
        del events[:]
        vis.extensions.add(*[mk(t) for t in order])
        vis.extensions.attach_visitor(vis)
    elif cfg.get("hist") == "lateadd":
        # created with an empty list; the caller adds the extensions afterwards through ITS reference to that list
        el = V.ExtList()
        vis = Main(el)
        el.add(*[mk(t) for t in order])
        el.attach_visitor(vis)
    else:
        vis = Main(V.ExtList(*[mk(t) for t in order]))
    status = "done"
    try:
        getattr(vis, cfg["mode"])(nodes[1])
    except V.Visitor._TreePruningException:
        status = "escaped"
    except _Boom:
        status = "failed"
    return events, status


# ------------------------------------------------------------------- real ASTBuilder, instrumented
def observe_builder(source: str, exts: List[str], hider: bool = False) -> Dict[str, Any]:
    """Build one module with the real ASTBuilder; return the observed config, events and stack state.
    hider: one more extension, registered BEFORE the main visitor, that records nothing and raises SkipNode when it is shown a call
    to `hidden(...)`.  The main visitor looks inside expression statements with bare visit() calls (generic_visit): the exception
    travels up to the statement, which the main visitor then skips - for the walk it is the main visitor pruning that statement."""
    from pydoctor import model, astbuilder, astutils, visitor as V

    tree = ast.parse(source)
    ids: Dict[int, int] = {}
    parent: List[int] = []

    def number(node: ast.AST, par: int) -> None:
        ids[id(node)] = len(ids) + 1
        parent.append(par)
        me = ids[id(node)]
        for c in astbuilder.ModuleVistor.get_children(node):
            number(c, me)

    number(tree, 0)
    n = len(ids)
    prune = ["none"] * n
    events: List[List[Any]] = []
    depth = {"main": 0}
    nested_calls = {"n": 0}
    stack_state: Dict[str, Any] = {}

    def mk(tag: str):
        class E(astutils.NodeVisitorExt):
            when = getattr(V.When, EXT_WHEN[tag])

            def unknown_visit(self, ob):
                if id(ob) in ids and depth["main"] == 0:
                    events.append([tag, "visit", ids[id(ob)]])
                else:
                    nested_calls["n"] += 1

            def unknown_departure(self, ob):
                if id(ob) in ids and depth["main"] == 0:
                    events.append([tag, "depart", ids[id(ob)]])
        E.__name__ = "E_" + tag
        return E

    base_visit, base_depart = V._BaseVisitor.visit, V._BaseVisitor.depart
    orig_pm = astbuilder.ASTBuilder.processModuleAST

    def visit(self, ob):  # wraps the *main* visitor's dispatch only
        if not isinstance(self, V.Visitor):
            return base_visit(self, ob)
        if depth["main"] > 0 or id(ob) not in ids:
            nested_calls["n"] += 1
            return base_visit(self, ob)     # generic_visit() helper calls: outside the walk
        events.append(["main", "visit", ids[id(ob)]])
        depth["main"] += 1
        try:
            return base_visit(self, ob)
        except V.Visitor._TreePruningException as e:
            prune[ids[id(ob)] - 1] = type(e).__name__
            raise
        finally:
            depth["main"] -= 1

    def depart(self, ob):
        if isinstance(self, V.Visitor) and id(ob) in ids and depth["main"] == 0:
            events.append(["main", "depart", ids[id(ob)]])
        return base_depart(self, ob)

    def pm(self, mod_ast, mod):
        try:
            return orig_pm(self, mod_ast, mod)
        finally:
            stack_state["stack"] = len(self._stack)
            stack_state["current_is_none"] = self.current is None

    class Hider(astutils.NodeVisitorExt):
        when = V.When.BEFORE

        def visit_Call(self, node):
            if isinstance(node.func, ast.Name) and node.func.id == "hidden":
                raise self.visitor.SkipNode()

    system = model.System()
    classes = [mk(t) for t in ["B", "B2", "A", "I", "O"] if t in exts]
    if hider:
        classes.insert(min(1, len(classes)), Hider)      # among the BEFORE extensions, after the first recorder
    system._astbuilder_visitors.extend(classes)
    mod = model.Module(system, "m")
    mod._py_string = source
    system._addUnprocessedModule(mod)
    status = "done"
    V._BaseVisitor.visit, V._BaseVisitor.depart = visit, depart
    astbuilder.ASTBuilder.processModuleAST = pm
    orig_parse = astbuilder.ASTBuilder.parseString
    astbuilder.ASTBuilder.parseString = lambda self, s, ctx: tree      # same node identities as numbered
    try:
        system.processModule(mod)
    except V.Visitor._TreePruningException:
        status = "escaped"
    except Exception as e:                           # the walk itself aborted: nodes entered are never left
        status = "aborted:" + type(e).__name__ + ": " + str(e)[:80]
    finally:
        V._BaseVisitor.visit, V._BaseVisitor.depart = base_visit, base_depart
        astbuilder.ASTBuilder.processModuleAST = orig_pm
        astbuilder.ASTBuilder.parseString = orig_parse
    cfg = {"n": n, "parent": parent, "prune": prune, "mode": "walkabout",
           "exts": [t for t in ["B", "B2", "A", "I", "O"] if t in exts]}
    return {"cfg": cfg, "events": events, "status": status, "stack": stack_state, "nested": nested_calls["n"]}


def extension_class_histories() -> List[Dict[str, Any]]:
    """History of the extension CLASSES used in one process: an extension class deriving from another extension class (it handles
    the node types of its base plus some of its own), walked after / before / without its base having been used by an earlier
    walk.  Every typed extension must leave each node it entered, and enter / leave must nest, whatever was walked before."""
    from pydoctor import model, astutils, visitor as V
    SRC = "class A:\n    def f(self): pass\n    class B:\n        def g(self): pass\ndef h(): pass\nx = 1\n"
    bad: List[Dict[str, Any]] = []

    def make() -> Tuple[type, type, List[List[str]]]:
        log: List[List[str]] = []

        class Base(astutils.NodeVisitorExt):
            when = V.When.AFTER
            tag = "base"

            def visit_ClassDef(self, node):
                log.append([self.tag, "visit", node.name])

            def depart_ClassDef(self, node):
                log.append([self.tag, "depart", node.name])

        class Derived(Base):
            tag = "derived"

            def visit_FunctionDef(self, node):
                log.append([self.tag, "visit", node.name])

            def depart_FunctionDef(self, node):
                log.append([self.tag, "depart", node.name])

        class Heir(Derived):            # defines no handler of its own: everything is inherited
            when = V.When.INNER
            tag = "heir"

        class HalfHeir(Derived):        # enters classes its own way, leaves them the inherited way
            tag = "halfheir"

            def visit_ClassDef(self, node):
                log.append([self.tag, "visit", node.name])
        return {"base": Base, "derived": Derived, "heir": Heir, "halfheir": HalfHeir}, log

    def walk(ext: type, name: str) -> None:
        system = model.System()
        system._astbuilder_visitors.append(ext)
        mod = model.Module(system, name)
        mod._py_string = SRC
        system._addUnprocessedModule(mod)
        orig = model.System.msg
        model.System.msg = lambda self, *a, **k: None
        try:
            system.processModule(mod)
        finally:
            model.System.msg = orig

    for history in (["derived"], ["base", "derived"], ["derived", "base", "derived"], ["base", "base", "derived", "derived"],
                    ["heir"], ["halfheir"], ["base", "heir"], ["heir", "derived", "halfheir"], ["derived", "heir", "base", "halfheir", "heir"]):
        classes, log = make()
        for step, which in enumerate(history):
            del log[:]
            try:
                walk(classes[which], f"m{step}")
            except Exception as e:
                bad.append({"history": history, "step": step, "what": f"walk aborted: {type(e).__name__}: {e}"})
                continue
            want = ["A", "B"] if which == "base" else ["A", "f", "B", "g", "h"]
            entered = [n for t, k, n in log if k == "visit"]
            left = [n for t, k, n in log if k == "depart"]
            stack: List[str] = []
            nested = True
            for t, k, n in log:
                if k == "visit":
                    stack.append(n)
                elif not stack or stack.pop() != n:
                    nested = False
            if entered != want or sorted(left) != sorted(want) or not nested or stack:
                bad.append({"history": history, "step": step, "which": which, "entered": entered, "left": left, "nested": nested and not stack})
    return bad


def builder_states_of_package(path) -> List[Tuple[str, Tuple[int, bool, bool]]]:
    """Build a package from disk; after every processModuleAST record (len(_stack), current is None, currentMod is None)."""
    from pydoctor import model, astbuilder
    out: List[Tuple[str, Tuple[int, bool, bool]]] = []
    orig_pm = astbuilder.ASTBuilder.processModuleAST
    orig_msg = model.System.msg

    def pm(self, mod_ast, mod):
        try:
            return orig_pm(self, mod_ast, mod)
        finally:
            out.append((mod.fullName(), (len(self._stack), self.current is None, self.currentMod is None)))

    astbuilder.ASTBuilder.processModuleAST = pm
    model.System.msg = lambda self, *a, **k: None
    try:
        system = model.System()
        b = system.systemBuilder(system)
        b.addModule(path)
        try:
            b.buildModules()
        except Exception:
            pass                      # the walk of some module aborted: its recorded state shows the scopes left open
    finally:
        astbuilder.ASTBuilder.processModuleAST = orig_pm
        model.System.msg = orig_msg
    return out


def deeper_cfgs(sizes: List[int]) -> List[Dict[str, Any]]:
    """Every tree shape of the given sizes x at most one pruning node (every kind) x walk | walkabout x no / all extensions."""
    import itertools
    out: List[Dict[str, Any]] = []
    for n in sizes:
        for tail in itertools.product(*[range(1, i) for i in range(2, n + 1)]):
            parent = [0] + list(tail)
            for at in range(0, n + 1):
                kinds = ["none"] if at == 0 else ["SkipChildren", "SkipSiblings", "SkipNode", "SkipDeparture", "DepartSkipSiblings"]
                for kd in kinds:
                    for mode in ("walk", "walkabout"):
                        if mode == "walk" and kd == "DepartSkipSiblings":
                            continue
                        prune = ["none"] * n
                        if at:
                            prune[at - 1] = kd
                        for exts in ([], ["B", "A", "I", "O"]):
                            out.append({"cid": 0, "n": n, "parent": parent, "prune": prune, "mode": mode, "hist": "fresh",
                                        "nest": {"prune": "none", "at": 0, "when": "visit", "how": "walk"}, "edit": {"at": 0, "drop": 0}, "exts": exts})
    return out


# ------------------------------------------------------------------------------------------ check
CFG_ENUM = """SPECIFICATION Spec
CONSTANTS MaxN = {maxn}
          Source = "enum"
          Modes = {{"walk", "walkabout"}}
          Histories = {hists}
          Nestings = {nestings}
          Edits = {edits}
          NestedMaxPruned = {nmp}
CONSTRAINT EmitTerminal
INVARIANT NestedContract
INVARIANT EnteredAtMostOnce
INVARIANT NoEscape
INVARIANT ExtBalanced
INVARIANT MainBalanced
INVARIANT WalkNoDepart
INVARIANT WellNested
INVARIANT DocumentedOrder
INVARIANT ExtOrder
INVARIANT SameNodesForAll
INVARIANT PruningMeans
INVARIANT ErrorsSurface
"""
CFG_FILE = """SPECIFICATION Spec
CONSTANTS MaxN = 0
          Source = "file"
          Modes = {}
          Histories = {}
          Nestings = {}
          Edits = {}
          NestedMaxPruned = 0
CONSTRAINT EmitTerminal
"""


def judge(ctx: Ctx, cfg: Dict[str, Any], events: List[List[Any]], status: str, origin: str,
          extra: Dict[str, Any] | None = None) -> List[str]:
    bad = contract(cfg, events, status)
    if bad:
        ctx.violation({"invariant": bad[0], "failed": bad, "origin": origin, "cfg": cfg,
                       "observed": {"events": events, "status": status},
                       "key": f"{origin}:{bad}:{cfg['mode']}:{sorted(set(cfg['prune']))}", **(extra or {})})
    return bad


def run(ctx: Ctx) -> int:
    rng = random.Random(ctx.seed)
    maxn = 3 if ctx.quick else 4
    # ---- spec -> code
    r = ctx.tlc("Visitor", CFG_ENUM.format(maxn=maxn, hists='{"fresh", "rewalk", "lateadd"}', nestings='{"none"}', nmp=0, edits='{"none"}'), workers="auto", check=False,
                coverage=ctx.quick, timeout=3000)
    if r.errors or (r.rc != 0 and not r.violated):
        raise MachineryError(f"TLC failed: {r.errors[:3]} rc={r.rc}\n" + "\n".join(r.out.splitlines()[-30:]))
    # re-entrant traversals: a visit_* / depart_* method walks a detached tree with the same visitor
    # (quick: trees of <= 3 nodes with at most one pruning node in the outer tree; thorough: <= 3 nodes with any pruning, and
    #  <= 4 nodes with at most one pruning node - the product of all dimensions at 4 nodes is ~10^6 configurations)
    nested_runs = [(maxn, 1)] if ctx.quick else [(3, 3), (4, 1)]
    nested_recs: List[Dict[str, Any]] = []
    design_violations = list(r.violated)
    for mn, nmp in nested_runs:
        rn = ctx.tlc("Visitor", CFG_ENUM.format(maxn=mn, hists='{"fresh"}', nestings='{"nested"}', nmp=nmp, edits='{"none"}'), workers="auto", check=False, timeout=3000)
        if rn.errors or (rn.rc != 0 and not rn.violated):
            raise MachineryError(f"TLC failed (nested): {rn.errors[:3]} rc={rn.rc}\n" + "\n".join(rn.out.splitlines()[-30:]))
        design_violations += list(rn.violated)
        nested_recs += rn.printed
    # in-place edits: the visit_* of one node removes one of its own children
    re_ = ctx.tlc("Visitor", CFG_ENUM.format(maxn=maxn, hists='{"fresh"}', nestings='{"none"}', nmp=0, edits='{"drop"}'), workers="auto", check=False, timeout=3000)
    if re_.errors or (re_.rc != 0 and not re_.violated):
        raise MachineryError(f"TLC failed (edits): {re_.errors[:3]} rc={re_.rc}\n" + "\n".join(re_.out.splitlines()[-30:]))
    design_violations += list(re_.violated)
    ctx.extra["configurations_with_an_in_place_edit"] = len(re_.printed)
    ctx.exhaustive = True
    recs = r.printed + nested_recs + re_.printed
    ctx.extra["configurations_with_an_inner_traversal"] = len(nested_recs)
    if not recs:
        raise MachineryError("TLC emitted no behaviour")
    mismatches = 0
    equal_nodes = 0
    spec_contract_false = 0
    for rec in recs:
        cfg = rec["cfg"]
        ev, st = run_real(cfg)
        ctx.traces += 1
        bad = judge(ctx, cfg, ev, st, "enum")
        if not rec["contract"]:
            spec_contract_false += 1
        if ev != rec["events"] or st != rec["status"]:
            mismatches += 1
            ctx.drift_note({"cfg": cfg, "spec": rec["events"], "real": ev, "real_status": st})
        if ctx.traces % 2500 == 1:
            ctx.sample({"cfg": cfg, "events": ev, "status": st, "contract_failed": bad})
        # nodes are positions: the same configuration with node objects that all compare and hash equal
        if cfg["n"] >= 2 and cfg.get("hist") == "fresh" and not cfg["nest"]["at"] and (len(cfg["exts"]) >= 2 or ctx.traces % 7 == 0) \
                and (not ctx.quick or (ctx.traces % 3 == 0)):
            cfg2 = {**cfg, "eq": "equal"}
            ev2, st2 = run_real(cfg2)
            ctx.traces += 1
            equal_nodes += 1
            judge(ctx, cfg2, ev2, st2, "enum-equal-nodes")
            if ev2 != rec["events"] or st2 != rec["status"]:
                mismatches += 1
                ctx.drift_note({"cfg": cfg2, "spec": rec["events"], "real": ev2, "real_status": st2})
    ctx.extra["configurations_replayed_with_equal_nodes"] = equal_nodes
    ctx.extra["enumerated_configurations"] = len(recs)
    ctx.extra["spec_vs_code_mismatches"] = mismatches
    ctx.extra["design_level_invariants_violated"] = design_violations
    ctx.extra["spec_terminal_states_with_contract_false"] = spec_contract_false
    if r.coverage:
        never = [a for a, c in r.coverage.items() if c == 0 and a[0].isupper() and a not in ("Init",)]
        ctx.extra["action_coverage"] = r.coverage
        ctx.extra["actions_never_taken"] = never

    # ---- code -> spec : the real ASTBuilder on generated modules
    nmod = 60 if ctx.quick else 600
    obs: List[Dict[str, Any]] = []
    corner = ["", '"""only a docstring"""\n', "# just a comment\n", "pass\n", '"""doc"""\nimport os\n', 'x = 1\n"""attr doc"""\n',
              "if __name__ == '__main__':\n    def f(): pass\n", "class C:\n    pass\n", "def f():\n    def g(): pass\n    class K: pass\n",
              "class C:\n    @property\n    def p(self): return 1\n    @p.setter\n    def p(self, v): pass\n",
              "from typing import overload\n@overload\ndef f(a: int) -> int: ...\n@overload\ndef f(a: str) -> str: ...\ndef f(a): return a\n",
              # expression statements whose value has a `body` that is an expression, not a statement list
              "class Plugin:\n    register() if enabled else None\n    def m(self): pass\n", "class Holder:\n    lambda: 0\n    x = 1\n",
              "a if b else c\nlambda x: (yield)\n", "class K:\n    [i for i in ()]\n    {1: 2}\n    (a := 1)\n    await_ = 1\n",
              # zope.interface: interfaces created by calling an InterfaceClass, also through a chained assignment
              "from zope.interface.interface import InterfaceClass\nclass MyInterfaceClass(InterfaceClass):\n    pass\n"
              "IFoo = MyInterfaceClass('IFoo')\nIA = IB = MyInterfaceClass('IA')\nIC: object = MyInterfaceClass('IC')\nclass After:\n    pass\nLAST = 1\n",
              # an extension that prunes a node the main visitor reaches by a bare visit() inside an expression statement
              "class C:\n    'doc'\n    a = 1\n    hidden(1)\n    b = 2\n    shown(2)\nhidden(3)\ndef f():\n    'doc'\n    hidden(4)\nx = hidden(5)\nshown(hidden(6))\n",
              "hidden(1)\nhidden(2)\nclass K:\n    hidden(3)\n    class L:\n        hidden(4)\n        y = 1\n",
              "from zope.interface import Interface, implementer\nclass IX(Interface):\n    def m(): 'doc'\n@implementer(IX)\nclass X:\n    def m(self): pass\nIY = IZ = Interface\n"]
    for i in range(nmod + len(corner)):
        src = corner[i] if i < len(corner) else pygen.gen_module(rng, depth=3, max_stmts=3)
        try:
            ast.parse(src)
        except SyntaxError as e:                        # generator bug
            raise MachineryError(f"generator produced invalid source: {e}\n{src}")
        exts = [t for t in ["B", "B2", "A", "I", "O"] if rng.random() < 0.6]
        if "B2" in exts and "B" not in exts:
            exts.remove("B2")
        o = observe_builder(src, exts, hider="hidden(" in src)
        o["src"] = src
        if o["status"].startswith("aborted"):
            ctx.violation({"invariant": "WalkCompletes", "origin": "astbuilder", "input": src, "observed": {"status": o["status"], **o["stack"]},
                           "key": "aborted:" + o["status"][:60]})
            continue
        if o["cfg"]["n"] > 45:
            continue
        obs.append(o)
        judge(ctx, o["cfg"], o["events"], o["status"], "astbuilder", {"input": src})
        if o["stack"].get("stack") != 0 or not o["stack"].get("current_is_none"):
            ctx.violation({"invariant": "StackEmptyAfterModule", "origin": "astbuilder", "input": src,
                           "observed": o["stack"], "key": "stack:" + src[:80]})
    # ---- deeper trees than TLC enumerates blindly: every tree of 4-5 nodes (thorough: 6) with ONE pruning node, run through the
    #      real Visitor, judged by the contract, and re-run by TLC from the configuration (Source = "file")
    deep = deeper_cfgs([4, 5] if ctx.quick else [4, 5, 6])
    deep_obs: List[Dict[str, Any]] = []
    for cfg in deep:
        ev, st = run_real(cfg)
        ctx.traces += 1
        judge(ctx, cfg, ev, st, "deeper-trees")
        deep_obs.append({"cfg": cfg, "events": ev, "status": st})
    deep_mismatch = 0
    for batch in chunks(deep_obs, 1500):
        f = ctx.scratch / "deep.json"
        f.write_text(json.dumps([o["cfg"] for o in batch]))
        rd = ctx.tlc("Visitor", CFG_FILE, workers=1, env={"CFG_FILE": str(f)}, check=True, timeout=1500)
        got = {rec["cfg"]["cid"]: rec for rec in rd.printed}
        if len(got) != len(batch):
            raise MachineryError(f"TLC returned {len(got)} behaviours for {len(batch)} deeper configurations")
        for i, o in enumerate(batch, 1):
            if got[i]["events"] != o["events"] or got[i]["status"] != o["status"]:
                deep_mismatch += 1
                ctx.drift_note({"origin": "deeper-trees", "cfg": o["cfg"], "spec": got[i]["events"], "real": o["events"]})
    ctx.extra["deeper_tree_configurations"] = len(deep)
    ctx.extra["deeper_tree_mismatches"] = deep_mismatch
    # ---- histories of extension classes (a class deriving from another extension class, used after / before its base)
    for wit in extension_class_histories():
        ctx.violation({"invariant": "ExtBalanced", "origin": "extension-class-history", "observed": wit,
                       "key": "extclass:" + json.dumps(wit.get("history")) + ":" + str(wit.get("step"))})
    ctx.extra["extension_class_histories"] = 4
    # ---- the scope stack after every module of a PACKAGE tree (modules whose parent is a package, on-demand nesting)
    pkg_modules = pkg_bad = 0
    for t in range(6 if ctx.quick else 60):
        d = ctx.scratch / f"pkgtree{t}"
        files = {"pk/__init__.py": "from .a import *\n" if t % 2 else "", "pk/a.py": pygen.gen_module(rng, 2, 3),
                 "pk/sub/__init__.py": "from ..a import *\nfrom . import deep\n" if t % 3 == 0 else "", "pk/sub/deep.py": pygen.gen_module(rng, 2, 2),
                 "pk/b.py": "from .sub.deep import *\n" + pygen.gen_module(rng, 2, 2)}
        for rel, text in files.items():
            f = d / rel
            f.parent.mkdir(parents=True, exist_ok=True)
            f.write_text(text)
        for name, state in builder_states_of_package(d / "pk"):
            pkg_modules += 1
            if state != (0, True, True):
                pkg_bad += 1
                ctx.violation({"invariant": "StackEmptyAfterModule", "origin": "astbuilder-package", "module": name, "files": files,
                               "observed": {"stack": state[0], "current_is_none": state[1], "currentMod_is_none": state[2]},
                               "key": "pkgstack:" + str(state)})
    # the open scope is MOVED while it is walked: a module analysed in the middle of a class body re-exports that very class
    # (overloads declared around the import, a nested class, a plain method after it), in both analysis orders
    for t, (first, second) in enumerate((("ashapes", "zapi"), ("zshapes", "aapi"))):
        body = ("from typing import overload, Union\nclass Shape:\n    'A shape.'\n    @overload\n    def scale(self, by: int) -> 'Shape': ...\n"
                f"    from pk.{second} import clamp\n    @overload\n    def scale(self, by: float) -> 'Shape': ...\n"
                "    def scale(self, by):\n        'Scale.'\n        return self\n    class Inner:\n        def m(self): pass\n"
                f"    from pk.{second} import clamp as again\n    def area(self):\n        'Area.'\ndef unit():\n    'Unit.'\n    from pk.{second} import clamp\n")
        files = {"pk/__init__.py": "", f"pk/{first}.py": body,
                 f"pk/{second}.py": f"from pk.{first} import Shape\n__all__ = ['Shape', 'clamp']\ndef clamp(x):\n    'Clamp.'\n"}
        d = ctx.scratch / f"pkgmoved{t}"
        for rel, text in files.items():
            f = d / rel
            f.parent.mkdir(parents=True, exist_ok=True)
            f.write_text(text)
        states = builder_states_of_package(d / "pk")
        pkg_modules += len(states)
        if len(states) != 3 or any(st != (0, True, True) for _, st in states):
            pkg_bad += 1
            ctx.violation({"invariant": "StackEmptyAfterModule", "origin": "astbuilder-package", "module": str(states), "files": files,
                           "observed": {"states": [[n, list(st)] for n, st in states]}, "key": f"pkgmoved:{t}"})
    ctx.extra["astbuilder_package_modules"] = pkg_modules
    ctx.extra["astbuilder_modules"] = len(obs)
    ctx.extra["astbuilder_pruned_nodes"] = sum(1 for o in obs for p in o["cfg"]["prune"] if p != "none")
    if obs:
        ctx.sample({"origin": "astbuilder", "source": obs[0]["src"], "cfg": obs[0]["cfg"], "events": obs[0]["events"][:12]})
    file_mismatch = 0
    for batch in chunks(obs, 300):
        f = ctx.scratch / "cfgs.json"
        f.write_text(json.dumps([o["cfg"] for o in batch]))
        r2 = ctx.tlc("Visitor", CFG_FILE, workers=1, env={"CFG_FILE": str(f)}, check=True, timeout=1500)
        got = {rec["cfg"]["cid"]: rec for rec in r2.printed}
        if len(got) != len(batch):
            raise MachineryError(f"TLC returned {len(got)} behaviours for {len(batch)} observed configurations")
        for i, o in enumerate(batch, 1):
            ctx.traces += 1
            rec = got[i]
            if rec["events"] != o["events"] or rec["status"] != o["status"]:
                file_mismatch += 1
                ctx.drift_note({"origin": "astbuilder", "src": o["src"], "spec": rec["events"], "real": o["events"]})
            elif not rec["contract"]:
                # TLC (not the Python twin) says the observed = recomputed behaviour breaks the contract
                ctx.violation({"invariant": "Contract(TLC)", "origin": "astbuilder", "input": o["src"], "cfg": o["cfg"],
                               "observed": {"events": o["events"]}, "key": "tlc:" + o["src"][:80]})
    ctx.extra["trace_validation_mismatches"] = file_mismatch

    # ---- negative control: a trace with its last departure removed must be flagged by both sides
    nc = {"python_twin": False, "tlc_compare": False}
    if obs:
        o = obs[0]
        broken = o["events"][:-1]
        nc["python_twin"] = bool(contract(o["cfg"], broken, o["status"]))
        f = ctx.scratch / "cfgs.json"
        f.write_text(json.dumps([o["cfg"]]))
        r3 = ctx.tlc("Visitor", CFG_FILE, workers=1, env={"CFG_FILE": str(f)}, check=True, count=False)
        nc["tlc_compare"] = r3.printed[0]["events"] != broken and r3.printed[0]["events"] == o["events"]
    ctx.extra["negative_control"] = nc
    if obs and not all(nc.values()):
        raise MachineryError(f"negative control failed: {nc}")
    ctx.assumptions += [
        "pruning exceptions are raised by the MAIN visitor's visit_* methods, and SkipSiblings also by its depart_* methods; the other "
        "exceptions have no meaning at departure time",
        "calls made through NodeVisitor.generic_visit() from inside a visit_* method are helper calls outside the walk",
        "TLC explores every tree <= MaxN nodes; larger trees only through the real ASTBuilder on generated modules",
    ]
    return ctx.finish(
        rule="configurations = (tree shape, pruning per node, extension set, walk|walkabout) enumerated by TLC from "
             "Visitor.tla and replayed through pydoctor.visitor.Visitor, plus modules walked by the real ASTBuilder whose "
             "observed configuration is re-run by TLC; distinct = distinct configurations; non-trivial = at least one "
             "extension or one pruning exception",
        distinct_nontrivial=sum(1 for rec in recs if rec["cfg"]["exts"] or any(p != "none" for p in rec["cfg"]["prune"])))


def replay(ctx: Ctx, path: str) -> int:
    w = json.load(open(path))
    if w.get("origin") == "astbuilder-package":
        d = ctx.scratch / "replaypkg"
        for rel, text in w["files"].items():
            f = d / rel
            f.parent.mkdir(parents=True, exist_ok=True)
            f.write_text(text)
        states = builder_states_of_package(d / "pk")
        bad = ["StackEmptyAfterModule"] if any(st != (0, True, True) for _, st in states) or len(states) != sum(1 for rel in w["files"] if rel.endswith(".py")) else []
    elif w.get("origin") == "astbuilder" and "input" in w:
        o = observe_builder(w["input"], w.get("cfg", {}).get("exts", []))
        bad = ["WalkCompletes"] if o["status"].startswith("aborted") else contract(o["cfg"], o["events"], o["status"])
        if o["stack"].get("stack") != 0 or not o["stack"].get("current_is_none"):
            bad.append("StackEmptyAfterModule")
    else:
        ev, st = run_real(w["cfg"])
        bad = contract(w["cfg"], ev, st)
    print("replay:", "still violated: " + ",".join(bad) if bad else "holds now")
    if bad:
        print(f"VIOLATION property=C19 replay={path}")
    ctx.cleanup()
    return 1 if bad else 0
