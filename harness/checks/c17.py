"""
C17 - written inventories read back faithfully; malformed remote ones are survivable.

spec -> code : spec/Inventory.tla
    rows    every token row up to MaxCols columns over the token-class alphabet: ImplParse (transcription of
            _parseInventoryLine with its index arithmetic, Crash = an IndexError nobody catches) against RefParse
            (the format as Sphinx reads it).  Every row is made concrete, fed to the real _parseInventoryLine /
            _parseInventory / getLink (verdict + drift) and to the real sphinx.util.inventory loader (validates
            RefParse: a disagreement is a machinery error).
    objs    every qualified-name shape (which components are renamed duplicates "X 0"): a project with exactly
            that shape is built from source, written by the real SphinxInventoryWriter, read back by the real
            SphinxInventory and by Sphinx's InventoryFile.
    update  every fault configuration of the staged model of SphinxInventory.update (url, fetch, header, zlib, utf-8,
            up to 3 lines of 7 kinds): bytes are built for it and handed to the real update(); verdict = never
            raises, one message per unusable stage / line, usable lines still resolve.
code -> spec : the lines of inventories written by the real writer for real packages (and mutated copies of them)
            are tokenised and handed to TLC (Mode "file"), which predicts what the reader does with each line.
"""
from __future__ import annotations

import json
import posixpath
import random
import zlib
from pathlib import Path
from typing import Any, Dict, List, Optional, Tuple

from ..core import Ctx, MachineryError, chunks, load_known_findings, tla

BASE = "http://base.tld/api"
HEADER = b"# Sphinx inventory version 2\n# Project: p\n# Version: 1\n# The rest of this file is compressed with zlib.\n"
FINDINGS = ["prio-last-column-indexerror", "empty-token-shifts-columns"]


# ------------------------------------------------------------------------------- tokens <-> classes
def tok(cls: str, i: int) -> str:
    # representatives look like what the writer emits for real projects: locations are percent-quoted
    # (Caf%C3%A9.html, run%20me.html), so a '%' can stand in any column of a damaged line
    # ... and some words LOOK like numbers to str.isdigit() although int() rejects them: 3\u00b2, --5 (words, not priorities)
    return {"w": (f"{i}\u00b2", f"w{i}%20x.y", f"--{i}", f"w{i}.x")[i % 4], "py": f"py:t{i}", "std": f"std:t{i}", "pyx": f"pyramid:t{i}",
            "int": "-1" if i % 2 == 0 else str(i), "e": "", "d": f"u{i}%C3%A9.html#x-$"}[cls]


def classify(token: str) -> str:
    if token == "":
        return "e"
    try:
        int(token)
        return "int"
    except ValueError:
        pass
    if token.startswith("py:"):
        return "py"
    if token.startswith("py") and ":" in token:
        return "pyx"
    if ":" in token:
        return "std"
    return "d" if token.endswith("$") else "w"


def seq(x: Any) -> List[Any]:
    return list(x) if isinstance(x, list) else [x[str(i)] for i in range(1, len(x) + 1)]


# ------------------------------------------------------------------------------------- real reader
class Log:
    def __init__(self) -> None:
        self.messages: List[Tuple[str, str, int]] = []

    def __call__(self, where: str, message: str, thresh: int = 0) -> None:
        self.messages.append((where, message, thresh))


def real_parse(line: str) -> Dict[str, Any]:
    from pydoctor import sphinx
    try:
        name, typ, prio, loc, disp = sphinx._parseInventoryLine(line)
    except ValueError:
        return {"kind": "ValueError"}
    except Exception as e:                     # whatever _parseInventory does not catch
        return {"kind": "Crash", "exc": type(e).__name__}
    return {"kind": "ok", "name": name, "typ": typ, "loc": loc}


def real_effect(line: str) -> Tuple[str, Any, int]:
    """What SphinxInventory._parseInventory does with one line: (effect, reader, number of messages)."""
    from pydoctor import sphinx
    log = Log()
    reader = sphinx.SphinxInventory(logger=log)
    try:
        res = reader._parseInventory(BASE, line + "\n")
    except Exception as e:
        return "raise", reader, len(log.messages)
    reader._links.update(res)
    if log.messages:
        return "error", reader, len(log.messages)
    return ("link" if res else "ignored"), reader, 0


def expected_url(name: str, loc: str) -> str:
    if loc.endswith("$"):
        loc = loc[:-1] + name
    return f"{BASE}/{loc}"


def sphinx_load(payload_text: str) -> Dict[Tuple[str, str], str]:
    """The real Sphinx loader on a one-off inventory: {(type, name): uri}."""
    from sphinx.util.inventory import InventoryFile
    inv = InventoryFile.loads(HEADER + zlib.compress(payload_text.encode("utf-8")), uri=BASE)
    data = inv.data if hasattr(inv, "data") else inv
    return {(t, n): item.uri if hasattr(item, "uri") else item[2] for t, d in data.items() for n, item in d.items()}


# -------------------------------------------------------------------------------------------- rows
def judge_row(ctx: Ctx, rec: Dict[str, Any], tokens: List[str], origin: str, stats: Dict[str, int]) -> None:
    line = " ".join(tokens)
    impl, ref = rec["impl"], rec["ref"]
    txt = lambda pos: " ".join(tokens[p - 1] for p in seq(pos))
    # ---- RefParse against the real Sphinx loader
    want: Dict[Tuple[str, str], str] = {}
    if ref["kind"] == "ok" and ":" in tokens[ref["typ"] - 1]:
        nm, loc = txt(ref["name"]), tokens[ref["loc"] - 1]
        want[(tokens[ref["typ"] - 1], nm)] = posixpath.join(BASE, loc[:-1] + nm if loc.endswith("$") else loc)
    got = sphinx_load(line + "\n")
    if got != want:
        raise MachineryError(f"Inventory.tla!RefParse disagrees with sphinx.util.inventory on {line!r}: {want} vs {got}")
    # ---- the real reader
    real = real_parse(line)
    effect, reader, nmsg = real_effect(line)
    ctx.traces += 1
    stats["rows"] += 1
    model_same = real["kind"] == impl["kind"] and effect == rec["effect"] and (
        real["kind"] != "ok" or (real["name"] == txt(impl["name"]) and real["typ"] == tokens[impl["typ"] - 1]
                                 and real["loc"] == tokens[impl["loc"] - 1]))
    if not model_same:
        stats["drift"] += 1
        ctx.drift_note({"line": line, "model": impl, "model_effect": rec["effect"], "real": real, "real_effect": effect})
    classes = sorted(rec["cls"])
    bad: List[str] = []
    if real["kind"] == "Crash" or effect == "raise":
        bad.append("NoCrash")
    if rec["usable"]:
        stats["usable_rows"] += 1
        nm, loc = txt(ref["name"]), tokens[ref["loc"] - 1]
        if reader.getLink(nm) != expected_url(nm, loc) and not (loc == "" and reader.getLink(nm) is None):
            bad.append("UsableResolves")
    if ref["kind"] == "ok" and classify(tokens[ref["typ"] - 1]) in ("std", "pyx") and effect == "link":
        bad.append("NonPythonSkipped")
    if not rec["usable"] and ref["kind"] == "nomatch" and effect not in ("error", "raise"):
        stats["lenient_rows"] += 1          # pydoctor accepts / silently ignores what Sphinx rejects: not a violation
    if bad:
        stats["violations"] += 1
        vk = f"{origin}:{'+'.join(bad)}:{'+'.join(classes) or 'UNEXPLAINED'}:{'as-modelled' if model_same else 'drift'}"
        byc = ctx.extra.setdefault("violations_by_class", {})
        byc[vk] = byc.get(vk, 0) + 1
        ctx.extra.setdefault("violation_examples", {}).setdefault(vk, line)
        ctx.violation({"invariant": bad[0], "failed": bad, "origin": origin, "input": line, "row": seq(rec["row"]),
                       "observed": {"parse": real, "effect": effect, "messages": nmsg},
                       "expected": {"reference": ref, "usable": rec["usable"]},
                       "design_classes": classes, "drift": not model_same,
                       "key": f"row:{bad}:{classes}:{line if not classes or not model_same else ''}"})
    if stats["rows"] % 4000 == 3:
        ctx.sample({"line": line, "real": real, "effect": effect})


def kf_matcher(fid: str, open_ids: List[str]):
    def match(w: Dict[str, Any]) -> bool:
        cl = w.get("design_classes") or []
        return not w.get("drift") and fid in cl and all(c in open_ids for c in cl)
    return match


# -------------------------------------------------------------------------------------------- objs
def shape_source(dups: List[bool]) -> Tuple[str, str]:
    """Module source in which an object with exactly this duplicate-shape exists, and its full name.
    pydoctor renames the FIRST of two definitions to 'X 0'; the deeper structure sits in that first definition."""
    names = ["K", "J", "g"]
    depth = len(dups) - 1                     # components below the module

    def body(level: int, indent: str) -> str:
        if level > depth:
            return indent + "pass\n"
        nm = names[level - 1]
        last = level == depth
        if last:
            first = f"{indent}def {nm}(*a):\n{indent}    'doc'\n" if depth > 1 else f"{indent}class {nm}:\n{indent}    'doc'\n"
            second = first
        else:
            first = f"{indent}class {nm}:\n{indent}    'doc'\n" + body(level + 1, indent + "    ")
            second = f"{indent}class {nm}:\n{indent}    'second'\n"
        return first + (second if dups[level] else "")

    src = "'module'\n" + (body(1, "") if depth >= 1 else "")
    full = "m" + "".join("." + names[i - 1] + (" 0" if dups[i] else "") for i in range(1, depth + 1))
    return src, full


def build_system(sources: Dict[str, str], hidden: Optional[str] = None) -> Any:
    from pydoctor import model
    system = model.System()
    system.options.verbosity = -3
    if hidden:
        system.options.privacy = [(model.PrivacyClass.HIDDEN, hidden)]
    builder = system.systemBuilder(system)
    for modname, src in sources.items():
        builder.addModuleString(src, modname=modname)
    builder.buildModules()
    return system


def write_inventory(ctx: Ctx, system: Any) -> Tuple[bytes, Log]:
    from pydoctor import sphinx
    log = Log()
    out = ctx.scratch / "inv_out"
    out.mkdir(exist_ok=True)
    sphinx.SphinxInventoryWriter(logger=log, project_name="p", project_version="1").generate(system.rootobjects, str(out))
    return (out / "objects.inv").read_bytes(), log


class BytesCache:
    def __init__(self, data: Optional[bytes]):
        self.data = data

    def get(self, url: str) -> Optional[bytes]:
        return self.data

    def close(self) -> None:
        pass


def read_back(data: bytes) -> Tuple[Any, Log, Optional[str]]:
    from pydoctor import sphinx
    log = Log()
    reader = sphinx.SphinxInventory(logger=log)
    try:
        reader.update(BytesCache(data), BASE + "/objects.inv")
    except Exception as e:
        return reader, log, type(e).__name__
    return reader, log, None


def inventory_lines(data: bytes) -> List[str]:
    payload = data
    while payload.startswith(b"#"):
        payload = payload.split(b"\n", 1)[1]
    return zlib.decompress(payload).decode("utf-8").splitlines()


def dup_shape(full_name: str) -> List[bool]:
    return [c.endswith(" 0") or (len(c.split(" ")) == 2 and c.split(" ")[1].isdigit()) for c in full_name.split(".")]


def ref_url(o: Any) -> str:
    """Python twin of Inventory.tla!RefPage: the page (and anchor) that documents an object.  A package, module or class
    has its own page named after its FULL name; the only root of a single-root project is index.html; anything else
    is an anchor on the page of the nearest such ancestor.  Independent of Documentable.url."""
    from urllib.parse import quote
    from pydoctor import model
    page = o
    while not isinstance(page, (model.Module, model.Class)):
        page = page.parent
    page_url = "index.html" if (page.parent is None and len(o.system.rootobjects) == 1) else quote(page.fullName()) + ".html"
    return page_url if page is o else f"{page_url}#{quote(o.name)}"


def judge_project(ctx: Ctx, system: Any, origin: str, model_rt: Dict[Tuple[bool, ...], Dict[str, bool]],
                  stats: Dict[str, int], open_ids: List[str], data: Optional[bytes] = None) -> List[str]:
    """Write the inventory of a real System (unless its bytes are given), read it back with both readers, judge
    every object."""
    from sphinx.util.inventory import InventoryFile
    if data is None:
        data, wlog = write_inventory(ctx, system)
    try:
        lines = inventory_lines(data)
    except Exception as e:
        ctx.violation({"invariant": "FileLoads", "origin": origin, "design_classes": [],
                       "observed": {"payload": f"{type(e).__name__}: {e}"}, "key": f"fileloads:{origin}"})
        lines = []
    reader, rlog, rexc = read_back(data)
    try:
        inv = InventoryFile.loads(data, uri=BASE)
        d = inv.data if hasattr(inv, "data") else inv
        sph = {n: (t, item.uri if hasattr(item, "uri") else item[2]) for t, dd in d.items() for n, item in dd.items()}
    except Exception as e:                                  # Sphinx refusing the file is a finding about the writer
        sph = {}
        ctx.violation({"invariant": "SphinxLoads", "origin": origin, "observed": repr(e), "key": "sphinxloads"})
    # the documented objects are those the page writer reaches: through `contents` from the roots (a superseded
    # duplicate "X 0" stays in allobjects but has no page)
    reach: List[Any] = []
    todo = list(system.rootobjects)
    while todo:
        o = todo.pop()
        reach.append(o)
        todo.extend(o.contents.values())
    visible = [o for o in reach if o.isVisible]
    hidden = [o for o in reach if not o.isVisible]
    stats["superseded_not_listed"] += sum(1 for o in system.allobjects.values() if o not in reach)
    from pydoctor import model as _model
    pages = [o for o in visible if isinstance(o, (_model.Module, _model.Class))]
    targets: Dict[str, List[str]] = {}
    for o in pages:
        targets.setdefault(o.url, []).append(o.fullName())
    for url, names in targets.items():
        if len(names) > 1:
            ctx.violation({"invariant": "PagesDistinct", "origin": origin, "input": names, "design_classes": [], "drift": True,
                           "observed": {"documented_on_the_same_page": url}, "key": f"pages:{url}:{len(names)}"})
    if rexc:
        ctx.violation({"invariant": "NoCrash", "origin": origin, "observed": {"update_raised": rexc},
                       "input": "inventory written by SphinxInventoryWriter", "design_classes": [],
                       "key": f"ownraise:{origin}"})
    if len(lines) != len(visible):
        ctx.violation({"invariant": "OneEntryPerVisibleObject", "origin": origin, "design_classes": [],
                       "observed": {"lines": len(lines), "visible": len(visible)}, "key": f"count:{origin}"})
    for o in hidden:
        if reader.getLink(o.fullName()) is not None or o.fullName() in sph:
            ctx.violation({"invariant": "HiddenNotListed", "origin": origin, "input": o.fullName(), "design_classes": [],
                           "observed": "listed", "key": f"hidden:{origin}"})
    for o in visible:
        ctx.traces += 1
        stats["objects"] += 1
        name, want = o.fullName(), f"{BASE}/{ref_url(o)}"
        shape = tuple(dup_shape(name))
        own_ok = reader.getLink(name) == want
        sph_ok = name in sph and sph[name][1] == posixpath.join(BASE, ref_url(o)) and sph[name][0].startswith("py:")
        pred = model_rt.get(shape)
        if pred is not None and (pred["roundtrip"] != own_ok or pred["sphinx"] != sph_ok):
            stats["drift"] += 1
            ctx.drift_note({"object": name, "model": pred, "real": {"roundtrip": own_ok, "sphinx": sph_ok}})
        drift = pred is not None and (pred["roundtrip"] != own_ok or pred["sphinx"] != sph_ok)
        explained = pred is not None and not drift
        if not own_ok:
            stats["violations"] += 1
            ctx.violation({"invariant": "RoundTrip", "origin": origin, "input": name, "reader": "pydoctor",
                           "observed": {"getLink": reader.getLink(name)}, "expected": want,
                           "design_classes": [], "drift": drift,
                           "key": f"rt-own:{shape if explained else name}"})
        if not sph_ok:
            stats["violations"] += 1
            ctx.violation({"invariant": "RoundTripSphinx", "origin": origin, "input": name, "reader": "sphinx",
                           "observed": {"entry": sph.get(name)}, "expected": want,
                           "design_classes": [], "drift": drift,
                           "key": f"rt-sphinx:{shape if explained else name}"})
    return lines


# ------------------------------------------------------------------------------------------ update
LINE_TEXT = {"py": "pkg.mod{i} py:module -1 pkg.mod{i}.html -",
             "std": "some label{i} std:label -1 index.html#l{i} Some Title",
             "noint": "name{i} py:class Caf%C3%A9.html y",
             "priolast": "a{i}%20b py:x 1",
             "nodisplay": "b{i} py:class 1 run%20me.html",
             "blank": "",
             "pyx": "some.view{i} pyramid:view 1 views.html#v{i} -"}


class RaisingSession:
    def get(self, url: str) -> Any:
        raise OSError("network down")

    def close(self) -> None:
        pass


def update_case(cfg: Dict[str, Any]) -> Tuple[Any, str, List[str]]:
    from pydoctor import sphinx
    import logging
    lines = [LINE_TEXT[k].format(i=i) for i, k in enumerate(seq(cfg["lines"]), 1)]
    text = ("\n".join(lines) + "\n").encode("utf-8") if lines else b""
    if cfg["text"] == "badutf8":
        text += b"\xff\xfe bad\n"
    body = zlib.compress(text)
    if cfg["zip"] == "notzlib":
        body = b"this is not zlib data\n" + text
    elif cfg["zip"] == "truncated":
        body = body[: max(1, len(body) // 2)]
    banner = HEADER + b"".join(b"# licence line %d\n" % i for i in range(1500))
    data: Optional[bytes] = {"normal": HEADER + body, "missing": body, "onlycomments": HEADER,
                             "nonewline": b"# Sphinx inventory version 2",
                             "banner": banner + body, "manycomments": banner}[cfg["header"]]
    url = "nourl" if cfg["url"] == "noslash" else BASE + "/objects.inv"
    cache: Any
    if cfg["fetch"] == "none":
        cache = BytesCache(None)
    elif cfg["fetch"] == "empty":
        cache = BytesCache(b"")
    elif cfg["fetch"] == "raises":
        quiet = logging.getLogger("verif.c17.quiet")
        quiet.addHandler(logging.NullHandler())
        quiet.propagate = False
        cache = sphinx.IntersphinxCache(RaisingSession(), quiet)     # the real cache turns the exception into None
    else:
        cache = BytesCache(data)
    return cache, url, lines


def run_update(cfg: Dict[str, Any]) -> Dict[str, Any]:
    from pydoctor import sphinx
    cache, url, lines = update_case(cfg)
    log = Log()
    reader = sphinx.SphinxInventory(logger=log)
    raised = None
    try:
        reader.update(cache, url)
    except Exception as e:
        raised = type(e).__name__
    links = []
    for i, ln in enumerate(lines, 1):
        name = None
        for sep in (" py:", " pyramid:", " std:"):
            if sep in ln:
                name = ln.split(sep)[0]
                break
        if name and reader.getLink(name) is not None:
            links.append(i)
    return {"raised": raised, "errors": len(log.messages), "links": links, "messages": [m[1] for m in log.messages][:4]}


# -------------------------------------------------------------------------- several inventories in one run
class _Resp:
    def __init__(self, content: bytes):
        self.content = content


class ScriptedSession:
    """requests.Session stand-in: per URL a body, or an exception that is NOT about reaching the host."""

    def __init__(self, plan: Dict[str, Any]):
        self.plan = plan
        self.asked: List[str] = []

    def get(self, url: str, **kw: Any) -> Any:
        import requests
        self.asked.append(url)
        what = self.plan[url]
        if what == "exception":
            raise requests.exceptions.ContentDecodingError("Received response with content-encoding: gzip, but failed to decode it")
        return _Resp(what)

    def close(self) -> None:
        pass


def run_multi(cfg: List[Dict[str, str]]) -> Dict[str, Any]:
    """The real System.fetchIntersphinxInventories over the real IntersphinxCache for a sequence of URLs."""
    import logging
    from pydoctor import model, sphinx
    urls, plan, names = [], {}, []
    for i, c in enumerate(cfg, 1):
        url = f"https://{c['host']}.example/{i}/objects.inv"
        urls.append(url)
        names.append(f"pkg{i}.mod")
        good = HEADER + zlib.compress(f"pkg{i}.mod py:module -1 pkg{i}.mod.html -\npkg{i}.mod.f py:function -1 pkg{i}.mod.html#f -\n".encode())
        plan[url] = {"ok": good, "junk": b"<html><body>404 not found</body></html>", "exception": "exception"}[c["out"]]
    quiet = logging.getLogger("verif.c17.quiet")
    quiet.addHandler(logging.NullHandler())
    quiet.propagate = False
    session = ScriptedSession(plan)
    cache = sphinx.IntersphinxCache(session, quiet)
    system = model.System()
    system.options.verbosity = -3
    system.options.intersphinx = urls
    before = system.violations
    raised = None
    try:
        system.fetchIntersphinxInventories(cache)
    except Exception as e:
        raised = type(e).__name__
    links = [i for i, (u, nm) in enumerate(zip(urls, names), 1)
             if system.intersphinx.getLink(nm) == u.rsplit("/", 1)[0] + f"/{nm}.html"]
    return {"raised": raised, "errors": system.violations - before, "links": links, "asked": len(session.asked)}


def run_history(events: List[str], inv_bytes: Dict[int, bytes]) -> Dict[str, Any]:
    """Look-ups and loads on ONE real SphinxInventory, in the given order."""
    from pydoctor import sphinx
    log = Log()
    reader = sphinx.SphinxInventory(logger=log)
    answers: List[bool] = []
    raised = None
    try:
        for e in events:
            n = int(e[1])
            if e[0] == "L":
                answers.append(reader.getLink(f"pkg.n{n}") == f"{BASE}/pkg.n{n}.html")
            elif e[0] == "I":
                reader.update(BytesCache(inv_bytes[n]), BASE + "/objects.inv")
            else:
                reader.update(BytesCache(inv_bytes[n][: len(inv_bytes[n]) - 9]), BASE + "/objects.inv")
    except Exception as ex:
        raised = type(ex).__name__
    return {"raised": raised, "answers": answers, "errors": len(log.messages)}


# ------------------------------------------------------------------------------------------- check
def inv_cfg(mode: str, classes: List[str], maxcols: int, maxdepth: int, open_ids: List[str], fixed_ids: List[str]) -> str:
    return (f'SPECIFICATION Spec\nCONSTANTS Mode = "{mode}"\n          Classes = {tla(set(classes))}\n'
            f'          MaxCols = {maxcols}\n          MaxDepth = {maxdepth}\n          Open = {tla(set(open_ids))}\n'
            f'          Fixed = {tla(set(fixed_ids))}\nCONSTRAINT Emit\nINVARIANT DesignKnown\n')


def finding_status() -> Tuple[List[str], List[str]]:
    """(open, fixed): an id is fixed when known_findings.json says so or when its canonical witness no longer
    reproduces on the tree under test (then Inventory.tla follows the repaired code: FixIndex / FixEmpty)."""
    fs = load_known_findings("C17")
    fixed = {f["id"] for f in fs if f.get("status") == "fixed"}
    if real_parse("a py:x 1")["kind"] != "Crash":
        fixed.add("prio-last-column-indexerror")
    r = real_parse("a  py:x 1 loc d")
    if r["kind"] == "ok" and r["name"] == "a":
        fixed.add("empty-token-shifts-columns")
    return [f["id"] for f in fs if f.get("status") == "open" and f["id"] not in fixed], sorted(fixed)


def run(ctx: Ctx) -> int:
    rng = random.Random(ctx.seed)
    open_ids, fixed_ids = finding_status()
    for fid in FINDINGS:
        ctx.register_matcher(fid, kf_matcher(fid, open_ids))
    stats = {k: 0 for k in ("rows", "usable_rows", "lenient_rows", "objects", "updates", "drift", "violations", "file_rows",
                            "superseded_not_listed", "byte_strings", "multi", "histories", "write_histories", "url_cases", "root_histories")}
    design: List[str] = []

    def tlc(mode: str, classes: List[str], maxcols: int = 0, maxdepth: int = 0, env: Optional[Dict[str, str]] = None,
            coverage: bool = False) -> Any:
        r = ctx.tlc("Inventory", inv_cfg(mode, classes, maxcols, maxdepth, open_ids, fixed_ids), workers="auto", env=env,
                    extra=["-continue"], timeout=1500, coverage=coverage)
        # with -continue TLC prints the trace of every design-level violation: not an error of the run
        errs = [e for e in r.errors if "The behavior up to this point is" not in e]
        if errs or (r.rc != 0 and not r.violated):
            raise MachineryError(f"TLC failed on Inventory ({mode}): {errs[:3]}\n" + "\n".join(r.out.splitlines()[-25:]))
        design.extend(sorted({f"{mode}:{v}" for v in r.violated}))
        return r

    # ---- rows: the line grammar
    classes = ["w", "py", "pyx", "int", "e", "d"] if ctx.quick else ["w", "py", "pyx", "std", "int", "e", "d"]
    r = tlc("rows", classes, maxcols=6)
    if len(r.printed) != r.distinct:
        raise MachineryError(f"Inventory(rows): {r.distinct} rows but {len(r.printed)} records")
    for rec in r.printed:
        row = seq(rec["row"])
        judge_row(ctx, rec, [tok(c, i) for i, c in enumerate(row, 1)], "rows", stats)
    ctx.exhaustive = True

    # ---- objs: written names read back
    maxdepth = 4
    r = tlc("objs", classes, maxdepth=maxdepth)
    model_rt = {tuple(seq(rec["dups"])): {"roundtrip": rec["roundtrip"], "sphinx": rec["sphinx"]} for rec in r.printed}
    all_lines: List[str] = []
    for shape in sorted(model_rt):
        src, full = shape_source(list(shape))
        system = build_system({"m": src, "_priv": "x = 1\n'doc'\nclass Hid:\n    def meth(self): pass\n",
                               "caf\u00e9": "'doc'\nclass \u00c9lan:\n    'doc'\n    def m\u00e9thode(self): 'd'\n",
                               # documented objects whose name is not an identifier: property setter / deleter, a script
                               "run-me": "'doc'\nclass Box:\n    'doc'\n    @property\n    def width(self):\n        'w'\n"
                                         "    @width.setter\n    def width(self, v):\n        'set'\n"
                                         "    @width.deleter\n    def width(self):\n        'del'\n"},
                              hidden="_priv.Hid")
        if full not in system.allobjects:
            raise MachineryError(f"shape {shape}: generated project has no object {full!r}: {sorted(system.allobjects)}")
        all_lines += judge_project(ctx, system, f"shape{[int(b) for b in shape]}", model_rt, stats, open_ids)
    # real packages of pydoctor's own test suite
    import pydoctor
    from pydoctor import model
    tp = Path(pydoctor.__file__).parent / "test" / "testpackages"
    for pkg in (["basic", "allgames"] if ctx.quick else ["basic", "allgames", "nestedconfusion", "multipleinheritance",
                                                         "relativeimporttest", "reparented_module", "cyclic_imports"]):
        if (tp / pkg).exists():
            system = model.System()
            system.options.verbosity = -3
            system.addPackage(tp / pkg)
            system.process()
            all_lines += judge_project(ctx, system, f"pkg:{pkg}", model_rt, stats, open_ids)

    # ---- code -> spec: lines the real writer produced (and mutated copies) are re-judged by TLC
    pool = sorted(set(all_lines))
    mutated: List[str] = []
    for ln in pool:
        parts = ln.split(" ")
        for _ in range(6 if ctx.quick else 20):
            p = list(parts)
            op = rng.choice(["drop", "dup", "empty", "swap", "int", "domain"])
            k = rng.randrange(len(p))
            if op == "drop":
                del p[k]
            elif op == "dup":
                p.insert(k, p[k])
            elif op == "empty":
                p.insert(k, "")
            elif op == "swap" and len(p) > 1:
                j = rng.randrange(len(p)); p[k], p[j] = p[j], p[k]
            elif op == "domain":
                p = [t.replace("py:", rng.choice(["pyramid:", "std:", "c:"])) for t in p]
            else:
                p[k] = str(rng.choice([0, 1, -1, 7]))
            if p and len(p) <= 10:
                mutated.append(" ".join(p))
    file_lines = sorted(set(pool + mutated))
    for batch in chunks(file_lines, 5000):
        rows = sorted({tuple(classify(t) for t in ln.split(" ")) for ln in batch})
        f = ctx.scratch / "rows.json"
        f.write_text(json.dumps([list(x) for x in rows]))
        r = tlc("file", ["w", "py", "pyx", "std", "int", "e", "d"], env={"ROWS_FILE": str(f)})
        pred = {tuple(seq(rec["row"])): rec for rec in r.printed}
        for ln in batch:
            toks = ln.split(" ")
            rec = pred.get(tuple(classify(t) for t in toks))
            if rec is None:
                raise MachineryError(f"TLC returned no prediction for {ln!r}")
            stats["file_rows"] += 1
            judge_row(ctx, rec, toks, "written+mutated", stats)

    # ---- update: the staged fault model
    r = tlc("update", classes, coverage=True)
    upd = r.printed
    if r.coverage:
        ctx.extra["action_coverage"] = {a: c for a, c in r.coverage.items() if a in
                                        ("Rsplit", "Fetch", "Payload", "Inflate", "Decode", "Lines")}
        ctx.extra["actions_never_taken"] = [a for a in ("Rsplit", "Fetch", "Payload", "Inflate", "Decode", "Lines")
                                            if r.coverage.get(a, 0) == 0]
    nupd = 0
    for rec in r.printed:
        cfg = rec["cfg"]
        obs = run_update(cfg)
        ctx.traces += 1
        stats["updates"] += 1
        nupd += 1
        m_raised = rec["pc"] == "raised"
        same = (obs["raised"] is not None) == m_raised and (m_raised or (obs["errors"] == rec["errors"]
                                                                         and obs["links"] == sorted(seq(rec["links"]))))
        if not same:
            stats["drift"] += 1
            ctx.drift_note({"cfg": cfg, "model": {"pc": rec["pc"], "errors": rec["errors"], "links": seq(rec["links"])},
                            "real": obs})
        want_errors = 1 if rec["stagefault"] else len(seq(rec["bad"]))
        want_links = [] if rec["stagefault"] else sorted(seq(rec["usable"]))
        bad = []
        if obs["raised"] is not None:
            bad.append("NeverRaises")
        else:
            if obs["errors"] != want_errors:
                bad.append("ReportsOnce")
            if obs["links"] != want_links:
                bad.append("StillResolve")
        if bad:
            stats["violations"] += 1
            classes_ = sorted(rec["cls"])
            vk = f"update:{'+'.join(bad)}:{'+'.join(classes_) or 'UNEXPLAINED'}:{'as-modelled' if same else 'drift'}"
            byc = ctx.extra.setdefault("violations_by_class", {})
            byc[vk] = byc.get(vk, 0) + 1
            ctx.extra.setdefault("violation_examples", {}).setdefault(vk, json.dumps(cfg))
            ctx.violation({"invariant": bad[0], "failed": bad, "origin": "update", "cfg": cfg, "observed": obs,
                           "expected": {"raises": False, "errors": want_errors, "links": want_links},
                           "design_classes": classes_, "drift": not same,
                           "key": f"upd:{bad}:{classes_}:{json.dumps(cfg) if not classes_ or not same else ''}"})
        if nupd % 1100 == 1:
            ctx.sample({"cfg": cfg, "observed": obs})

    # ---- several --intersphinx URLs through one cache: every sequence of (host, outcome)
    r = tlc("multi", classes)
    for rec in r.printed:
        cfgm = [dict(x) for x in seq(rec["cfg"])]
        obs = run_multi(cfgm)
        ctx.traces += 1
        stats["multi"] += 1
        m_links = sorted(seq(rec["links"]))
        if obs["raised"] is not None or obs["links"] != m_links or obs["errors"] != rec["errors"]:
            stats["drift"] += 1
            ctx.drift_note({"urls": cfgm, "model": {"links": m_links, "errors": rec["errors"]}, "real": obs})
        want_links = [i for i, c in enumerate(cfgm, 1) if c["out"] == "ok"]
        want_errors = sum(1 for c in cfgm if c["out"] != "ok")
        bad = []
        if obs["raised"] is not None:
            bad.append("NeverRaises")
        else:
            if obs["links"] != want_links:
                bad.append("EachGoodResolves")
            if obs["errors"] != want_errors:
                bad.append("ReportsOnce")
        if bad:
            stats["violations"] += 1
            ctx.violation({"invariant": bad[0], "failed": bad, "origin": "multi", "cfg": cfgm, "observed": obs,
                           "expected": {"raises": False, "links": want_links, "errors": want_errors},
                           "design_classes": [], "drift": True,
                           "key": f"multi:{bad}:{[c['out'] for c in cfgm]}:{len({c['host'] for c in cfgm})}"})
        if stats["multi"] % 100 == 1:
            ctx.sample({"urls": cfgm, "observed": obs})

    # ---- where an object is documented: names deeper in the tree that repeat the root's own name, one / two roots
    r = tlc("urls", classes)
    from urllib.parse import quote as _quote
    FOO = ("'doc'\nclass foo:\n    'doc'\n    def f(self): 'd'\nclass K:\n    'doc'\n    def f(self): 'd'\n")
    url_systems: Dict[int, Any] = {}
    for nroots in (1, 2):
        from pydoctor import model
        system = model.System()
        system.options.verbosity = -3
        builder = system.systemBuilder(system)
        builder.addModuleString("'package'", "foo", is_package=True)
        builder.addModuleString(FOO, "foo", parent_name="foo")
        builder.addModuleString(FOO, "K", parent_name="foo")
        if nroots == 2:
            builder.addModuleString("'another root'\ndef g(): 'd'\n", "other")
        builder.buildModules()
        url_systems[nroots] = system
        all_lines += judge_project(ctx, system, f"urls:{nroots}roots", model_rt, stats, open_ids)
    for rec in r.printed:
        names = ["foo" if c == "r" else "K" for c in seq(rec["names"])]
        full = ".".join(names)
        o = url_systems[rec["roots"]].allobjects.get(full)
        if o is None:
            raise MachineryError(f"the project for Inventory.tla Mode urls has no object {full}")
        page = seq(rec["page"])
        want = "index.html" if page == ["index"] else _quote(full) + ".html"
        ctx.traces += 1
        stats["url_cases"] += 1
        if o.url != want:
            stats["drift"] += 1
            stats["violations"] += 1
            ctx.drift_note({"object": full, "roots": rec["roots"], "model": want, "real": o.url})
            ctx.violation({"invariant": "DocumentedOnItsOwnPage", "origin": "urls", "input": full, "roots": rec["roots"],
                           "observed": {"url": o.url}, "expected": want, "design_classes": [], "drift": True,
                           "key": f"url:{full}:{rec['roots']}"})

    # ---- a system that grows: roots added and analysed one after the other, urls read in between, inventories written
    r = tlc("roots", classes)
    ROOTS = [("alpha", "'doc'\ndef start():\n    'd'\nclass Engine:\n    'see L{start}'\n    def run(self): 'd'\n"),
             ("beta", "'doc'\ndef stop():\n    'd'\n"), ("gamma", "'doc'\nclass G:\n    'doc'\n")]
    for rec in r.printed:
        events = seq(rec["cfg"])
        from pydoctor import model, epydoc2stan
        from pydoctor.stanutils import flatten as _flatten
        system = model.System()
        system.options.verbosity = -3
        builder = system.systemBuilder(system)
        nroots, nw = 0, 0
        stats["root_histories"] += 1
        for k, e in enumerate(events, 1):
            ctx.traces += 1
            if e == "A":
                builder.addModuleString(ROOTS[nroots][1], ROOTS[nroots][0])
                builder.buildModules()
                nroots += 1
            elif e == "T":
                for o in list(system.allobjects.values()):
                    o.url                                     # what rendering a link to the object reads
                eng = system.allobjects.get("alpha.Engine")
                if eng is not None:
                    _flatten(epydoc2stan.format_docstring(eng))
            else:
                nw += 1
                if len(system.rootobjects) != seq(rec["answers"])[nw - 1]:
                    stats["drift"] += 1
                    ctx.drift_note({"events": events[:k], "model_roots": seq(rec["answers"])[nw - 1], "real": len(system.rootobjects)})
                nv = len(ctx.violations) + sum(ctx.known_seen.values())
                judge_project(ctx, system, f"roots:{''.join(events[:k])}", {}, stats, open_ids)
                if len(ctx.violations) + sum(ctx.known_seen.values()) != nv:
                    stats["drift"] += 1
                    ctx.drift_note({"events": events[:k], "model": "targets follow the roots present now", "real": "see violation"})
                    for v in ctx.violations[-4:]:
                        v.setdefault("events", events[:k])

    # ---- several generate() calls in one process, through the same / different writer objects
    from pydoctor import sphinx as _sphinx
    projects = {"p1": build_system({"solo": "'doc'\nclass K:\n    'doc'\n    def f(self): 'd'\n"}),
                "p2": build_system({"m": shape_source([False, True, True])[0], "n": "def g(): 'd'\nx = 1\n'doc'\n",
                                    "caf\u00e9": "'doc'\nclass \u00c9lan:\n    'doc'\n"})}
    r = tlc("writes", classes)
    for hi, rec in enumerate(r.printed):
        events = [dict(x) for x in seq(rec["cfg"])]
        writers = {w: _sphinx.SphinxInventoryWriter(logger=Log(), project_name="p", project_version="1") for w in ("w1", "w2")}
        stats["write_histories"] += 1
        for k, e in enumerate(events, 1):
            out = ctx.scratch / f"wr_{k}"
            out.mkdir(exist_ok=True)
            origin = f"writes:{[(x['w'], x['p']) for x in events[:k]]}"
            ctx.traces += 1
            try:
                writers[e["w"]].generate(projects[e["p"]].rootobjects, str(out))
            except Exception as ex:
                stats["violations"] += 1
                ctx.violation({"invariant": "GenerateNeverRaises", "origin": "writes", "events": events[:k], "design_classes": [],
                               "observed": {"raised": f"{type(ex).__name__}: {ex}"}, "drift": True,
                               "key": f"wraise:{k}:{events[k-1]['w'] in [x['w'] for x in events[:k-1]]}"})
                continue
            nv = len(ctx.violations) + sum(ctx.known_seen.values())
            judge_project(ctx, projects[e["p"]], origin, {}, stats, open_ids, data=(out / "objects.inv").read_bytes())
            if len(ctx.violations) + sum(ctx.known_seen.values()) != nv:
                stats["drift"] += 1          # the model says every file is complete
                ctx.drift_note({"writes": events[:k], "model": "file complete", "real": "see violation"})
                for v in ctx.violations[-3:]:
                    v.setdefault("events", events[:k])

    # ---- look-ups and loads in any order on one reader
    r = tlc("hist", classes)
    inv_bytes = {n: HEADER + zlib.compress(f"pkg.n{n} py:module -1 pkg.n{n}.html -\n".encode()) for n in (1, 2)}
    for rec in r.printed:
        events = seq(rec["cfg"])
        obs = run_history(events, inv_bytes)
        ctx.traces += 1
        stats["histories"] += 1
        if obs["raised"] is not None or obs["answers"] != seq(rec["answers"]) or obs["errors"] != rec["errors"]:
            stats["drift"] += 1
            ctx.drift_note({"events": events, "model": {"answers": seq(rec["answers"]), "errors": rec["errors"]}, "real": obs})
        want = []
        for i, e in enumerate(events):
            if e[0] == "L":
                want.append(any(x == "I" + e[1] for x in events[:i]))
        if obs["raised"] is not None or obs["answers"] != want:
            stats["violations"] += 1
            ctx.violation({"invariant": "NeverRaises" if obs["raised"] else "LookupsFollowLoads", "origin": "history",
                           "events": events, "observed": obs, "expected": {"answers": want},
                           "design_classes": [], "drift": True, "key": f"hist:{events}"})
        if stats["histories"] % 250 == 1:
            ctx.sample({"events": events, "observed": obs})

    # ---- for all byte strings: corrupted copies of a really written inventory (adjunct to the staged model: the
    #      only claims are "never raises" and "something is reported or something resolves")
    good, _ = write_inventory(ctx, build_system({"m": shape_source([False, True, True])[0], "n": "def f(): 'd'\nx = 1\n'doc'\n",
                                                 "caf\u00e9": "'doc'\nclass \u00c9lan:\n    def m\u00e9thode(self): 'd'\n"}))
    nfuzz = 400 if ctx.quick else 6000
    for _ in range(nfuzz):
        b = bytearray(good)
        for _ in range(rng.choice([1, 1, 2, 5])):
            op = rng.choice(["flip", "cut", "ins", "del", "reinflate"])
            if op == "flip" and b:
                b[rng.randrange(len(b))] = rng.randrange(256)
            elif op == "cut":
                b = b[: rng.randrange(len(b) + 1)]
            elif op == "ins":
                b[rng.randrange(len(b) + 1):0] = bytes(rng.randrange(256) for _ in range(rng.choice([1, 3, 10])))
            elif op == "del" and len(b) > 2:
                i = rng.randrange(len(b) - 1); del b[i:i + rng.choice([1, 2, 8])]
            else:                                         # valid container, corrupted text
                t = bytearray(zlib.decompress(good[len(HEADER):]))
                for _ in range(rng.choice([1, 2, 4])):
                    if t:
                        t[rng.randrange(len(t))] = rng.choice(b" \n1-:$\xff\x00a")
                b = bytearray(HEADER + zlib.compress(bytes(t)))
        reader, rlog, rexc = read_back(bytes(b))
        ctx.traces += 1
        stats["byte_strings"] += 1
        if rexc is not None:
            try:
                lines = inventory_lines(bytes(b))
            except Exception:
                lines = []
            crash_lines = [ln for ln in lines if real_parse(ln)["kind"] == "Crash"]
            stats["violations"] += 1
            ctx.violation({"invariant": "NeverRaises", "origin": "bytes", "input": bytes(b).hex(),
                           "observed": {"raised": rexc, "line": crash_lines[:1]},
                           "design_classes": ["prio-last-column-indexerror"] if crash_lines and rexc == "IndexError" else [],
                           "drift": False, "key": f"bytes:{rexc}:{bool(crash_lines)}"})
        elif not rlog.messages and not reader._links:
            try:
                empty_ok = not any(" py:" in ln for ln in inventory_lines(bytes(b)))
            except Exception:
                empty_ok = False
            if not empty_ok:
                ctx.violation({"invariant": "ReportsOnce", "origin": "bytes", "input": bytes(b).hex(),
                               "observed": "nothing reported, nothing resolves", "design_classes": [], "drift": False,
                               "key": "bytes:silent"})

    # ---- negative control: a corrupted observation must be told apart by the comparison with the model
    rec0 = next(rec for rec in upd if rec["pc"] == "done" and seq(rec["links"]))
    obs0 = run_update(rec0["cfg"])
    nc = {"dropped_link_detected": obs0["links"][:-1] != sorted(seq(rec0["links"])),
          "extra_message_detected": obs0["errors"] + 1 != rec0["errors"],
          "model_equals_real_before_corruption": obs0["links"] == sorted(seq(rec0["links"])) and obs0["errors"] == rec0["errors"]}
    ctx.extra["negative_control"] = nc
    if not all(nc.values()):
        raise MachineryError(f"negative control failed: {nc}")

    ctx.extra["c17_stats"] = stats
    ctx.extra["design_level_invariants_violated"] = design
    ctx.extra["known_finding_ids"] = {"open": open_ids, "fixed": fixed_ids}
    ctx.assumptions += [
        "the reference for 'a usable line' is the format as sphinx.util.inventory reads it (RefParse is checked against "
        "the installed Sphinx on every row); lines pydoctor accepts although Sphinx rejects them are leniency, not violations",
        "fetch faults are modelled at the CacheT boundary (None / empty / IntersphinxCache turning an exception into None)",
        "one stage fault at a time before the per-line stage; any mixture of up to 3 lines of 7 kinds",
    ]
    return ctx.finish(
        rule="rows = every token row <= 6 columns over the token-class alphabet (made concrete and fed to the real "
             "_parseInventoryLine/_parseInventory/getLink and to Sphinx's loader); objs = every duplicate-shape of a "
             "qualified name up to depth 4, realised as a project built from source, written and read back by both "
             "readers; update = every fault configuration replayed into the real update(); non-trivial = rows the "
             "reference accepts as a Python entry, objects, and update configurations",
        distinct_nontrivial=stats["usable_rows"] + stats["objects"] + stats["updates"])


def replay(ctx: Ctx, path: str) -> int:
    w = json.load(open(path))
    bad = False
    if w.get("origin") == "update":
        obs = run_update(w["cfg"])
        exp = w["expected"]
        bad = obs["raised"] is not None or obs["errors"] != exp["errors"] or obs["links"] != exp["links"]
        print("replay: update", json.dumps(w["cfg"]), "->", obs, "still violated" if bad else "holds now")
    elif "row" in w:
        line = w["input"]
        real = real_parse(line)
        effect, reader, _ = real_effect(line)
        bad = real["kind"] == "Crash" or effect == "raise"
        ref = w["expected"]["reference"]
        if not bad and w["expected"]["usable"]:
            toks = line.split(" ")
            nm = " ".join(toks[p - 1] for p in seq(ref["name"]))
            bad = reader.getLink(nm) != expected_url(nm, toks[ref["loc"] - 1])
        print(f"replay: line {line!r} -> {real} / {effect}:", "still violated" if bad else "holds now")
    elif w.get("origin") == "urls":
        from pydoctor import model
        system = model.System()
        system.options.verbosity = -3
        builder = system.systemBuilder(system)
        FOO = ("'doc'\nclass foo:\n    'doc'\n    def f(self): 'd'\nclass K:\n    'doc'\n    def f(self): 'd'\n")
        builder.addModuleString("'package'", "foo", is_package=True)
        builder.addModuleString(FOO, "foo", parent_name="foo")
        builder.addModuleString(FOO, "K", parent_name="foo")
        if w.get("roots") == 2:
            builder.addModuleString("'another root'\n", "other")
        builder.buildModules()
        got = system.allobjects[w["input"]].url
        bad = got != w["expected"]
        print(f"replay: {w['input']} ({w.get('roots')} root(s)) is documented at {got}:", "still violated" if bad else "holds now")
    elif str(w.get("origin", "")).startswith("writes") and w.get("events"):
        from pydoctor import sphinx as _sphinx
        projects = {"p1": build_system({"solo": "'doc'\nclass K:\n    'doc'\n    def f(self): 'd'\n"}),
                    "p2": build_system({"m": shape_source([False, True, True])[0], "n": "def g(): 'd'\nx = 1\n'doc'\n",
                                        "caf\u00e9": "'doc'\nclass \u00c9lan:\n    'doc'\n"})}
        writers = {x: _sphinx.SphinxInventoryWriter(logger=Log(), project_name="p", project_version="1") for x in ("w1", "w2")}
        st = {k: 0 for k in ("objects", "drift", "violations", "superseded_not_listed")}
        for k, e in enumerate(w["events"], 1):
            out = ctx.scratch / f"wr_{k}"
            out.mkdir(exist_ok=True)
            try:
                writers[e["w"]].generate(projects[e["p"]].rootobjects, str(out))
                judge_project(ctx, projects[e["p"]], "replay", {}, st, [], data=(out / "objects.inv").read_bytes())
            except Exception as ex:
                ctx.violations.append({"invariant": "GenerateNeverRaises", "observed": repr(ex)})
        bad = bool(ctx.violations)
        print("replay: generate() history", w["events"], "->", "still violated" if bad else "holds now")
    elif w.get("origin") == "history":
        inv_bytes = {n: HEADER + zlib.compress(f"pkg.n{n} py:module -1 pkg.n{n}.html -\n".encode()) for n in (1, 2)}
        obs = run_history(w["events"], inv_bytes)
        bad = obs["raised"] is not None or obs["answers"] != w["expected"]["answers"]
        print("replay: history", w["events"], "->", obs, "still violated" if bad else "holds now")
    elif w.get("origin") == "multi":
        obs = run_multi(w["cfg"])
        exp = w["expected"]
        bad = obs["raised"] is not None or obs["links"] != exp["links"] or obs["errors"] != exp["errors"]
        print("replay: inventories", json.dumps(w["cfg"]), "->", obs, "still violated" if bad else "holds now")
    elif w.get("origin") == "bytes":
        reader, rlog, rexc = read_back(bytes.fromhex(w["input"]))
        bad = rexc is not None if w["invariant"] == "NeverRaises" else (not rlog.messages and not reader._links)
        print("replay: update on recorded bytes ->", rexc or "returned", "still violated" if bad else "holds now")
    elif w.get("invariant") in ("RoundTrip", "RoundTripSphinx"):
        shape = dup_shape(w["input"])
        src, full = shape_source(shape)
        system = build_system({"m": src})
        st = {k: 0 for k in ("objects", "drift", "violations", "superseded_not_listed")}
        before = len(ctx.violations)
        judge_project(ctx, system, "replay", {}, st, [])
        mine = [v for v in ctx.violations[before:] if v.get("invariant") == w["invariant"]]
        bad = bool(mine)
        print(f"replay: project with {full!r}:", "still violated" if bad else "holds now")
    if bad:
        print(f"VIOLATION property=C17 replay={path}")
    ctx.cleanup()
    return 1 if bad else 0
