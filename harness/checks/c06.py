"""
C06 - the result does not depend on the order in which modules are analysed.

spec -> code : Processing.tla : Init chooses any ADMISSIBLE schedule (package before its contents, sub-trees contiguous,
               siblings and roots in any order); TLC explores every schedule of every project of the template families
               (base chains over every import form, star imports, re-exports, import cycles, duplicates, nested
               packages) and prints each terminal state.  The hyper-property "one canonical dump per project over all
               schedules" is evaluated on the model's terminal states (design level) and - the verdict - on the REAL
               builds of the same (project, schedule) pairs, the schedule being imposed the way a rename would impose it.
real packages: repository test packages (and pydoctor's own source in the thorough tier) are built under K random
               admissible schedules; the class hierarchy (bases, linearisation, identified by definition site) must be
               the same in all of them.
"""
from __future__ import annotations

import collections
import json
import random
import shutil
from pathlib import Path
from typing import Any, Dict, List, Tuple

from ..core import Ctx, MachineryError
from ..projects import waiting_modules as P_waiting
from .. import families, procrun
from .. import projects as P
from .c02 import testpackages


def canon_full(dump: Dict[str, Any], multi_sites: Any = ()) -> str:
    """Objects are identified by definition site; the location (registry key) is part of the dump except for objects
    re-exported by SEVERAL modules and their members - the property speaks of 'objects re-exported by a single module'."""
    by_name = {v["name"]: v["site"] for v in dump.values()}
    out = {}
    for k, v in dump.items():
        ident = json.dumps(v["site"]) + ("" if " " not in k.rsplit(".", 1)[-1] else "/superseded:" + k.rsplit(" ", 1)[-1])
        loc = None if (v.get("top_site") and tuple(v["top_site"]) in multi_sites) else k
        out[ident] = [v["cls"], v["kind"], loc, v.get("base_sites", []), [by_name.get(n) for n in v["mro"]]]
    return json.dumps(out, sort_keys=True)


def canon_hier(dump: Dict[str, Any]) -> str:
    """class-hierarchy part only (projects with import cycles): classes identified by definition site."""
    by_name = {v["name"]: v["site"] for v in dump.values()}
    out = {}
    for k, v in dump.items():
        if v["cls"] == "Class":
            out[json.dumps(v["site"])] = [v.get("base_sites"), [by_name.get(n) for n in v["mro"]]]
    return json.dumps(out, sort_keys=True)


def generic_dump(system: Any) -> Dict[str, Any]:
    """Real packages: objects identified by (source file, line)."""
    from pydoctor import model

    def ident(o: Any) -> Any:
        return [str(o.source_path), int(o.linenumber or 0), o.name.split(" ")[0]] if o is not None else None
    out: Dict[str, Any] = {}
    for k, o in system.allobjects.items():
        if isinstance(o, model.Class):
            out[json.dumps(ident(o))] = {"bases": [ident(b) for b in o.baseobjects], "mro": [ident(c) for c in o.mro()],
                                         "rawbases": [s for s, _ in o.rawbases], "key": k}
    return out


def random_rank(rng: random.Random) -> Any:
    memo: Dict[str, float] = {}

    def rank(p: Path) -> Any:
        return memo.setdefault(str(p), rng.random())
    return rank


CFG_DISCOVER = """SPECIFICATION Spec
CONSTRAINT Emit
INVARIANT EveryModuleOnce
INVARIANT PackageFirst
INVARIANT Contiguous
PROPERTY Terminates
"""


def fname(e: Dict[str, Any]) -> str:
    return {"pkg": e["name"], "dir": e["name"], "py": e["name"] + ".py", "dot": "." + e["name"] + ".py", "txt": e["name"] + ".txt"}[e["kind"]]


def random_tree(rng: random.Random) -> Dict[str, Any]:
    """A directory tree for Discover.tla: entries with parent directory, name, kind and sort rank among siblings."""
    entries: List[Dict[str, Any]] = []
    dirs = [0]
    for _ in range(rng.randint(1, 9)):
        par = rng.choice(dirs)
        kind = rng.choice(["pkg", "pkg", "dir", "py", "py", "py", "dot", "txt"])
        name = rng.choice(["a", "b", "a_b", "A", "_p", "zz", "a1"])
        e = {"par": par, "name": name, "kind": kind, "rank": 0}
        if any(x["par"] == par and fname(x) == fname(e) for x in entries):
            continue
        entries.append(e)
        if kind in ("pkg", "dir"):
            dirs.append(len(entries))
    for d in dirs:
        sibs = sorted((i for i, x in enumerate(entries) if x["par"] == d), key=lambda i: fname(entries[i]))
        for r, i in enumerate(sibs):
            entries[i]["rank"] = r
    return {"root": "top", "entries": entries}


def realise_tree(t: Dict[str, Any], base: Path) -> Path:
    root = base / t["root"]
    root.mkdir(parents=True)
    (root / "__init__.py").write_text("")
    paths = {0: root}
    for i, e in enumerate(t["entries"], 1):
        p = paths[e["par"]] / fname(e)
        if e["kind"] in ("pkg", "dir"):
            p.mkdir()
            if e["kind"] == "pkg":
                (p / "__init__.py").write_text("")
            paths[i] = p
        else:
            p.write_text("x = 1\n")
    return root


def discover_phase(ctx: Ctx, rng: random.Random) -> None:
    """Discover.tla: the order in which modules enter the unprocessed list is the sorted traversal, every source file of
    the package tree is discovered once (packages win name clashes), and the resulting schedule is admissible - the
    assumption under which Processing.tla quantifies over schedules.  Every tree is replayed into the real System."""
    from pydoctor import model
    trees = [random_tree(rng) for _ in range(150 if ctx.quick else 1500)]
    f = ctx.scratch / "trees.json"
    f.write_text(json.dumps(trees))
    r = ctx.tlc("Discover", CFG_DISCOVER, workers="auto", env={"TREE_FILE": str(f)}, check=True, timeout=1500)
    ctx.extra["discover"] = {"trees": len(trees), "design_level_violated": r.violated, "mismatches": 0}
    got = {rec["tid"]: rec["mods"] for rec in r.printed}
    for i, t in enumerate(trees, 1):
        d = ctx.scratch / f"tree_{i}"
        root = realise_tree(t, d)
        system = model.System()
        system.options.quietness = 0
        orig = model.System.msg
        model.System.msg = lambda self, *a, **k: None
        try:
            system.systemBuilder(system).addModule(root)
        finally:
            model.System.msg = orig
        real = [{"name": m.fullName().split("."), "pkg": isinstance(m, model.Package)} for m in P_waiting(system)]
        shutil.rmtree(d, ignore_errors=True)
        ctx.traces += 1
        if real != got.get(i):
            ctx.extra["discover"]["mismatches"] += 1
            ctx.drift_note({"what": "discover", "tree": t, "spec": got.get(i), "real": real})
        # the property-level clause on the REAL order: package before contents, sub-trees contiguous, nothing lost or doubled
        names = [tuple(m["name"]) for m in real]
        ok = len(set(names)) == len(names)
        for a, ma in enumerate(real):
            if ma["pkg"]:
                inside = [b for b, mb in enumerate(real) if tuple(mb["name"][:len(ma["name"])]) == tuple(ma["name"]) and b != a]
                ok = ok and all(b > a for b in inside) and (not inside or max(inside) - a == len(inside))
        if not ok:
            ctx.violation({"invariant": "AdmissibleDiscoveryOrder", "origin": {"family": "discover"}, "tree": t, "real": real,
                           "key": "discover:" + json.dumps(real)[:100]})


def kf_base_is_multi_reexported(w: Dict[str, Any]) -> bool:
    """Known finding: a class whose base (written through the defining module's name) is an object re-exported by SEVERAL
    modules resolves that base or not depending on the order (the chain of aliases left by two moves is not followed).
    Matches only when every differing entry differs in base sites / linearisation and every site that appears or
    disappears is a multi-re-exported one."""
    multi = {tuple(x) for x in w.get("multi_sites", [])}
    if not multi or not w.get("diff"):
        return False
    for ident, (a, b) in w["diff"].items():
        d = _hier_delta(a, b)
        if d is None or not d or not d <= multi:
            return False
    return True


def _hier_delta(a: Any, b: Any) -> Any:
    """The definition sites that appear or disappear among the bases / the linearisation of one class between two outcomes; None when
    the two entries differ in anything else.  Entries: [cls, kind, location, bases, mro] (full comparison) or [bases, mro] (projects
    with import cycles: hierarchy only)."""
    if a is None or b is None or len(a) != len(b):
        return None
    if len(a) == 5:
        if a[:3] != b[:3]:
            return None                                    # class / kind / location must agree
        a, b = a[3:], b[3:]
    sa = {tuple(x) for x in (a[0] or []) if x} | {tuple(x) for x in (a[1] or []) if x}
    sb = {tuple(x) for x in (b[0] or []) if x} | {tuple(x) for x in (b[1] or []) if x}
    return sa ^ sb


def kf_alias_chain_then_move(w: Dict[str, Any]) -> bool:
    """Known finding: a base named through two alias hops once its class has been moved by a re-export (`K = C` in the defining
    module, or an import handed on by a third module): find_object follows one hop (repository tests pin it, see C07
    reexporter-renamed-by-its-package), so the base is resolved or not depending on whether the re-exporter is analysed before the
    user.  Matches only the two hand-written projects of that shape, and only when what differs is the class d.D having its base
    (site a.py:1) or none."""
    if w.get("handwritten") not in ("alias-then-move", "from-import-through-a-module-then-move") or w.get("invariant") != "ScheduleIndependent":
        return False
    diff = w.get("diff") or {}
    if set(diff) != {"d.D"}:
        return False
    a, b = diff["d.D"]
    if a is None or b is None:
        return False
    bases = sorted([json.dumps(a.get("bases")), json.dumps(b.get("bases"))])
    same_otherwise = all(a.get(k) == b.get(k) for k in ("cls", "kind", "doc"))
    return same_otherwise and bases == sorted([json.dumps([None]), json.dumps([["a.py", 1, "C"]])])


def kf_star_of_half_analysed_module(w: Dict[str, Any]) -> bool:
    """Known finding: `from M import *` read while M is in the middle of its own analysis (M imports, directly or not, the module
    that star-imports it BEFORE defining some of its names) copies the names bound so far only - as the interpreter does, for which
    the same order of imports ends in a NameError.  Which modules are half-way depends on the schedule, so a class whose base comes
    from such a star import has that base or not.  Matches only when every site that appears or disappears is a definition of a
    module M standing AFTER an import statement of M, and the class that differs lives in a module that star-imports M."""
    proj = w.get("origin", {}).get("project")
    if not proj or not w.get("diff") or w.get("invariant") != "ScheduleIndependentHierarchy":
        return False
    mods = proj["mods"]
    idx = P.module_index_by_qname(proj)
    for ident, (a, b) in w["diff"].items():
        d = _hier_delta(a, b)
        if not d:
            return False
        try:
            mi = json.loads(ident)[0]
        except Exception:
            return False
        starred = set()
        for op in mods[mi - 1]["ops"]:
            if op["k"] == "star":
                q = P.resolve_import_target(proj, mi, op["lvl"], op["m"])
                if q in idx:
                    starred.add(idx[q])
        for (dm, dpc) in d:
            ops = mods[dm - 1]["ops"]
            late = any(o["k"] in ("import", "from", "star") and not o.get("tc") for o in ops[:dpc - 1])
            # the site may also be a class that INHERITS from such a late definition (its linearisation changes with it)
            if not (dm in starred and late) and not any((dm2, dpc2) != (dm, dpc) and dm2 in starred for (dm2, dpc2) in d):
                return False
    return True


def run(ctx: Ctx) -> int:
    rng = random.Random(ctx.seed)
    ctx.register_matcher("base-reexported-by-several-modules", kf_base_is_multi_reexported)
    ctx.register_matcher("star-import-of-a-half-analysed-module", kf_star_of_half_analysed_module)
    ctx.register_matcher("alias-chain-then-move", kf_alias_chain_then_move)
    discover_phase(ctx, rng)
    projs = families.all_projects(ctx.quick)
    # bases that can only be resolved once an import cycle is closed and whose name is rebound further down (hierarchy only)
    projs += [p for p in families.t_c04_cycles() if p["meta"].get("shape") == "cycle-then-rebound"]
    if not ctx.quick:
        projs += [families.random_project(rng, rng.randint(3, 6)) for _ in range(250)]
    projs = [p for p in projs if len(P.schedules(p)) <= 120]
    results = procrun.explore(ctx, projs, liveness=True)
    by: Dict[int, List[Dict[str, Any]]] = collections.defaultdict(list)
    for r in results:
        by[r["pid"]].append(r)
    order_dependent_model = 0
    multi = 0
    for pid, rs in by.items():
        proj = rs[0]["project"]
        if len(rs) > 1:
            multi += 1
        cyclic = bool(proj["meta"].get("cyclic"))
        multi_sites = {tuple(x["site"]) for x in P.expected_reexports(proj, multi=True)}
        canon = canon_hier if cyclic else (lambda d: canon_full(d, multi_sites))
        groups: Dict[str, List[List[int]]] = collections.defaultdict(list)
        for r in rs:
            # a run that aborts documents nothing: "aborted" is an outcome of its own
            crashed = r["real"].get("crashed")
            groups[json.dumps({"aborted": crashed.split(":")[0]}) if crashed else canon(r["real"]["dump"])].append(r["sched"])
        sdumps = {json.dumps(procrun.spec_dump(r["spec"]), sort_keys=True) for r in rs}
        if len(sdumps) > 1 and not cyclic:
            order_dependent_model += 1
        if len(groups) > 1:
            (d1, s1), (d2, s2) = list(groups.items())[:2]
            a, b = json.loads(d1), json.loads(d2)
            diff = {k: [a.get(k), b.get(k)] for k in sorted(set(a) | set(b)) if a.get(k) != b.get(k)}
            ctx.violation({"invariant": "ScheduleIndependent" if not cyclic else "ScheduleIndependentHierarchy",
                           "origin": {"family": proj["family"], **proj["meta"], "project": procrun.strip(proj)},
                           "schedules": [s1[0], s2[0]], "diff": diff, "distinct_outcomes": len(groups),
                           "multi_sites": sorted(list(x) for x in multi_sites),
                           "key": f"sched:{proj['family']}:{json.dumps(proj['meta'], sort_keys=True)[:120]}"})
    ctx.extra["projects"] = len(by)
    ctx.extra["projects_with_several_schedules"] = multi
    ctx.extra["design_level_order_dependent_projects"] = order_dependent_model
    r0 = results[0]
    ctx.sample({"family": r0["project"]["family"], "meta": r0["project"]["meta"],
                "schedules": [r["sched"] for r in by[r0["pid"]]], "outcome_classes": 1})
    # ---- real packages under sampled schedules
    pk = testpackages()
    K = 3 if ctx.quick else 12
    if ctx.quick:
        pk = pk[:10]
    else:
        import pydoctor
        pk = pk + [Path(pydoctor.__file__).parent]
    real_pk = 0
    import shutil
    for p0 in pk:
        # a copy: the package under analysis is the same text for every schedule, also when the tree is edited while the check runs
        p = ctx.scratch / "realpk" / p0.name
        shutil.copytree(p0, p, ignore=shutil.ignore_patterns("__pycache__", "*.pyc"))
        dumps: Dict[str, int] = {}
        first = None
        for k in range(K):
            r = random.Random(ctx.seed * 1000 + k)
            b = P.build_sources(paths=[p], record_states=False, rank=random_rank(r) if k else None)
            ctx.traces += 1
            d = {"aborted": b["crashed"].split(":")[0]} if b["crashed"] else generic_dump(b["system"])
            s = json.dumps(d, sort_keys=True)
            dumps[s] = k
            if first is None:
                first = d
        real_pk += 1
        if len(dumps) > 1:
            (d1, k1), (d2, k2) = list(dumps.items())[:2]
            a, b2 = json.loads(d1), json.loads(d2)
            diff = {k: [a.get(k), b2.get(k)] for k in sorted(set(a) | set(b2)) if a.get(k) != b2.get(k)}
            ctx.violation({"invariant": "ScheduleIndependentHierarchy", "origin": {"family": "realpackage", "shape": p.name},
                           "package": str(p0), "schedule_seeds": [k1, k2], "diff": dict(list(diff.items())[:5]),
                           "key": f"realpkg:{p.name}"})
    # ---- hand-written projects using features outside the statement grammar, every admissible schedule (no model conformance)
    from .. import handwritten
    hw_runs = 0
    for case in handwritten.cases():
        outcomes = handwritten.explore(case, ctx.scratch)
        n_sched = sum(len(v) for v in outcomes.values())
        hw_runs += n_sched
        ctx.traces += n_sched
        if len(outcomes) > 1:
            ks = list(outcomes)
            a, b2 = json.loads(ks[0]), json.loads(ks[1])
            diff = {k: [a.get(k), b2.get(k)] for k in sorted(set(a) | set(b2)) if a.get(k) != b2.get(k)}
            ctx.violation({"invariant": "ScheduleIndependentHierarchy" if case["cyclic"] else "ScheduleIndependent",
                           "origin": {"family": "handwritten", "shape": case["name"]}, "handwritten": case["name"],
                           "schedules": [outcomes[ks[0]][0], outcomes[ks[1]][0]], "diff": dict(list(diff.items())[:6]),
                           "key": "handwritten:" + case["name"]})
    ctx.extra["handwritten_projects"] = len(handwritten.cases())
    ctx.extra["handwritten_builds"] = hw_runs
    ctx.extra["real_packages"] = real_pk
    ctx.extra["schedules_per_real_package"] = K
    # ---- the post-processing step over a history of registrations and passes (PostProc.tla, every history replayed into
    #      PriorityProcessor, a sample into a real System): what runs after the last module does not depend on how it got there
    from .. import postproccheck
    if ctx.quick:
        ctx.extra["postproc"] = postproccheck.run(ctx, 4, [0, 200, 300], [0, 1, 300], 7)
    else:
        ctx.extra["postproc"] = postproccheck.run(ctx, 5, [0, 50, 200, 300], [0, 1, 300], 11)
    # ---- negative control: the comparison notices a changed base
    any_cls = next((r for r in results if any(v["cls"] == "Class" and v["bases"] and v["bases"][0] for v in r["real"]["dump"].values())), None)
    if any_cls is None:
        raise MachineryError("vacuous: no class with bases in any project")
    d = json.loads(json.dumps(any_cls["real"]["dump"]))
    for v in d.values():
        if v["cls"] == "Class" and v["bases"] and v["bases"][0]:
            v["bases"] = [""]
            v["base_sites"] = [None]
            break
    nc = canon_full(d) != canon_full(any_cls["real"]["dump"]) and canon_hier(d) != canon_hier(any_cls["real"]["dump"])
    ctx.extra["negative_control"] = {"changed_base_detected": nc}
    if not nc:
        raise MachineryError("negative control failed")
    ctx.exhaustive = True
    ctx.assumptions += ["the schedule is imposed by shadowing `sorted` inside pydoctor.model (what a rename of the modules would do) and by the order of the roots",
                        "for projects with import cycles and for real packages only the class hierarchy is compared, as the property states",
                        "messages, line numbers and dict insertion order are not part of the canonical dump"]
    return ctx.finish(rule="behaviour = (project, admissible schedule); TLC enumerates every schedule of every template project; "
                           "non-trivial = project with at least two admissible schedules",
                      distinct_nontrivial=sum(len(rs) for rs in by.values() if len(rs) > 1))


def replay(ctx: Ctx, path: str) -> int:
    w = json.load(open(path))
    o = w["origin"]
    bad = False
    if o.get("family") == "postproc":
        from .. import postproccheck
        failed = postproccheck.replay_witness(ctx, o["prekind"], o["history"])
        print("replay:", "still violated: " + ",".join(failed) if failed else "holds now")
        if failed:
            print(f"VIOLATION property=C06 replay={path}")
        ctx.cleanup()
        return 1 if failed else 0
    if w.get("handwritten"):
        from .. import handwritten
        case = next(c for c in handwritten.cases() if c["name"] == w["handwritten"])
        bad = len(handwritten.explore(case, ctx.scratch)) > 1
    elif w.get("invariant") == "AdmissibleDiscoveryOrder":
        from pydoctor import model
        root = realise_tree(w["tree"], ctx.scratch / "replaytree")
        system = model.System()
        system.systemBuilder(system).addModule(root)
        real = [{"name": m.fullName().split("."), "pkg": isinstance(m, model.Package)} for m in P_waiting(system)]
        bad = real == w["real"]
    elif "project" in o:
        proj = {**o["project"], "family": o.get("family", ""), "meta": {"cyclic": o.get("cyclic", False)}}
        ms = {tuple(x["site"]) for x in P.expected_reexports(proj, multi=True)}
        canon = canon_hier if o.get("cyclic") else (lambda d: canon_full(d, ms))
        outs = {canon(P.real_build(proj, s, ctx.scratch)["dump"]) for s in P.schedules(proj)}
        bad = len(outs) > 1
    else:
        outs = set()
        for k in w["schedule_seeds"]:
            r = random.Random(w["seed"] * 1000 + k)
            outs.add(json.dumps(generic_dump(P.build_sources(paths=[Path(w["package"])], record_states=False,
                                                             rank=random_rank(r) if k else None)["system"]), sort_keys=True))
        bad = len(outs) > 1
    print("replay:", "still order dependent" if bad else "holds now")
    if bad:
        print(f"VIOLATION property=C06 replay={path}")
    ctx.cleanup()
    return 1 if bad else 0
