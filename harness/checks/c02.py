"""
C02 - the object model is a coherent tree with a consistent name registry.

spec -> code : TLC explores every (project, admissible schedule) of the template families of Processing.tla
               (registry operators from Registry.tla; RegistryOK evaluated by TLC in every state of every behaviour);
               each behaviour is rebuilt by the real pydoctor with the schedule imposed, the real registry is
               projected after EVERY System.addObject / Documentable.reparent and judged against the registry
               invariants; final state compared with the model's (drift).
code -> spec : registry traces recorded from real builds that do not come from the spec (repository test
               packages, randomly generated modules full of duplicates) are validated by TLC against
               RegistryTrace.tla: every logged step must be exactly AddObj / Reparent of Registry.tla and the
               invariants are evaluated by TLC on every observed state.
Derived relations (MRO shape, subclasses inverse, kinds, page names) are checked on every real final state.
"""
from __future__ import annotations

import json
import random
from pathlib import Path
from typing import Any, Dict, List

from ..core import Ctx, MachineryError, chunks
from .. import families, procrun, pygen
from .. import projects as P

CFG_REG = """SPECIFICATION Spec
CONSTANTS Source = "file"
INVARIANT RegistryInv
"""
CFG_TRACE = """SPECIFICATION Spec
CONSTANT DottedNames <- TraceDotted
CONSTRAINT Monitor
POSTCONDITION Post
"""


ZOPE_PROJECTS = [
    {"zp/__init__.py": "", "zp/i.py": "from zope.interface import Interface\nclass IFoo(Interface):\n    def m(): 'doc'\nclass IBar(IFoo):\n    pass\n",
     "zp/impl.py": "from zope.interface import implementer\nfrom zp.i import IFoo, IBar\n@implementer(IFoo)\nclass Foo:\n    def m(self): pass\n@implementer(IBar, IFoo)\nclass Bar(Foo):\n    pass\n"},
    {"zp/__init__.py": "from zp._i import IFoo\n__all__ = ['IFoo']\n", "zp/_i.py": "from zope.interface import Interface\nclass IFoo(Interface):\n    pass\n",
     "zp/a.py": "from zope.interface import implementer\nfrom zp._i import IFoo\n@implementer(IFoo)\nclass A:\n    pass\n",
     "zp/b.py": "from zope.interface import implementer\nimport zp\n@implementer(zp.IFoo)\nclass B:\n    pass\nclass B:\n    'redefined'\n"},
    # docstring fields naming things that are not variables: a sub-module of the package, a class, a function
    {"zp/__init__.py": "\"\"\"\nPackage.\n\n@var sub: the sub-module\n@type sub: module\n@var Thing: a class\n@var helper: a function\n@var real: a variable\n\"\"\"\nreal = 1\nclass Thing:\n    def m(self): pass\ndef helper(): pass\n",
     "zp/sub.py": "\"\"\"own doc of sub\"\"\"\nclass K:\n    \"\"\"\n    @ivar meth: not a variable\n    @cvar Inner: a nested class\n    \"\"\"\n    def meth(self): pass\n    class Inner: pass\nK.__doc__ = \"\"\"\n@ivar meth: again\n@cvar Inner: again\n\"\"\"\n"},
    # an interface moved by a re-export, named through its ORIGINAL location by several implementers (and two interfaces at once)
    {"zp/__init__.py": "from zp._iface import IPlugin, IOther\n__all__ = ['IPlugin', 'IOther']\n",
     "zp/_iface.py": "from zope.interface import Interface\nclass IPlugin(Interface):\n    def run(): 'doc'\nclass IOther(Interface):\n    pass\n",
     "zp/alpha.py": "from zope.interface import implementer\nfrom zp._iface import IPlugin, IOther\n@implementer(IPlugin)\nclass One:\n    def run(self): pass\n"
                    "@implementer(IOther, IPlugin)\nclass Both:\n    def run(self): pass\n",
     "zp/beta.py": "from zope.interface import implementer\nimport zp._iface\n@implementer(zp._iface.IPlugin)\nclass Three(object):\n    pass\n"},
    # zope.interface.Attribute / schema fields assigned to a name that a def or class of the same scope already took
    {"zp/__init__.py": "", "zp/m.py": "import zope.interface\nfrom zope.interface import Interface, Attribute\nfrom zope import schema\n"
                                      "class I(Interface):\n    def f(): 'doc'\n    f = zope.interface.Attribute('x')\n    class g: pass\n    g = Attribute('y')\n"
                                      "    def h(): pass\n    h = schema.TextLine(description='d')\n    ok = Attribute('fine')\n"},
    # names with a dot in them ('x.setter' for the setter of a property) next to real members of that qualified name
    {"zp/__init__.py": "", "zp/m.py": "class A:\n    class x:\n        @staticmethod\n        def setter(f): return f\n        @staticmethod\n        def deleter(f): return f\n"
                                      "    @x.setter\n    def x(self, v): pass\n"
                                      "class B:\n    class y:\n        def setter(self, f): return f\n    @property\n    def y(self): pass\n    @y.setter\n    def y(self, v): pass\n"
                                      "class C:\n    @property\n    def z(self): pass\n    @z.setter\n    def z(self, v): pass\n    class z:\n        def setter(self): pass\n"},
    # interfaces made by CALLING an InterfaceClass (no class statement), each with its own implementers
    {"zp/__init__.py": "", "zp/i.py": "from zope.interface.interface import InterfaceClass\nfrom zope.interface import Interface\n"
                                      "IOne = InterfaceClass('IOne')\nITwo = InterfaceClass('ITwo', (Interface,))\nclass IThree(Interface):\n    pass\n"
                                      "class MyIC(InterfaceClass):\n    pass\nIFour = MyIC('IFour')\n",
     "zp/impl.py": "from zope.interface import implementer\nfrom zp.i import IOne, ITwo, IThree, IFour\n@implementer(IOne)\nclass A:\n    pass\n@implementer(ITwo)\nclass B:\n    pass\n"
                   "@implementer(IThree, IFour)\nclass C:\n    pass\n"},
    # an instance variable assigned BEFORE and AFTER a method, a property, a nested class of the same name is defined in the class
    {"zp/__init__.py": "", "zp/m.py": "class Channel:\n    def __init__(self):\n        self.send = self._refuse\n        self.mode = 0\n        self.Inner = None\n"
                                      "    def _refuse(self, d): pass\n    def send(self, d):\n        'doc'\n    @property\n    def mode(self):\n        'doc'\n    class Inner:\n        pass\n"
                                      "    def close(self):\n        self.send = self._refuse\n        self.mode = 1\n        self.Inner = 2\n        self.fresh = 3\n"
                                      "class Sub(Channel):\n    def reopen(self):\n        self.send = None\n        self.mode = 2\n        self.Inner = 3\n"},
    # hierarchies Python rejects (no consistent order): the order pydoctor falls back to still names each class once
    {"zp/__init__.py": "", "zp/h.py": "class A: pass\nclass B(A): pass\nclass C(A, B): pass\nclass D(C): pass\n"
                                      "class X(A, B): pass\nclass Y(B, A): pass\nclass Z(X, Y): pass\nclass W(Z, A): pass\n",
     "zp/g.py": "from zp.h import A, B\nfrom zp import h\nclass E(A, h.B): pass\nclass F(E, B, A): pass\n"},
    {"zp/__init__.py": "", "zp/m.py": "from zope.interface import Interface, implements, classImplements, moduleProvides\nclass IM(Interface):\n    pass\nmoduleProvides(IM)\nclass C:\n    implements(IM)\nclass D:\n    pass\nclassImplements(D, IM)\n"},
    # declarations replaced by a later one (implementsOnly / classImplementsOnly), given several times, on a class redefined afterwards
    {"zp/__init__.py": "", "zp/ifaces.py": "from zope.interface import Interface\nclass IA(Interface):\n    'a'\nclass IB(Interface):\n    'b'\nclass IC(IA):\n    'c'\n",
     "zp/impl.py": "from zope.interface import implementer, implementer_only, classImplementsOnly, classImplements, implements, implementsOnly\nfrom zp.ifaces import IA, IB, IC\n"
                   "@implementer(IA)\nclass Old:\n    'declared with the decorator, then re-declared'\nclassImplementsOnly(Old, IB)\n"
                   "@implementer(IA, IB)\nclass Plain:\n    pass\nclassImplements(Plain, IC)\nclassImplements(Plain, IA)\n"
                   "class Body(Plain):\n    implements(IA)\n    implementsOnly(IC)\n"
                   "@implementer(IB)\nclass Sub(Old):\n    pass\nclassImplementsOnly(Sub, IA)\nclassImplementsOnly(Sub, IC)\n"
                   "@implementer(IA)\nclass Twice:\n    pass\nclassImplementsOnly(Twice, IB)\n@implementer(IC)\nclass Twice:\n    'redefined'\n"
                   "@implementer_only(IB)\n@implementer(IA)\nclass Stacked:\n    pass\n"},
    # an import cycle between the module of the base interface and the module that derives from it, declares implementers and
    # provides the interface itself - analysed from either end
    {"zp/__init__.py": "", "zp/ifaces.py": "'The interfaces.'\nimport zp.impl\nfrom zope.interface import Interface\nclass IBase(Interface):\n    'Base.'\n    def load(): 'doc'\n",
     "zp/impl.py": "'The implementation.'\nfrom zope.interface import classImplements, moduleProvides, implementer\nfrom zp.ifaces import IBase\n"
                   "class Plugin:\n    def load(self): pass\nclass IPlugin(IBase):\n    'Derived.'\n    def run(): 'doc'\n"
                   "classImplements(Plugin, IPlugin)\nmoduleProvides(IPlugin)\n@implementer(IPlugin)\nclass Late:\n    pass\n"},
    {"zp/__init__.py": "", "zp/zifaces.py": "'The interfaces.'\nimport zp.impl\nfrom zope.interface import Interface\nclass IBase(Interface):\n    'Base.'\n    def load(): 'doc'\n",
     "zp/impl.py": "'The implementation.'\nfrom zope.interface import classImplements, moduleProvides, implementer\nfrom zp.zifaces import IBase\n"
                   "class Plugin:\n    def load(self): pass\nclass IPlugin(IBase):\n    'Derived.'\n    def run(): 'doc'\n"
                   "classImplements(Plugin, IPlugin)\nmoduleProvides(IPlugin)\n@implementer(IPlugin)\nclass Late:\n    pass\n"},
    # definitions and __doc__ assignments in the body of every kind of function: nothing in there is a child of the function
    {"zp/__init__.py": "", "zp/local.py": "import functools\nfrom typing import overload\n"
        "def plain():\n    class L: \n        def m(self): pass\n    def inner(): pass\n    inner.__doc__ = 'x'\n    v = 1\n"
        "async def coro():\n    class L: pass\n    def inner(): pass\n"
        "def factory(arg):\n    def deco(f):\n        @functools.wraps(f)\n        def wrapper(*a): return f(*a)\n        return wrapper\n    return deco\n"
        "class Registry:\n    'doc'\n"
        "    def method(self):\n        class L: pass\n        def inner(): pass\n"
        "    @classmethod\n    def cm(cls):\n        class L: pass\n        def inner(): pass\n"
        "    @staticmethod\n    def entry(name):\n        class _Entry:\n            def m(self): pass\n            x = 1\n        def finish(): pass\n        finish.__doc__ = 'y'\n        return _Entry\n"
        "    @property\n    def prop(self):\n        class L: pass\n        def inner(): pass\n        return L\n"
        "    @prop.setter\n    def prop(self, v):\n        class L: pass\n"
        "    def old(x):\n        class L: pass\n        def inner(): pass\n    old = staticmethod(old)\n"
        "    def oldc(cls):\n        class L: pass\n    oldc = classmethod(oldc)\n"
        "    @overload\n    def ov(self, a: int) -> int: ...\n    @overload\n    def ov(self, a: str) -> str: ...\n    def ov(self, a):\n        class L: pass\n        def inner(): pass\n"
        "    @functools.lru_cache()\n    def cached(self):\n        class L: pass\n"
        "    async def acoro(self):\n        class L: pass\n        def inner(): pass\n"
        "    class Nested:\n        @staticmethod\n        def deep():\n            class L: pass\n            def inner(): pass\n"},
    # zope things assigned to LOCAL variables (function and method bodies, a function nested in an interface): nothing to document there
    {"zp/__init__.py": "", "zp/core.py": "from zope.interface.interface import InterfaceClass\nfrom zope.interface import Interface, Attribute, implementer\nfrom zope import schema\n"
                                         "class MyInterfaceClass(InterfaceClass):\n    'custom'\nITop = MyInterfaceClass('ITop')\n'a module-level interface'\n"
                                         "def make(name):\n    'factory'\n    ILocal = MyInterfaceClass('ILocal')\n    attr = Attribute('local')\n    field = schema.TextLine(title='t')\n"
                                         "    class IInner(Interface):\n        x = Attribute('x')\n    @implementer(IInner)\n    class Impl:\n        pass\n    return ILocal\n"
                                         "class Registry:\n    'keeps interfaces'\n    IMember = MyInterfaceClass('IMember')\n"
                                         "    def fresh(self):\n        'one more'\n        IFresh = MyInterfaceClass('IFresh')\n        a = Attribute('a')\n        return IFresh\n"
                                         "class IWith(Interface):\n    def m():\n        ILoc = InterfaceClass('ILoc')\n        b = Attribute('b')\n    c = Attribute('c')\n"
                                         "if True:\n    ICond = InterfaceClass('ICond')\nfor _ in ():\n    ILoop = MyInterfaceClass('ILoop')\n"
                                         "async def amake():\n    IAsync = MyInterfaceClass('IAsync')\nlam = lambda: InterfaceClass('ILam')\n"},
]


def c_extension_package(ctx: Ctx) -> Dict[str, int]:
    """A package made of a pure Python module and of compiled extension modules (copies of extension modules of the running
       interpreter's standard library: no compiler needed), documented by introspection (--introspect-c-modules): the registry
       clauses and 'functions directly in classes are methods' hold for what introspection builds as well."""
    import importlib.machinery
    import shutil
    import sys
    import sysconfig
    from pydoctor import model
    dirs = [d for d in [sysconfig.get_config_var("DESTSHARED")] + list(sys.path) if d and Path(d).is_dir()]
    found: Dict[str, str] = {}
    for name in ("_struct", "_random", "array", "_csv", "_bisect", "_heapq", "_json", "math", "zlib"):
        for d in dirs:
            for suffix in importlib.machinery.EXTENSION_SUFFIXES:
                f = Path(d) / (name + suffix)
                if f.is_file() and name not in found:
                    found[name] = str(f)
    stats = {"extension_modules": len(found), "objects": 0, "functions_in_classes": 0}
    if not found:
        return stats
    pk = ctx.scratch / "cext" / "fastlib"
    pk.mkdir(parents=True)
    (pk / "__init__.py").write_text("'pure part'\n")
    (pk / "pure.py").write_text("class P:\n    def m(self): pass\ndef f(): pass\n")
    for name, src in found.items():
        shutil.copy(src, pk / Path(src).name)
    system = model.System()
    system.options.introspect_c_modules = True
    orig = model.System.msg
    model.System.msg = lambda self, *a, **k: None
    crashed = ""
    try:
        b = system.systemBuilder(system)
        b.addModule(pk)
        try:
            b.buildModules()
        except Exception as e:
            crashed = f"{type(e).__name__}: {e}"
    finally:
        model.System.msg = orig
    origin = {"family": "c-extension", "shape": ",".join(sorted(found))}
    if crashed:
        ctx.violation({"invariant": "NoCrash", "origin": origin, "exc": crashed, "key": "cext-crash:" + crashed[:60]})
        return stats
    stats["objects"] = len(system.allobjects)
    stats["functions_in_classes"] = sum(1 for o in system.allobjects.values() if isinstance(o, model.Function) and isinstance(o.parent, model.Class))
    for d in P.derived_relations(system):
        ctx.violation({"invariant": d.split(":")[0], "detail": d, "origin": origin, "key": f"derived:{d.split(':')[0]}:cext"})
    for k, o in system.allobjects.items():
        if o.fullName() != k or (o.parent is not None and o.parent.contents.get(o.name) is not o and " " not in o.name):
            ctx.violation({"invariant": "KeysAreCurrentNames", "detail": k, "origin": origin, "key": "cext-keys"})
            break
    ctx.traces += 1
    return stats


def testpackages() -> List[Path]:
    import pydoctor
    base = Path(pydoctor.__file__).parent / "test" / "testpackages"
    return sorted(p for p in base.iterdir() if p.is_dir() and (p / "__init__.py").exists())


def judge_events(ctx: Ctx, events: List[Dict[str, Any]], origin: Dict[str, Any]) -> int:
    n = 0
    for i, e in enumerate(events):
        if e["s"] is None:
            continue
        if e["exc"]:
            ctx.violation({"invariant": "NoCrash", "origin": origin, "event": i, "action": e["a"], "exc": e["exc"],
                           "key": f"crash:{e['a']}:{e['exc']}:{origin.get('family')}:{origin.get('shape')}"})
            n += 1
            continue
        bad = P.registry_invariants(e["s"])
        if bad:
            ctx.violation({"invariant": bad[0], "failed": bad, "origin": origin, "event": i, "action": e["a"],
                           "state": e["s"], "key": f"{bad}:{e['a']}:{origin.get('family')}:{origin.get('shape')}"})
            n += 1
            break
    return n


def trace_of(rec: P.Recorder) -> Dict[str, Any]:
    return {"ev": [{"a": e["a"], "o": e["o"], "m": e["m"], "n": e["n"], "nm": e["nm"], "exc": e["exc"], "s": e["s"]}
                   for e in rec.events]}


def dotted_file(ctx: Ctx, traces: List[Dict[str, Any]], tag: str) -> Path:
    """The names with a dot in them ('x.setter') that occur in the traces -> their parts: System.allobjects is keyed by strings,
    so such a name contributes several components to a key (DottedNames of Registry.tla; TLA+ cannot split a string)."""
    table: Dict[str, List[str]] = {"__none__": ["__none__"]}
    for t in traces:
        for e in t["ev"]:
            for o in (e["s"] or {}).get("objs", []):
                if "." in o["nm"]["b"]:
                    table[o["nm"]["b"]] = o["nm"]["b"].split(".")
            if isinstance(e.get("nm"), str) and "." in e["nm"]:
                table[e["nm"]] = e["nm"].split(".")
    f = ctx.scratch / f"dotted_{tag}.json"
    f.write_text(json.dumps(table))
    ctx.extra["dotted_names_in_traces"] = sorted(set(ctx.extra.get("dotted_names_in_traces", [])) | (set(table) - {"__none__"}))
    return f


def validate_traces(ctx: Ctx, traces: List[Dict[str, Any]], origins: List[Dict[str, Any]]) -> Dict[str, int]:
    stats = {"accepted": 0, "rejected": 0, "tlc_invariant_hits": 0}
    for off, batch in enumerate(chunks(list(zip(traces, origins)), 150)):
        f = ctx.scratch / f"traces_{off}.json"
        f.write_text(json.dumps([t for t, _ in batch]))
        df = dotted_file(ctx, [t for t, _ in batch], str(off))
        r = ctx.tlc("RegistryTrace", CFG_TRACE, workers=1, env={"TRACE_FILE": str(f), "DOTTED_FILE": str(df)}, check=True, timeout=1500)
        if not r.printed:
            raise MachineryError("RegistryTrace: no postcondition output")
        out = r.printed[-1]
        acc = set(out["accepted"])
        prog = {p["tid"]: p["l"] for p in out["progress"]}
        for i, (t, o) in enumerate(batch, 1):
            ctx.traces += 1
            if i in acc:
                stats["accepted"] += 1
            else:
                stats["rejected"] += 1
                at = prog.get(i, 0)
                ctx.drift_note({"what": "trace rejected by RegistryTrace.tla", "origin": o, "matched_prefix": at,
                                "next_event": {k: v for k, v in t["ev"][at].items() if k != "s"} if at < len(t["ev"]) else None})
        for v in out["violations"]:
            stats["tlc_invariant_hits"] += 1
            t, o = batch[v["tid"] - 1]
            ctx.violation({"invariant": v["failed"][0], "failed": v["failed"], "judge": "TLC on observed state",
                           "origin": o, "event": v["ev"] - 1, "state": t["ev"][v["ev"] - 1]["s"],
                           "key": f"{sorted(v['failed'])}:{t['ev'][v['ev'] - 1]['a']}:{o.get('family')}:{o.get('shape')}"})
    return stats


CFG_API = """SPECIFICATION Spec
CONSTANTS MaxObj = {n}
  Names = {names}
  MaxHist = {n}
  DottedNames <- MCDotted
VIEW View
ACTION_CONSTRAINT EmitEdge
INVARIANT RegistryInv
"""


def replay_api_history(h: List[Dict[str, Any]]) -> Dict[str, Any]:
    """One TLC history of RegistryMC.tla through the real System with fresh Documentables."""
    from pydoctor import model
    system = model.System()
    system.options.quietness = 0
    orig = model.System.msg
    model.System.msg = lambda self, *a, **k: None
    objs: List[Any] = []
    crash = ""
    try:
        for a in h:
            try:
                if a["a"] == "add":
                    cls = {"Package": model.Package, "Module": model.Module, "Class": system.Class,
                           "Function": system.Function, "Attribute": system.Attribute}[a["c"]]
                    o = cls(system, a["n"], objs[a["p"] - 1] if a["p"] else None)
                    if a["p"] and not isinstance(o, model.Module):
                        o.parentMod = objs[a["p"] - 1].parentMod if not isinstance(objs[a["p"] - 1], model.Module) else objs[a["p"] - 1]
                    elif isinstance(o, model.Module):
                        o.parentMod = o
                    objs.append(o)
                    system.addObject(o)
                else:
                    objs[a["o"] - 1].reparent(objs[a["p"] - 1], a["n"])
            except Exception as e:
                crash = f"{type(e).__name__}: {e}"
                break
    finally:
        model.System.msg = orig
    ids = {id(o): i + 1 for i, o in enumerate(objs)}
    return {"crash": crash,
            "objs": [{"cls": type(o).__name__, "nm": P.comp(o.name), "par": ids.get(id(o.parent), 0) if o.parent is not None else 0} for o in objs],
            "keys": sorted(((P.qn(k), ids.get(id(v), 0)) for k, v in system.allobjects.items()), key=lambda t: json.dumps(t, sort_keys=True)),
            "system": system, "objlist": objs}


def api_level(ctx: Ctx) -> None:
    """Registry as a free-standing machine (any legal addObject / reparent): one history per transition of the
    reachable graph, replayed through the real System.  Conformance only (such histories need not be producible
    by analysing source): differences are drift, invariant failures on the real state are recorded, not alarms."""
    # names with a dot in them (the setter of a property): (C, "a.b") and (C.a, "b") are one key of the string-keyed registry;
    # the smallest collision needs five objects, so a second configuration over {"a", "a.a"} reaches it in the quick tier too
    configs = [(4, '{"a", "b", "a.b"}'), (5, '{"a", "a.a"}')] if ctx.quick else [(5, '{"a", "b", "a.b"}'), (5, '{"a", "a.a"}')]
    mism = inv_fail = total = collisions = 0
    design = "holds"
    for n, names in configs:
        r = ctx.tlc("RegistryMC", CFG_API.format(n=n, names=names), workers="auto", check=True, timeout=2400)
        if r.violated:
            design = "VIOLATED"
        edges = r.printed
        if not ctx.quick:
            edges = edges[:: max(1, len(edges) // 60000)]
        total += len(edges)
        for e in edges:
            real = replay_api_history(e["h"])
            ctx.traces += 1
            spec_keys = sorted((([dict(c) for c in k["k"]], k["o"]) for k in e["keys"]), key=lambda t: json.dumps(t, sort_keys=True))
            spec_objs = [{"cls": o["cls"], "nm": o["nm"], "par": o["par"]} for o in e["objs"]]
            real_cls = [{**o, "cls": {"ZopeInterfaceClass": "Class", "ZopeInterfaceFunction": "Function",
                                      "ZopeInterfaceAttribute": "Attribute"}.get(o["cls"], o["cls"])} for o in real["objs"]]
            if any("." in o["nm"]["b"] and o["nm"]["d"] > 0 for o in spec_objs):
                collisions += 1         # a dotted name was superseded (or superseded something): the string keys collided
            if bool(real["crash"]) != e["crash"] or (not e["crash"] and (real_cls != spec_objs or
                                                                         [[k, o] for k, o in real["keys"]] != [[k, o] for k, o in spec_keys])):
                mism += 1
                ctx.drift_note({"what": "api-level", "history": e["h"], "spec_crash": e["crash"], "real_crash": real["crash"]})
            if not real["crash"]:
                st = {"objs": real["objs"], "cont": [[[nm, next(i + 1 for i, x in enumerate(real["objlist"]) if x is c)] for nm, c in o.contents.items()] for o in real["objlist"]],
                      "all": [[k, o] for k, o in real["keys"]], "roots": [next(i + 1 for i, x in enumerate(real["objlist"]) if x is ro) for ro in real["system"].rootobjects]}
                if P.registry_invariants(st):
                    inv_fail += 1
    ctx.extra["api_level"] = {"configurations": [{"MaxObj": n, "Names": names} for n, names in configs], "transitions_replayed": total, "mismatches": mism,
                              "histories_with_a_superseded_dotted_name": collisions,
                              "design_level_RegistryInv": design,
                              "real_states_failing_an_invariant_(not_a_verdict)": inv_fail}


def run(ctx: Ctx) -> int:
    rng = random.Random(ctx.seed)
    api_level(ctx)
    projs = families.all_projects(ctx.quick)
    if not ctx.quick:
        projs += [families.random_project(rng, rng.randint(3, 5)) for _ in range(150)]
    # ---- design level: RegistryOK in every state of every behaviour
    pf = ctx.scratch / "projects_inv.json"
    pf.write_text(json.dumps([procrun.strip(p) for p in projs]))
    # (no -coverage here: TLC's coverage pass does not come back from the start-up of this module since Processing.tla has the
    #  BeforeMove action - the per-action counts are taken from the emitted behaviours instead: the log of every behaviour names its steps)
    r = ctx.tlc("Processing", CFG_REG, workers="auto", env={"PROJECT_FILE": str(pf)}, check=True, coverage=False)
    ctx.extra["design_level"] = {"RegistryInv": "holds in every state" if not r.violated else "VIOLATED in the model",
                                 "states": r.distinct}
    if r.coverage:
        ctx.extra["actions_never_taken"] = [a for a, c in r.coverage.items() if c == 0 and a.startswith(("Exec", "Pick", "OnDemand", "Finish", "Post"))]
    # ---- spec -> code
    results = procrun.explore(ctx, projs, record_states=True, liveness=False)
    traces: List[Dict[str, Any]] = []
    origins: List[Dict[str, Any]] = []
    for res in results:
        origin = {"family": res["project"]["family"], **res["project"]["meta"], "sched": res["sched"],
                  "project": procrun.strip(res["project"])}
        judge_events(ctx, res["real"]["rec"].events, origin)
        if res["real"]["crashed"]:
            ctx.violation({"invariant": "NoCrash", "origin": origin, "exc": res["real"]["crashed"],
                           "key": f"crash:{res['real']['crashed'][:60]}"})
        for d in P.derived_relations(res["real"]["system"], res["real"]["msgs"]):
            ctx.violation({"invariant": d.split(":")[0], "detail": d, "origin": origin,
                           "key": f"derived:{d.split(':')[0]}:{origin.get('family')}"})
        if len(traces) < (80 if ctx.quick else 400):
            traces.append(trace_of(res["real"]["rec"]))
            origins.append({k: v for k, v in origin.items() if k != "project"})
    ctx.sample({"family": results[0]["project"]["family"], "sched": results[0]["sched"],
                "registry_actions": [[e["a"], e["o"], e["nm"] or e["n"]] for e in results[0]["real"]["rec"].events]})
    # ---- code -> spec: executions that do not come from the spec
    pk = testpackages()
    for p in pk:
        b = P.build_sources(paths=[p])
        origin = {"family": "testpackage", "shape": p.name}
        judge_events(ctx, b["rec"].events, origin)
        for d in P.derived_relations(b["system"], b["msgs"]):
            ctx.violation({"invariant": d.split(":")[0], "detail": d, "origin": origin, "key": f"derived:{d}"})
        if len(b["rec"].events) <= 120:
            traces.append(trace_of(b["rec"]))
            origins.append(origin)
    # the same packages documented with a --privacy rule that hides part of the objects: what is shown must not change what is related
    from pydoctor import model as _model
    hidden_rules = [[(_model.PrivacyClass.HIDDEN, "*.[A-Ma-m_]*")], [(_model.PrivacyClass.HIDDEN, "*.[N-Zn-z]*"), (_model.PrivacyClass.PRIVATE, "*.[A-F]*")]]
    nopt = 0
    for p in pk:
        for rules in hidden_rules:
            b = P.build_sources(paths=[p], record_states=False, options={"privacy": rules})
            nopt += 1
            origin = {"family": "testpackage+privacy", "shape": p.name, "privacy": [[r[0].name, r[1]] for r in rules]}
            if b["crashed"]:
                ctx.violation({"invariant": "NoCrash", "origin": origin, "exc": b["crashed"], "key": "privacy-crash:" + b["crashed"][:60]})
                continue
            for d in P.registry_invariants(b["rec"].project()) + P.derived_relations(b["system"], b["msgs"]):
                ctx.violation({"invariant": d.split(":")[0], "detail": d, "origin": origin, "key": f"derived+privacy:{d.split(':')[0]}:{p.name}"})
    ctx.extra["builds_with_a_privacy_rule"] = nopt
    # zope.interface back-references, including an interface moved by a re-export and named by its old location
    for zi, files in enumerate(ZOPE_PROJECTS):
        d = ctx.scratch / f"zope{zi}"
        for rel, text in files.items():
            f = d / rel
            f.parent.mkdir(parents=True, exist_ok=True)
            f.write_text(text)
        b = P.build_sources(paths=[d / "zp"])
        origin = {"family": "zope", "shape": f"zope{zi}", "files": files}
        judge_events(ctx, b["rec"].events, origin)
        rel = P.derived_relations(b["system"], b["msgs"])
        for rules in hidden_rules:
            bp = P.build_sources(paths=[d / "zp"], record_states=False, options={"privacy": rules})
            ctx.extra["builds_with_a_privacy_rule"] += 1
            rel += [x for x in (["NoCrash:" + bp["crashed"]] if bp["crashed"] else P.derived_relations(bp["system"], bp["msgs"])) if x not in rel]
        n_impl = sum(len(getattr(o, "implementedby_directly", []) or []) for o in b["system"].allobjects.values())
        ctx.extra.setdefault("zope_implementedby_edges", 0)
        ctx.extra["zope_implementedby_edges"] += n_impl
        for dd in rel:
            ctx.violation({"invariant": dd.split(":")[0], "detail": dd, "origin": origin, "key": f"derived:{dd.split(':')[0]}:zope{zi}"})
        traces.append(trace_of(b["rec"]))
        origins.append({"family": "zope", "shape": f"zope{zi}"})
    # ---- the hand-written seams of C01 are projects too: the tree they leave behind is judged like any other
    import os
    from .. import adversarial, adversarial2, adversarial3, adversarial4
    heavy = {"flat-sum-5000", "attribute-chain-3000", "unary-minus-2000", "import-chain-150", "long-docstring-200k", "nested-parens-150", "nested-lists-90"}
    adv_n = 0
    for c in adversarial.cases() + adversarial2.cases2() + adversarial3.cases3() + adversarial4.cases4():
        if c["name"] in heavy:
            continue
        d = ctx.scratch / f"adv_{adv_n}"
        adv_n += 1
        for rel, content in c["files"].items():
            f = d / rel
            f.parent.mkdir(parents=True, exist_ok=True)
            if isinstance(content, dict) and "symlink" in content:
                os.symlink(content["symlink"], f)
            elif isinstance(content, str):
                f.write_text(content, encoding="utf-8", errors="surrogateescape")
            else:
                f.write_bytes(bytes(content))
        b = P.build_sources(paths=[d / r for r in c["roots"]])
        origin = {"family": "adversarial", "shape": c["name"]}
        if b["crashed"]:
            continue                    # an aborted analysis is C01's verdict, not a tree to judge
        judge_events(ctx, b["rec"].events, origin)
        for dd in P.derived_relations(b["system"], b["msgs"]):
            ctx.violation({"invariant": dd.split(":")[0], "detail": dd, "origin": origin, "key": f"derived:{dd.split(':')[0]}:adv:{c['name']}"})
    ctx.extra["adversarial_projects_judged"] = adv_n
    nrand = 40 if ctx.quick else 400
    for i in range(nrand):
        src = pygen.gen_module(rng, depth=3, max_stmts=4)
        b = P.build_sources(texts=[("m", src)])
        origin = {"family": "pygen", "shape": f"seed{ctx.seed}#{i}", "source": src}
        judge_events(ctx, b["rec"].events, origin)
        for d in P.derived_relations(b["system"], b["msgs"]):
            ctx.violation({"invariant": d.split(":")[0], "detail": d, "origin": origin, "key": f"derived:{d.split(':')[0]}:pygen"})
        if len(b["rec"].events) <= 60:
            traces.append(trace_of(b["rec"]))
            origins.append({k: v for k, v in origin.items()})
    ctx.extra["c_extension_package"] = c_extension_package(ctx)
    # ---- several paths on one command line, name clashes between them (Roots.tla, every sequence replayed)
    from .. import rootscheck
    ctx.extra["roots"] = rootscheck.run(ctx, 2 if ctx.quick else 3, ["a", "b"])
    if ctx.quick:
        one = rootscheck.run(ctx, 3, ["a"])        # three paths fighting for one name
        ctx.extra["roots"] = {k: v + one[k] for k, v in ctx.extra["roots"].items()}
    stats = validate_traces(ctx, traces, origins)
    ctx.extra["trace_validation"] = stats
    # ---- negative control: corrupt one recorded key -> must be rejected and flagged
    import copy
    bad = copy.deepcopy(traces[0])
    last = bad["ev"][-1]["s"]
    last["all"][-1][0][-1]["b"] = "CORRUPT"
    f = ctx.scratch / "neg.json"
    f.write_text(json.dumps([bad]))
    rn = ctx.tlc("RegistryTrace", CFG_TRACE, workers=1, env={"TRACE_FILE": str(f), "DOTTED_FILE": str(dotted_file(ctx, [bad], "neg"))}, check=True, count=False)
    outn = rn.printed[-1]
    nc = {"rejected": 1 not in outn["accepted"], "python_twin_flags": bool(P.registry_invariants(last))}
    ctx.extra["negative_control"] = nc
    if not all(nc.values()):
        raise MachineryError(f"negative control failed: {nc}")
    ctx.exhaustive = ctx.quick is False or True
    ctx.assumptions += [
        "histories are those analysis of a project can produce (template families x every admissible schedule, "
        "repository test packages, random modules); arbitrary API call sequences are not quantified over",
        "'implemented by' / 'implements' (zope.interface) back-references are exercised only through the repository test packages",
    ]
    return ctx.finish(
        rule="behaviour = (project, admissible schedule) enumerated by TLC and rebuilt by the real pydoctor with the registry "
             "projected after every addObject/reparent; plus recorded registry traces of test packages and random modules "
             "validated step by step by TLC; non-trivial = contains a duplicate, a move or an import",
        distinct_nontrivial=len(results) + stats["accepted"])


def replay(ctx: Ctx, path: str) -> int:
    w = json.load(open(path))
    o = w.get("origin", {})
    bad: List[str] = []
    if "project" in o:
        real = P.real_build({**o["project"], "family": "", "meta": {}}, o["sched"], ctx.scratch, record_states=True)
        for e in real["rec"].events:
            bad += P.registry_invariants(e["s"]) if not e["exc"] else ["NoCrash"]
        bad += P.derived_relations(real["system"], real["msgs"])
    elif o.get("family") in ("zope", "testpackage", "testpackage+privacy"):
        from pydoctor import model as _model
        if o["family"] == "zope":
            d = ctx.scratch / "zope_replay"
            for rel, text in o["files"].items():
                (d / rel).parent.mkdir(parents=True, exist_ok=True)
                (d / rel).write_text(text)
            paths = [d / "zp"]
        else:
            paths = [p for p in testpackages() if p.name == o["shape"]]
        variants: List[Any] = [None] if o["family"] != "zope" else [None, [["HIDDEN", "*.[A-Ma-m_]*"]], [["HIDDEN", "*.[N-Zn-z]*"], ["PRIVATE", "*.[A-F]*"]]]
        if o.get("privacy"):
            variants = [o["privacy"]]
        for rules in variants:
            opts = {"privacy": [(_model.PrivacyClass[k], pat) for k, pat in rules]} if rules else None
            b = P.build_sources(paths=paths, options=opts)
            for e in b["rec"].events:
                bad += P.registry_invariants(e["s"]) if not e["exc"] else ["NoCrash"]
            bad += ["NoCrash"] if b["crashed"] else P.derived_relations(b["system"], b["msgs"])
    elif "source" in o:
        b = P.build_sources(texts=[("m", o["source"])])
        for e in b["rec"].events:
            bad += P.registry_invariants(e["s"]) if not e["exc"] else ["NoCrash"]
        bad += P.derived_relations(b["system"], b["msgs"])
    print("replay:", "still violated: " + ",".join(sorted(set(bad))) if bad else "holds now")
    if bad:
        print(f"VIOLATION property=C02 replay={path}")
    ctx.cleanup()
    return 1 if bad else 0
