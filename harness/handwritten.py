"""
Hand-written projects for C06 that use features outside the statement grammar of Processing.tla (docformat inheritance,
docstring fields creating attributes, __doc__ assignment, zope interfaces, star imports inside cycles).  They are built
by the real pydoctor under EVERY admissible schedule (Python twin of `Orders` in Processing.tla, applied to the directory
tree) and the generic dumps are compared.  No model conformance here: the spec does not cover these features.
"""
from __future__ import annotations

import itertools
import json
from pathlib import Path
from typing import Any, Dict, Iterator, List, Sequence, Tuple

from . import projects as P


def hw(name: str, files: Dict[str, str], roots: Sequence[str], cyclic: bool = False) -> Dict[str, Any]:
    return {"name": name, "files": files, "roots": list(roots), "cyclic": cyclic}


def cases() -> List[Dict[str, Any]]:
    out = []
    # docformat of a sub-package whose __init__ is bypassed by an on-demand import from another root
    out.append(hw("subpackage-docformat-bypassed", {
        "app.py": "from pkg.sub.mod import K\nclass User(K):\n    pass\n",
        "pkg/__init__.py": "",
        "pkg/sub/__init__.py": "__docformat__ = 'restructuredtext'\n",
        "pkg/sub/mod.py": "class K:\n    '''\n    Summary.\n\n    :ivar x: an instance variable\n    :cvar y: a class variable\n    '''\n    def m(self):\n        '''\n        :param a: A\n        '''\n",
    }, ["app.py", "pkg"]))
    for how, stmt in (("star", "from pkg.sub.mod import *\nclass User(K):\n    pass\n"), ("plain-import", "import pkg.sub.mod\nclass User(pkg.sub.mod.K):\n    pass\n"),
                      ("from-package", "from pkg.sub import mod\nclass User(mod.K):\n    pass\n")):
        out.append(hw("subpackage-docformat-bypassed-" + how, {
            "app.py": stmt,
            "pkg/__init__.py": "",
            "pkg/sub/__init__.py": "__docformat__ = 'restructuredtext'\n",
            "pkg/sub/mod.py": "class K:\n    '''\n    Summary.\n\n    :ivar x: an instance variable\n    :cvar y: a class variable\n    '''\n    def m(self):\n        '''\n        :param a: A\n        '''\n",
        }, ["app.py", "pkg"]))
    # package docformat, module imported before its package by a sibling root
    out.append(hw("package-docformat-bypassed", {
        "aaa.py": "import zzz.inner\nfrom zzz.inner import K\n",
        "zzz/__init__.py": "__docformat__ = 'restructuredtext en'\n",
        "zzz/inner.py": "class K:\n    '''\n    :ivar x: doc\n    '''\n",
    }, ["aaa.py", "zzz"]))
    # __doc__ assignment through a plain import that does not force the target to be analysed
    out.append(hw("doc-assignment-plain-import", {
        "pk/__init__.py": "",
        "pk/a.py": "import pk.z\npk.z.Z.__doc__ = 'set from a'\npk.z.f.__doc__ = 'f set from a'\n",
        "pk/z.py": "class Z:\n    'own'\ndef f():\n    'own f'\n",
    }, ["pk"]))
    # the same through 'from pk import z' (a sub-module imported as a name of its package), from a module sorting before / after it
    for user in ("a_jobs", "zz_jobs"):
        out.append(hw("submodule-imported-from-package-" + user, {
            "pk/__init__.py": "",
            f"pk/{user}.py": ("from pk import tools\nfrom zope.interface import Interface\ndef traced(f): return f\n"
                              "tools.helper.__doc__ = 'set from the user module'\n"
                              "class IJob(tools.IBase):\n    def run():\n        'doc'\n"
                              "class Job(tools.Base):\n    run = traced(tools.Base.run)\n"),
            "pk/tools.py": "from zope.interface import Interface\nclass IBase(Interface):\n    pass\nclass Base:\n    def run(self):\n        'doc'\ndef helper():\n    'own'\n",
        }, ["pk"]))
    out.append(hw("submodule-imported-from-package-root-first", {
        "jobs.py": "from pk import tools\ntools.helper.__doc__ = 'set from a root module'\nclass Job(tools.Base):\n    run = staticmethod(tools.Base.run)\n",
        "pk/__init__.py": "", "pk/tools.py": "class Base:\n    def run(self):\n        'doc'\ndef helper():\n    'own'\n"}, ["jobs.py", "pk"]))
    # three root modules: the base is re-exported by api; the subclass re-binds the name of an inherited method
    out.append(hw("moved-base-rebound-method-roots", {
        "impl.py": "class X:\n    def meth(self):\n        'doc'\n",
        "api.py": "from impl import X\n__all__ = ['X']\n",
        "user.py": "from impl import X\nclass Y(X):\n    meth = 3\n    other = 4\n"}, ["impl.py", "api.py", "user.py"]))
    # zope interface named through a plain import
    out.append(hw("zope-plain-import", {
        "pk/__init__.py": "",
        "pk/impl.py": "from zope.interface import implementer\nimport pk.zi\n@implementer(pk.zi.IFoo)\nclass Foo:\n    def m(self): pass\n",
        "pk/zi.py": "from zope.interface import Interface\nclass IFoo(Interface):\n    def m():\n        'interface doc'\n",
    }, ["pk"]))
    # star import inside an import cycle feeding a base class
    out.append(hw("star-import-in-cycle", {
        "pk/__init__.py": "",
        "pk/a.py": "from .b import *\nclass A(B):\n    pass\n",
        "pk/b.py": "class B:\n    pass\nfrom .a import *\nclass B2(B):\n    pass\n",
    }, ["pk"], cyclic=True))
    # the base class was moved by a re-export before / after the subclass is visited: consumers of the bases at visit time
    out.append(hw("moved-base-wrapped-method", {
        "pk/__init__.py": "from ._impl import B\n__all__ = ['B']\n",
        "pk/_impl.py": "class B:\n    def run(self):\n        'doc'\n",
        "pk/auser.py": "from pk._impl import B\ndef deco(f): return f\nclass D(B):\n    run = deco(B.run)\n",
        "other.py": "from pk._impl import B\ndef deco(f): return f\nclass E(B):\n    run = deco(B.run)\n"}, ["other.py", "pk"]))
    out.append(hw("moved-base-zope-interface", {
        "zk/__init__.py": "from ._i import IBase\n__all__ = ['IBase']\n",
        "zk/_i.py": "from zope.interface import Interface\nclass IBase(Interface):\n    def m():\n        'doc'\n",
        "zk/asub.py": "from zk._i import IBase\nclass ISub(IBase):\n    def n():\n        'doc'\n",
        "zother.py": "from zk._i import IBase\nclass IOther(IBase):\n    pass\n"}, ["zother.py", "zk"]))
    # the same with a SIBLING module as the re-exporter (analysed before or after the modules that name the old location); an
    # InterfaceClass subclass and a schema field class re-exported too
    out.append(hw("moved-zope-things-sibling-reexporter", {
        "zk/__init__.py": "",
        "zk/ibase.py": ("from zope.interface import Interface\nfrom zope.interface.interface import InterfaceClass\nfrom zope import schema\n"
                        "class IBase(Interface):\n    def m():\n        'doc'\nclass MyIC(InterfaceClass):\n    pass\nclass MyField(schema.TextLine):\n    pass\n"),
        "zk/mapi.py": "from zk.ibase import IBase, MyIC, MyField\n__all__ = ['IBase', 'MyIC', 'MyField']\n",
        "zk/asub.py": "from zk.ibase import IBase, MyIC, MyField\nclass ISub(IBase):\n    title = MyField(description='d')\nIMade = MyIC('IMade')\n",
        "zk/zsub.py": "from zk.ibase import IBase, MyIC, MyField\nclass ISub2(IBase):\n    title = MyField(description='d')\nIMade2 = MyIC('IMade2')\n"}, ["zk"]))
    # a stand-alone module and a package of the same name on one command line (the package wins in either order), the package
    # re-exporting a class that a third root names through its defining module
    out.append(hw("module-and-package-of-one-name", {
        "legacy/shapes.py": "class Old:\n    pass\n",
        "src/shapes/__init__.py": "from ._impl import Shape\n__all__ = ['Shape']\n",
        "src/shapes/_impl.py": "class Shape:\n    def area(self):\n        'doc'\n",
        "drawing.py": "from shapes._impl import Shape\nclass Circle(Shape):\n    pass\n"}, ["legacy/shapes.py", "src/shapes", "drawing.py"]))
    # order dependences found by a seeding agent (round 11) on the unchanged tree
    out.append(hw("doc-assignment-to-a-moved-function", {
        "impl.py": "def f():\n    'old'\nclass K:\n    'old K'\n", "api.py": "from impl import f, K\n__all__ = ['f', 'K']\n",
        "user.py": "from impl import f, K\nf.__doc__ = 'new'\nK.__doc__ = 'new K'\n"}, ["api.py", "impl.py", "user.py"]))
    out.append(hw("subpackage-renamed-then-named-by-its-old-path", {
        "pkg/__init__.py": "from . import impl as vendor\n__all__ = ['vendor']\n", "pkg/impl/__init__.py": "",
        "pkg/impl/six.py": "class Base:\n    def meth(self): pass\n",
        "pkg/a_sib.py": "from .impl.six import Base\nclass D(Base):\n    meth = 3\n",
        "pkg/z_sib.py": "from pkg.impl.six import Base\nclass E(Base):\n    meth = 3\n"}, ["pkg"]))
    out.append(hw("star-import-of-a-package-listing-a-submodule", {
        "pkg/__init__.py": "__all__ = ['sub']\n", "pkg/sub.py": "class Base:\n    def meth(self): pass\n",
        "a_user.py": "from pkg import *\nclass D(sub.Base):\n    meth = 3\n",
        "z_user.py": "from pkg import *\nclass E(sub.Base):\n    meth = 3\n"}, ["a_user.py", "pkg", "z_user.py"]))
    # a file that does not parse, reached first through an import or first by the main loop
    out.append(hw("unparsable-module-imported", {
        "pk/__init__.py": "", "pk/atool.py": "from pk import legacy\nclass A:\n    pass\n", "pk/ztool.py": "from pk import legacy\nclass Z:\n    pass\n",
        "pk/legacy.py": "print 'hello'\n"}, ["pk"]))
    out.append(hw("unparsable-root-imported", {"tool.py": "import legacy\nclass T:\n    pass\n", "legacy.py": "print 'hello'\n"}, ["tool.py", "legacy.py"]))
    # package star-importing a sub-module that imports from the package before defining its class; another root first
    out.append(hw("star-from-half-processed", {
        "other.py": "from pkg.sub import X\nclass Y(X):\n    pass\n",
        "pkg/__init__.py": "from .sub import *\n",
        "pkg/sub.py": "from . import util\nclass X:\n    pass\n",
        "pkg/util.py": "def helper(): pass\n",
    }, ["other.py", "pkg"], cyclic=True))
    # a base named through an ALIAS CHAIN (a second name in its module; an import handed on by another module) whose target a
    # sibling re-exports: two alias hops once the class has moved (known finding alias-chain-then-move)
    out.append(hw("alias-then-move", {"a.py": "class C:\n    'c'\nK = C\n", "b.py": "from a import C\n__all__ = ['C']\n",
                                      "d.py": "from a import K\nclass D(K):\n    'd'\n"}, ["a.py", "b.py", "d.py"]))
    out.append(hw("from-import-through-a-module-then-move", {"a.py": "class C:\n    'c'\n", "mid.py": "from a import C\n", "b.py": "from mid import C\n__all__ = ['C']\n",
                                                             "d.py": "from mid import C\nclass D(C):\n    'd'\n"}, ["a.py", "mid.py", "b.py", "d.py"]))
    # a star import through a module that only FORWARDS names (binds them by imports, one under a second name), while a sibling
    # re-exports the classes: the bases of the user's classes, and whether one is an exception, in every order of the four roots
    out.append(hw("star-import-through-a-forwarding-module", {
        "core.py": "'Core.'\nclass C:\n    'The class.'\n    def meth(self):\n        'A method.'\nclass Boom(Exception):\n    'An error.'\n",
        "compat.py": "'Compatibility names.'\nfrom core import C, Boom\nfrom core import C as Base\n",
        "api.py": "'Public names.'\nfrom core import C, Boom\n__all__ = ['C', 'Boom']\n",
        "user.py": "'User code.'\nfrom compat import *\nclass D(C):\n    'By the name C.'\nclass E(Base):\n    'By the name Base.'\nclass MyBoom(Boom):\n    'An error.'\n",
    }, ["core.py", "compat.py", "api.py", "user.py"]))
    # an import cycle between the module of a base class and the module of its subclass (which names the base through the module),
    # both classes re-exported by another root: the base of the subclass whatever root and module comes first
    for shapes in ("aa_shapes", "shapes"):
        out.append(hw("cycle-then-both-reexported-" + shapes, {
            "pkg/__init__.py": "",
            "pkg/base.py": f"'Base.'\nfrom . import {shapes}\nclass A:\n    'A.'\n    def area(self):\n        'The area.'\n",
            f"pkg/{shapes}.py": "'Shapes.'\nfrom . import base\nclass B(base.A):\n    'B.'\n    def area(self):\n        return 1\n",
            "api/__init__.py": f"'Api.'\nfrom pkg.base import A\nfrom pkg.{shapes} import B\n__all__ = ['A', 'B']\n",
        }, ["pkg", "api"], cyclic=True))
    # a sub-package re-exported as a whole BEFORE its modules are analysed; they import each other by the original absolute name
    for helpers in ("a_helpers", "z_helpers"):
        out.append(hw("moved-subpackage-whose-modules-name-the-old-location-" + helpers, {
            "api/__init__.py": "'Api.'\nfrom impl import sub\n__all__ = ['sub']\n",
            "impl/__init__.py": "",
            "impl/sub/__init__.py": "",
            f"impl/sub/{helpers}.py": "from zope.interface import Interface\nclass IBase(Interface):\n    'doc'\nclass Base:\n    def go(self):\n        'doc'\ndef traced(f): return f\n",
            "impl/sub/mine.py": f"from impl.sub.{helpers} import IBase, Base, traced\nclass IMine(IBase):\n    'doc'\nclass Mine(Base):\n    go = traced(Base.go)\n",
        }, ["api", "impl"]))
    # the same with a package INSIDE the moved package (the whole subtree is analysed where it is written, not only the direct
    # children): its module reaches outside the moved package by a relative / an absolute import; the re-exporter is a sibling
    # package sorting before / after the origin, or another root
    for how, imp in (("relative", "from ...base import Base"), ("absolute", "from top.inner.base import Base")):
        for api in ("api", "zapi"):
            out.append(hw(f"moved-package-holding-a-package-{how}-{api}", {
                "top/__init__.py": "",
                f"top/{api}/__init__.py": "'Api.'\nfrom ..inner import sub\n__all__ = ['sub']\n",
                "top/inner/__init__.py": "",
                "top/inner/base.py": "class Base:\n    'base'\n    def only_base(self):\n        'doc'\n",
                "top/inner/sub/__init__.py": "",
                "top/inner/sub/near.py": "from ..base import Base\nclass N(Base):\n    'n'\n",
                "top/inner/sub/deep/__init__.py": "",
                "top/inner/sub/deep/mod.py": f"{imp}\nclass C(Base):\n    'c'\n",
                "top/inner/sub/deep/deeper/__init__.py": "",
                "top/inner/sub/deep/deeper/leaf.py": "from ..mod import C\nclass L(C):\n    'l'\n",
            }, ["top"]))
    # a pipeline of modules without any cycle, longer than any depth a cautious implementation might stop following imports at:
    # each stage derives from the next one's class and publishes the next one's helper
    for n in (30, 60):
        files = {}
        for k in range(n):
            if k == n - 1:
                files[f"s{k:02d}.py"] = f"'The last stage.'\nclass Stage:\n    'Stage {k}.'\n    def run(self):\n        'doc'\ndef helper_{k}():\n    'doc'\n"
            else:
                files[f"s{k:02d}.py"] = (f"'Stage {k}.'\nfrom s{k + 1:02d} import Stage as NextStage, helper_{k + 1}\n__all__ = ['Stage', 'helper_{k + 1}']\n"
                                         f"class Stage(NextStage):\n    'Stage {k}.'\n    limit = {k}\n    'doc'\ndef helper_{k}():\n    'doc'\n")
        out.append(hw(f"pipeline-of-{n}-modules", files, sorted(files)))
        out.append(hw(f"pipeline-of-{n}-modules-in-a-package", {"pl/__init__.py": "", **{"pl/" + k: v.replace("from s", "from pl.s") for k, v in files.items()}}, ["pl"]))
    return out


def write(case: Dict[str, Any], base: Path) -> List[Path]:
    for rel, text in case["files"].items():
        f = base / rel
        f.parent.mkdir(parents=True, exist_ok=True)
        f.write_text(text)
    return [base / r for r in case["roots"]]


def _orders(entries: List[Any]) -> List[List[Any]]:
    """Every order of a few entries; of many: as listed, reversed, and some shuffles (fixed seed)."""
    if len(entries) <= 5:
        return [list(p) for p in itertools.permutations(entries)]
    import random
    rng = random.Random(len(entries))
    out = [list(entries), list(reversed(entries))]
    for _ in range(4):
        e = list(entries)
        rng.shuffle(e)
        out.append(e)
    return out


def rank_orders(base: Path, roots: Sequence[Path]) -> Iterator[Tuple[List[Path], Dict[str, int]]]:
    """Every admissible schedule: permutations of the roots x permutations of the entries of every package directory."""
    dirs: List[Path] = []
    for r in roots:
        if r.is_dir():
            dirs.extend([r] + [d for d in sorted(r.rglob("*")) if d.is_dir() and (d / "__init__.py").exists()])
    per_dir = []
    for d in dirs:
        entries = [e for e in sorted(d.iterdir()) if e.name != "__init__.py" and not e.name.startswith(".")]
        per_dir.append(_orders(entries))
    for rp in _orders(list(roots)):
        for combo in itertools.product(*per_dir):
            rank = {str(e): i for perm in combo for i, e in enumerate(perm)}
            yield list(rp), rank


def full_dump(system: Any) -> Dict[str, Any]:
    """Everything the property lists: objects (by source location), kind, docstring, resolved bases, linearisation."""
    from pydoctor import model

    def ident(o: Any) -> Any:
        return None if o is None else [Path(str(o.source_path)).name if o.source_path else None, int(o.linenumber or 0), o.name.split(" ")[0]]
    out: Dict[str, Any] = {}
    for k, o in system.allobjects.items():
        e: Dict[str, Any] = {"cls": type(o).__name__.replace("ZopeInterface", ""), "kind": o.kind.name if o.kind else None, "doc": o.docstring}
        if isinstance(o, model.Class):
            e["bases"] = [ident(b) for b in o.baseobjects]
            e["mro"] = [ident(c) for c in o.mro()]
        out[k] = e
    return out


def explore(case: Dict[str, Any], scratch: Path, limit: int = 200) -> Dict[str, List[Any]]:
    base = scratch / ("hw_" + case["name"])
    roots = write(case, base)
    outcomes: Dict[str, List[Any]] = {}
    for n, (rp, rank) in enumerate(rank_orders(base, roots)):
        if n >= limit:
            break
        b = P.build_sources(paths=rp, record_states=False, rank=lambda p, rank=rank: (rank.get(str(p), 10 ** 6), str(p)))
        if b["crashed"]:
            outcomes.setdefault(json.dumps({"aborted": b["crashed"].split(":")[0]}), []).append([str(x.relative_to(base)) for x in rp])
            continue
        d = full_dump(b["system"])
        if case["cyclic"]:
            d = {k: {"bases": v.get("bases"), "mro": v.get("mro")} for k, v in d.items() if v["cls"] == "Class"}
        outcomes.setdefault(json.dumps(d, sort_keys=True), []).append([str(x.relative_to(base)) for x in rp] + sorted(rank.items(), key=lambda kv: kv[1])[:0])
    return outcomes
