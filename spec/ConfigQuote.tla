---------------------------- MODULE ConfigQuote ----------------------------
(***************************************************************************)
(* C20, last clause: "any string value survives the config file quoting    *)
(* rules unchanged: what is written quoted is read back as the same text". *)
(*                                                                         *)
(* The spec fixes what "written quoted" means (Encode) for every style,    *)
(* enumerates all strings up to MaxLen over a quoting-relevant alphabet    *)
(* and states the identity oracle.  The regular expressions of             *)
(* _configparser.is_quoted are not modelled (DESIGN.md 5/C20 "Limits").    *)
(*                                                                         *)
(* The harness writes every (string, style) to a config file, reads it     *)
(* back with the real parsers (IniConfigParser / TomlConfigParser behind   *)
(* ValidatorParser, a slice end to end through Options.from_args) and      *)
(* hands the table to TLC:                                                 *)
(*   rows : <<[s, fmt, q, w, back, u, err, tv]>>  s, w, back, u (what       *)
(*          unquote_str(w) returns; = s when not applicable): sequences of *)
(*          one-character strings (the newline is the token "NL"); fmt the *)
(*          file format, q the quoting style, tv: the whole file is also   *)
(*          valid TOML (observed by the harness)                           *)
(* TLC proves the table is exactly the enumerated space, that w is         *)
(* Encode(s, style), and prints every row whose read-back text is not s.   *)
(***************************************************************************)
EXTENDS Naturals, Sequences, FiniteSets, TLC, Json, IOUtils

CONSTANTS MaxLen, Exhaustive, Chunks, SampleEvery

NL == "NL"
SQ == "'"
DQ == "\""
BS == "\\"
QuoteAlpha == {"a", " ", SQ, DQ, BS, "#", "=", "[", "]", "%", NL}
\* fmt: toml = pyproject.toml [tool.pydoctor] ; cfg = setup.cfg [tool:pydoctor] ; ini = pydoctor.ini [pydoctor]
\* q: single/double = Python literal with escapes ; tsingle/tdouble = triple-quoted, content verbatim ; plain
Styles == {[fmt |-> f, q |-> q] : f \in {"cfg", "ini"}, q \in {"single", "double", "tsingle", "tdouble", "plain"}}
            \cup {[fmt |-> "toml", q |-> q] : q \in {"basic", "literal"}}
SeqsUpTo(S, k) == UNION {[1..m -> S] : m \in 0..k}

\* Python / TOML escaping inside quotes q: backslash and the quote itself are escaped, newline written \n
RECURSIVE Esc(_, _)
Esc(t, q) == IF t = <<>> THEN <<>>
             ELSE (IF Head(t) = BS THEN <<BS, BS>>
                   ELSE IF Head(t) = q THEN <<BS, q>>
                   ELSE IF Head(t) = NL THEN <<BS, "n">>
                   ELSE <<Head(t)>>) \o Esc(Tail(t), q)

Has(t, c) == \E i \in 1..Len(t) : t[i] = c
\* which strings a style can carry
\* A triple-quoted text may span several lines: in an INI file the lines after the first are continuation lines
\* (written indented, see Indent); configparser strips each line, drops comment lines and the text must stay verbatim:
LinesOK(t) == \A i \in 1..Len(t) : t[i] = NL =>
                 /\ (i < Len(t) => t[i + 1] \notin {" ", "#", NL})          \* next line: no leading blank, no comment, not empty
                 /\ (i > 1 => t[i - 1] # " ")                               \* this line: no trailing blank
TripleOK(t, c) == /\ ~Has(t, BS) /\ LinesOK(t)                            \* verbatim: nothing to escape
                   /\ (t = <<>> \/ t[Len(t)] # c)                          \* would merge with the closing quotes
                   /\ ~\E i \in 1..(Len(t) - 2) : t[i] = c /\ t[i + 1] = c /\ t[i + 2] = c
Applicable(t, style) ==
  CASE style.q = "tsingle" -> TripleOK(t, SQ)
    [] style.q = "tdouble" -> TripleOK(t, DQ)
    [] style.q = "literal" -> ~Has(t, SQ) /\ ~Has(t, NL)                   \* no escapes exist in '...'
    [] style.q = "plain"   -> /\ Len(t) >= 1 /\ ~Has(t, NL)
                                 /\ t[1] # " " /\ t[Len(t)] # " "           \* configparser strips values
                                 /\ ~(t[1] = "[" /\ t[Len(t)] = "]")        \* would be read as a list
                                 /\ ~(Len(t) >= 2 /\ t[1] = t[Len(t)] /\ t[1] \in {SQ, DQ})   \* would be a quoted form
    [] OTHER -> TRUE

RECURSIVE Indent(_)
Indent(t) == IF t = <<>> THEN <<>>
             ELSE (IF Head(t) = NL THEN <<NL, " ", " ", " ", " ">> ELSE <<Head(t)>>) \o Indent(Tail(t))
RECURSIVE Dedent(_)
Dedent(w) == IF w = <<>> THEN <<>>
             ELSE IF Head(w) = NL THEN <<NL>> \o Dedent(SubSeq(w, 6, Len(w))) ELSE <<Head(w)>> \o Dedent(Tail(w))
Encode(t, style) ==
  CASE style.q = "tsingle" -> <<SQ, SQ, SQ>> \o Indent(t) \o <<SQ, SQ, SQ>>          \* Python literal '''...''', verbatim
    [] style.q = "tdouble" -> <<DQ, DQ, DQ>> \o Indent(t) \o <<DQ, DQ, DQ>>          \* Python literal """...""", verbatim
    [] style.q = "single"  -> <<SQ>> \o Esc(t, SQ) \o <<SQ>>                \* Python literal '...'
    [] style.q = "double"  -> <<DQ>> \o Esc(t, DQ) \o <<DQ>>                \* Python literal "..."
    [] style.q = "basic"   -> <<DQ>> \o Esc(t, DQ) \o <<DQ>>                \* TOML basic string
    [] style.q = "literal" -> <<SQ>> \o t \o <<SQ>>                         \* TOML literal string
    [] style.q = "plain"   -> t                                             \* not quoted at all

\* design level: the escaping is lossless (Decode is the inverse on everything Encode produces)
RECURSIVE Unesc(_)
Unesc(w) == IF w = <<>> THEN <<>>
            ELSE IF Head(w) = BS /\ Len(w) >= 2
                 THEN <<(IF w[2] = "n" THEN NL ELSE w[2])>> \o Unesc(Tail(Tail(w)))
                 ELSE <<Head(w)>> \o Unesc(Tail(w))
Decode(w, style) ==
  CASE style.q \in {"single", "double", "basic"} -> Unesc(SubSeq(w, 2, Len(w) - 1))
    [] style.q = "literal" -> SubSeq(w, 2, Len(w) - 1)
    [] style.q \in {"tsingle", "tdouble"} -> Dedent(SubSeq(w, 4, Len(w) - 3))
    [] style.q = "plain" -> w

File == JsonDeserialize(IOEnv.TABLE_FILE)
Rows == File.rows
N == Len(Rows)

VARIABLES chunk, row
vars == <<chunk, row>>
Init == chunk = 0 /\ row = 0
Next == \/ /\ chunk = 0 /\ chunk' \in 1..Chunks /\ row' = 0
        \/ /\ chunk > 0 /\ row = 0
           /\ row' \in {i \in 1..N : (i % Chunks) + 1 = chunk}
           /\ UNCHANGED chunk
Spec == Init /\ [][Next]_vars

\* Known findings (findings.d/C20.json).
\* ini-file-read-as-toml: the composite parser tries TOML first, so a pydoctor.ini whose text happens to be valid
\* TOML is read with TOML's rules (no escapes in '...', `x # y` is a comment, [..] a list), not the INI/Python ones.
KF_IniReadAsToml(r) == /\ r.fmt = "ini" /\ r.tv /\ (r.err # "" \/ r.back # r.s)
                       /\ (r.q \in {"single", "plain"} \/ (r.q \in {"tsingle", "tdouble"} /\ Has(r.s, NL)))  \* TOML keeps the indentation
\* toml-leading-escaped-quote: the `toml` package reads "\"" back as the empty string and "\"\"..." without its
\* first two and last two characters.
KF_TomlLeadingQuote(r) == /\ r.tv /\ r.q \in {"basic", "double"} /\ r.err = ""
                          /\ \/ r.s = <<DQ>> /\ r.back = <<>>
                             \/ Len(r.s) >= 2 /\ r.s[1] = DQ /\ r.s[2] = DQ /\ r.back = SubSeq(r.s, 3, Len(r.s) - 2)

\* empty-triple-quoted: the empty text written '''''' or """""" is not recognised as quoted (is_quoted's triple
\* pattern needs at least one character of content): unquote_str returns the six quote characters.
KF_EmptyTripleQuoted(r) == r.q \in {"tsingle", "tdouble"} /\ r.s = <<>> /\ r.err = "" /\ r.u = r.w

Report(i) ==
  LET r == Rows[i]
      st == [fmt |-> r.fmt, q |-> r.q] IN
    [i |-> i, s |-> r.s, fmt |-> r.fmt, q |-> r.q, w |-> r.w, back |-> r.back, u |-> r.u, err |-> r.err, tv |-> r.tv,
     written_ok |-> Applicable(r.s, st) /\ r.w = Encode(r.s, st),
     identity   |-> r.err = "" /\ r.back = r.s /\ r.u = r.s,              \* u: _configparser.unquote_str(w) itself
     kf         |-> KF_IniReadAsToml(r) \/ KF_TomlLeadingQuote(r) \/ KF_EmptyTripleQuoted(r),
     lossless   |-> Decode(Encode(r.s, st), st) = r.s]

Emit == row > 0 =>
          LET rep == Report(row) IN
            IF ~rep.written_ok \/ ~rep.identity \/ ~rep.lossless \/ (SampleEvery > 0 /\ row % SampleEvery = 1)
            THEN PrintT(ToJson(rep)) ELSE TRUE

\* design level: the quoting scheme itself loses nothing
Lossless == row > 0 => Report(row).lossless

Space == {[s |-> t, style |-> st] : t \in SeqsUpTo(QuoteAlpha, MaxLen), st \in Styles}
Complete == ~Exhaustive \/
            /\ {[s |-> Rows[i].s, style |-> [fmt |-> Rows[i].fmt, q |-> Rows[i].q]] : i \in 1..N}
                 = {x \in Space : Applicable(x.s, x.style)}
            /\ N = Cardinality({x \in Space : Applicable(x.s, x.style)})
ASSUME Complete
ASSUME PrintT(ToJson([rows |-> N, kind |-> "quote", exhaustive |-> Exhaustive]))
=============================================================================
