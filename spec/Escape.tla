------------------------------- MODULE Escape -------------------------------
(***************************************************************************)
(* C10 - generated pages are well-formed and source text can never become  *)
(* markup: the escape-level data flow of pydoctor's rendering.             *)
(*                                                                         *)
(* A piece of text taken from the documented source travels from its       *)
(* source position to a place in a written page through a ROUTE, a fixed   *)
(* sequence of STAGES.  The state of the text is                           *)
(*   level  0 = the raw source text                                        *)
(*          1 = escaped once: what a serialised HTML page must hold so     *)
(*              that a browser / XML parser shows the source text          *)
(*          2 = escaped twice (the reader sees &lt; instead of <)          *)
(*   cont   the container it is in: src (Python str) | node (docutils      *)
(*          Text node) | html (serialised HTML string) | stan (twisted     *)
(*          Tag tree) | file (the written page)                            *)
(*   ctx    text | attr | url   (where it ends up in the page)             *)
(*                                                                         *)
(* Stages (one per piece of code that changes the state):                  *)
(*   ToNode        docstring parser / colorize_pyval put it in a docutils  *)
(*                 Text node (epydoc/markup/*, _pyval_repr.py)             *)
(*   DocutilsEncode  HTMLTranslator.visit_Text -> encode(), attval() for   *)
(*                 attributes (docutils _html_base via node2stan.py:65)    *)
(*   StrFormat     inspect.Signature.__str__ pastes the HTML of defaults   *)
(*                 and annotations between parameter names                 *)
(*                 (astbuilder._ValueFormatter.__repr__, astbuilder.py:1034)*)
(*   ParseXml      stanutils.html2stan (stanutils.py:19): XMLString        *)
(*   PutInStan     the str becomes a child / attribute of a Tag            *)
(*                 (tags.x(...), template slots, epydoc2stan.taglink)      *)
(*   LinkLabel     node2stan._handle_reference: label handed to the linker *)
(*                 which wraps it in <a>/<code>            (node2stan.py:106)*)
(*   Colorize      doctest.colorize_doctest builds a Tag tree from the     *)
(*                 block's text                            (node2stan.py:188)*)
(*   FlattenInner  stanutils.flatten inside the translator                 *)
(*                                              (node2stan.py:126,191,193) *)
(*   Quote         urllib.parse.quote in model.Documentable.url            *)
(*                                                         (model.py:239)  *)
(*   FlattenToFile writer.flattenToFile -> twisted flattenString           *)
(*                                                          (writer.py:21) *)
(*                                                                         *)
(*   ParseXmlFails the same call raising (SAXParseException) because the   *)
(*                 text holds a character XML cannot represent (U+FFFF,    *)
(*                 form feed, &nbsp; ...): the HTML string is lost         *)
(*   Fallback      the caller goes back to the SOURCE text (level 0) and   *)
(*                 puts it in the stan tree: format_docstring_fallback ->  *)
(*                 plaintext to_stan (epydoc2stan.py:745),                 *)
(*                 colorized_pyval_fallback -> gettext (epydoc2stan.py:981)*)
(*   Elide         the caller shows a fixed text instead: "(...)" for a    *)
(*                 signature (pages/__init__.py:59-66), "Broken            *)
(*                 description" for a summary (epydoc2stan.py:808)         *)
(*                                                                         *)
(*   RstInterpolate  extensions/deprecate.py pastes the replacement= string *)
(*                 of @deprecated(...) between backticks into the reST     *)
(*                 source of a ".. deprecated::" directive (deprecate.py   *)
(*                 :144-156, :43-49)                                       *)
(*                 after collapsing all white space - every separator      *)
(*                 docutils splits lines at is white space - and showing   *)
(*                 backticks as quotes (fix 3c0307e): the text stays ONE   *)
(*                 reST literal.  The alternative text of an image shown   *)
(*                 as <object> goes through encode() like any other text   *)
(*                 (node2stan.HTMLTranslator.visit_image, fix 0ba83bd).    *)
(*                 Both repairs are stated unconditionally: the old        *)
(*                 behaviours are no route of this module, their return is *)
(*                 a step / sink that is not in the model and a violation  *)
(*                 on the pages.                                           *)
(*                                                                         *)
(* Payload classes: "linesep" (only matters where text is pasted into reST *)
(* source: it holds a line separator other than "\n"), "plain" (every character can be written in XML) and    *)
(* "xmlbreak" (holds a character that makes html2stan raise): every route  *)
(* with a ParseXml stage is cut at its first ParseXml and continues with   *)
(* the fallback of its zone - which must also end at level 1, or nowhere.  *)
(*                                                                         *)
(* Feeds is the table (source kind, zone of the page, context, quoted) ->  *)
(* route, transcribed from astbuilder._ValueFormatter,                     *)
(* pages.format_signature / format_decorators / format_class_signature,    *)
(* epydoc2stan.format_docstring / format_summary / format_constant_value / *)
(* FieldDesc, node2stan, stanutils, linker and the templates.              *)
(*                                                                         *)
(* Properties: NeverParsedRaw - ParseXml is never applied to level-0 text; *)
(*             SinkLevelOne   - what reaches the file is at level 1.       *)
(* TLC enumerates every (kind, sink) pair of Feeds (Source = "enum");      *)
(* harness/checks/c10.py plants a canary at each source position and       *)
(* compares the observed sinks / levels / stage events with this module.   *)
(* Source = "file": the same invariants evaluated on OBSERVED flows.       *)
(***************************************************************************)
EXTENDS Integers, Sequences, FiniteSets, TLC, Json, IOUtils

CONSTANT Source          \* "enum" | "file"

DocFormats == {"epytext", "restructuredtext", "plaintext", "google", "numpy"}
Docutils == DocFormats \ {"plaintext"}     \* formats rendered through docutils nodes
PyvalKinds == {"strconst", "default", "annotation", "decoarg", "baseexpr", "typealias"}

\* ----------------------------------------------------------------------------- routes
Routes ==
  [ stan       |-> <<"PutInStan", "FlattenToFile">>,
    stanurl    |-> <<"Quote", "PutInStan", "FlattenToFile">>,
    docutils   |-> <<"ToNode", "DocutilsEncode", "ParseXml", "FlattenToFile">>,
    signature  |-> <<"ToNode", "DocutilsEncode", "StrFormat", "ParseXml", "FlattenToFile">>,
    xrefrst    |-> <<"ToNode", "LinkLabel", "FlattenInner", "ParseXml", "FlattenToFile">>,
    xrefepy    |-> <<"ToNode", "DocutilsEncode", "ParseXml", "LinkLabel", "FlattenInner", "ParseXml", "FlattenToFile">>,
    doctest    |-> <<"ToNode", "Colorize", "FlattenInner", "ParseXml", "FlattenToFile">>,
    rstquote   |-> <<"RstInterpolate", "ToNode", "DocutilsEncode", "ParseXml", "FlattenToFile">>,
    \* a ".. raw:: html" block read by the reST parser: a raw node whose content the HTML writer copies (visit_raw); its
    \* tags become elements, the text between them stays as it was.  rawexplicit: the block is in a reST docstring - the
    \* author's explicit raw directive, EXEMPT from the property.
    rawexplicit  |-> <<"ToNode", "DocutilsRaw", "ParseXmlTags", "FlattenToFile">>,
    \* :math:`\text{...}` / `\mbox{...}`: docutils math2html copies text-mode content unescaped into the HTML
    \* (visit_math is not overridden in node2stan.py): entity look-alikes are decoded by html2stan
    mathtext   |-> <<"ToNode", "MathToHtml", "ParseXml", "FlattenToFile">> ]

\* container before -> after, level change
Stage ==
  [ ToNode         |-> [from |-> {"src"},          to |-> "node", d |-> 0],
    DocutilsEncode |-> [from |-> {"node"},         to |-> "html", d |-> 1],
    StrFormat      |-> [from |-> {"html"},         to |-> "html", d |-> 0],
    ParseXml       |-> [from |-> {"html"},         to |-> "stan", d |-> 0],   \* d = -1, see Apply
    PutInStan      |-> [from |-> {"src"},          to |-> "stan", d |-> 0],
    LinkLabel      |-> [from |-> {"node", "stan"}, to |-> "stan", d |-> 0],
    Colorize       |-> [from |-> {"node"},         to |-> "stan", d |-> 0],
    FlattenInner   |-> [from |-> {"stan"},         to |-> "html", d |-> 1],
    Quote          |-> [from |-> {"src"},          to |-> "src",  d |-> 0],
    FlattenToFile  |-> [from |-> {"stan"},         to |-> "file", d |-> 1],
    ParseXmlFails  |-> [from |-> {"html"},         to |-> "lost", d |-> 0],
    Fallback       |-> [from |-> {"lost"},         to |-> "stan", d |-> 0],   \* level := 0, see Apply
    Elide          |-> [from |-> {"lost"},         to |-> "none", d |-> 0],
    RstInterpolate |-> [from |-> {"src"},          to |-> "src",  d |-> 0],
    MathToHtml     |-> [from |-> {"node"},         to |-> "html", d |-> 0],
    DocutilsRaw    |-> [from |-> {"node"},         to |-> "html", d |-> 0],
    ParseXmlTags   |-> [from |-> {"html"},         to |-> "stan", d |-> 0] ]

\* ----------------------------------------------------------------------------- sinks per source kind
S(z, c, q) == [zone |-> z, ctx |-> c, quoted |-> q]

\* an object NAME (module file name, attribute created by a field): every place a name is shown
NameText == { S(z, "text", FALSE) : z \in {"alldocs", "childtable", "heading", "sidebar", "summarypage", "title"} }
NameAttr == { S(z, "attr", FALSE) : z \in {"alldocs", "childanchor", "childtable", "funcheader", "heading", "sidebar", "summarypage"} }
NameUrl  == { S(z, "url", TRUE) : z \in {"childtable", "heading", "sidebar", "summarypage"} }
            \cup {S("alldocs", "text", TRUE)}             \* the url shown as text (search.py:36)
NameRawUrl == {S("extras", "url", FALSE)}                 \* "classIndex.html#" + fullName (pages/__init__.py:480)
ModnameSinks == NameText \cup NameAttr \cup NameUrl \cup NameRawUrl

\* an attribute documented by @ivar NAME / :ivar NAME: / Attributes: gets an object of that name
FieldNameSinks ==
  { S(z, "text", FALSE) : z \in {"alldocs", "childtable", "sidebar", "summarypage", "funcheader"} }
  \cup { S(z, "attr", FALSE) : z \in {"alldocs", "childanchor", "childtable", "funcheader", "sidebar", "fieldtable"} }
  \cup { S(z, "url", TRUE) : z \in {"childtable", "sidebar", "summarypage", "fieldtable"} }
  \cup { S("alldocs", "text", TRUE), S("funcheader", "url", FALSE) }   \* href="#"+name (attributechild.py:48)
FieldTextSinks == { S(z, "text", FALSE) : z \in {"fieldtable", "docstring"} }

SummaryZones == {"alldocs", "childtable", "summarypage"}
DocSinks == { S(z, "text", FALSE) : z \in SummaryZones \cup {"docstring"} }
XrefSinks == DocSinks \cup { S(z, "url", FALSE) : z \in SummaryZones \cup {"docstring"} }

ImageTag == [png |-> "img", pdf |-> "img", PNG |-> "img", svg |-> "object", SVG |-> "object", webm |-> "object"]

Feed(k, s, r) == [kind |-> k, zone |-> s.zone, ctx |-> s.ctx, quoted |-> s.quoted, route |-> r]

NameRoute(s) == IF s.quoted THEN "stanurl" ELSE "stan"

Feeds ==
  \* object names: always placed in the stan tree as text / attribute values          (templates, taglink)
     { Feed("modname", s, NameRoute(s)) : s \in ModnameSinks }
  \* docstring words: docutils formats go node -> HTML -> stan; the plaintext body is tags.p(text)
  \*   (plaintext.py:57) but its summaries go through to_node()                 (epydoc2stan.py:814)
  \cup { Feed("doc." \o f, s, "docutils") : f \in Docutils, s \in DocSinks }
  \cup { Feed("doc.plaintext", S(z, "text", FALSE), "docutils") : z \in SummaryZones }
  \cup { Feed("doc.plaintext", S("docstring", "text", FALSE), "stan") }
  \* fields: the argument is placed as text (FieldDesc.format_name, epydoc2stan.py:85), the body is a
  \*   parsed docstring; @ivar creates an object whose name is the argument
  \cup { Feed("field." \o f, s, NameRoute(s)) : f \in Docutils, s \in FieldNameSinks }
  \cup { Feed("field." \o f, s, "docutils") : f \in Docutils, s \in FieldTextSinks }
  \cup { Feed("field." \o f, S("fieldtable", "text", FALSE), "stan") : f \in Docutils }
  \cup { Feed("field." \o f, S("childtable", "text", FALSE), "docutils") : f \in Docutils }   \* summary of the ivar
  \cup { Feed("field." \o f, S("alldocs", "text", FALSE), "docutils") : f \in Docutils }
  \cup { Feed("field." \o f, S("summarypage", "text", FALSE), "docutils") : f \in Docutils }
  \* cross references and inline markup in docstrings                      (node2stan.py:106-127)
  \cup { Feed("xref.epytext", s, "xrefepy") : s \in DocSinks }
  \cup { Feed("xref.epytext", s, "docutils") : s \in XrefSinks }
  \cup { Feed("xref.restructuredtext", s, "xrefrst") : s \in DocSinks }
  \cup { Feed("xref.restructuredtext", s, "docutils") : s \in XrefSinks }
  \* doctest blocks                                                         (node2stan.py:188-194)
  \cup { Feed("doctest." \o f, S("docstring", "text", FALSE), "doctest") : f \in {"epytext", "restructuredtext"} }
  \* python values: colorize_pyval -> nodes -> node2stan                   (_pyval_repr.py:192)
  \cup { Feed("strconst", S("constvalue", "text", FALSE), "docutils") }   \* epydoc2stan.py:987
  \cup { Feed("typealias", S("constvalue", "text", FALSE), "docutils") }
  \cup { Feed("decoarg", S("funcheader", "text", FALSE), "docutils") }    \* pages/__init__.py:30
  \cup { Feed("baseexpr", S("classsig", "text", FALSE), "docutils") }     \* pages/__init__.py:68
  \cup { Feed("baseexpr", S("summarypage", "text", FALSE), "docutils") }  \* classIndex: summary.py:149 uses the same
  \cup { Feed("annotation", S("funcheader", "text", FALSE), "docutils") } \* attribute header: attributechild.py
  \* defaults and annotations of a signature: HTML pasted by Signature.__str__, re-parsed
  \*                                                   (astbuilder.py:1034, pages/__init__.py:54)
  \cup { Feed("default", S("signature", "text", FALSE), "signature") }
  \cup { Feed("annotation", S("signature", "text", FALSE), "signature") }
  \* @deprecated(Version(...), replacement="text"): shown in the ".. deprecated::" box above the docstring
  \*   (objectExtras, pages/__init__.py:326); a line separator in the text changes nothing (payload class linesep)
  \cup { Feed("deprecated", S("docstring", "text", FALSE), "rstquote") }
  \* ".. image:: picture.EXT" with ":alt: text" in a reST docstring, one kind per image type: the writer picks the tag
  \*   from the extension of the uri compared in lower case (html4css1.visit_image, object_image_types = .svg .swf
  \*   .mp4 .webm .ogg - .pdf is NOT one of them): alt attribute of <img>, or content of <object>, which
  \*   node2stan.HTMLTranslator.visit_image encodes first (fix 0ba83bd)
  \cup { Feed("imagealt." \o e, S("docstring", IF ImageTag[e] = "img" THEN "attr" ELSE "text", FALSE), "docutils") : e \in DOMAIN ImageTag }
  \* ".. image:: TEXT.svg" without :alt: - the uri is the data attribute and (there being no alt) the content of <object>
  \cup { Feed("imageuri.svg", S("docstring", c, FALSE), "docutils") : c \in {"attr", "text"} }
  \* a module two packages deep whose OUTER package sets `__docformat__ = "plaintext"`, documented together with a root
  \*   module that imports from it, under both orders of the roots on the command line: System.getProcessedModule
  \*   processes ALL enclosing packages first, outermost first (model.py, recursive call), so the docformat is known
  \*   when docstrings are parsed while the AST is built - plaintext, like doc.plaintext
  \cup { Feed("nested.plaintext." \o o, S(z, "text", FALSE), "docutils") : o \in {"appfirst", "pkgfirst"}, z \in SummaryZones }
  \cup { Feed("nested.plaintext." \o o, S("docstring", "text", FALSE), "stan") : o \in {"appfirst", "pkgfirst"} }
  \* docstrings of a class / its method / a function defined in a `__docformat__ = "plaintext"` module and re-exported
  \*   by a restructuredtext package: the docformat is the one of the module the docstring is written in
  \*   (Documentable.definingMod, epydoc2stan._get_docformat, fix 01dfc09) - plaintext, like doc.plaintext
  \cup { Feed("reexport.plaintext", S(z, "text", FALSE), "docutils") : z \in SummaryZones }
  \cup { Feed("reexport.plaintext", S("docstring", "text", FALSE), "stan") }
  \* a function with a PLAINTEXT docstring in a `__docformat__ = "plaintext"` module that also holds a docstring-less
  \*   class overriding a method whose docstring is inherited from a restructuredtext module (parsed with the format of
  \*   the module it is WRITTEN in, epydoc2stan.parse_docstring: _get_docformat(source)), class before / after the
  \*   function: the function's docstring is plaintext either way, like doc.plaintext
  \cup { Feed("inherit.plaintext." \o o, S(z, "text", FALSE), "docutils") : o \in {"before", "after"}, z \in {"alldocs", "childtable"} }
  \cup { Feed("inherit.plaintext." \o o, S("docstring", "text", FALSE), "stan") : o \in {"before", "after"} }
  \* an epytext section heading that is not pure ASCII: the heading text is a title node (docutils route, also in the
  \*   table of contents); the section id is a slug of its ASCII letters and digits only (ParsedEpytextDocstring._slugify)
  \cup { Feed("heading.epytext", S(z, "text", FALSE), "docutils") : z \in {"docstring", "sidebar"} }
  \* interpreted text `payload` of a clean reST docstring parsed after docstrings that declare a raw-based default
  \*   role (RoleHistory.tla: every docstring starts under the standard default role): a cross reference label
  \cup { Feed("rolehist", S(z, "text", FALSE), "xrefrst") : z \in {"alldocs", "childtable", "docstring"} }
  \* the SAME docstring text (payload + a block that is a raw directive for reST) in a restructuredtext module and in a
  \*   `__docformat__ = "plaintext"` module, both roots, both orders: each docstring is parsed by the parser of the module
  \*   it is written in, whatever was parsed before (epydoc2stan.parse_docstring parses every docstring anew)
  \cup { Feed("sametext." \o o, S(z, "text", FALSE), "docutils") : o \in {"rstfirst", "plainfirst"}, z \in {"alldocs", "childtable", "docstring"} }
  \cup { Feed("sametext." \o o, S("docstring", "text", FALSE), "stan") : o \in {"rstfirst", "plainfirst"} }
  \cup { Feed("sametext." \o o, S("docstring", "text", FALSE), "rawexplicit") : o \in {"rstfirst", "plainfirst"} }
  \* a function of a module of a `__docformat__ = "plaintext"` package, the MODULE being re-exported by a restructuredtext
  \*   package: the module inherits the docformat of the package it is DEFINED in (Module._definingPackage, fix d037846) -
  \*   plaintext, like doc.plaintext
  \cup { Feed("reexportmodule.plaintext", S(z, "text", FALSE), "docutils") : z \in {"alldocs", "childtable"} }
  \cup { Feed("reexportmodule.plaintext", S("docstring", "text", FALSE), "stan") }
  \* code blocks of a reST docstring, by language: ".. code:: LANG" / ".. code-block:: LANG" / ".. python::" all become a
  \*   doctest_block node whose text is colorized as Python whatever the language (restructuredtext.py:470-520,
  \*   node2stan.visit_doctest_block): Colorize -> flatten -> parsed
  \cup { Feed("codeblock." \o l, S("docstring", "text", FALSE), "doctest") : l \in {"none", "python", "html", "shell"} }
  \* text-mode content of inline math in a reST docstring
  \cup { Feed("mathtext", S("docstring", "text", FALSE), "mathtext") }
  \* options                                                              (pages/__init__.py:182-186)
  \cup { Feed("projname", S(z, "text", FALSE), "stan") : z \in {"alldocs", "footer", "navbar"} }
  \cup { Feed("projurl", S(z, "url", FALSE), "stan") : z \in {"alldocs", "footer", "navbar"} }

Kinds == {f.kind : f \in Feeds}

\* ----------------------------------------------------------------------------- payload classes and fallbacks
Classes == {"plain", "xmlbreak", "linesep"}
\* a feed only exists for some payload classes
Active(f, cls) ==
  (cls = "linesep") => f.kind = "deprecated"              \* elsewhere a line separator is an ordinary character
IsParse(st) == st \in {"ParseXml", "ParseXmlTags"}
FirstParse(r) == CHOOSE i \in 1..Len(r) : IsParse(r[i]) /\ \A j \in 1..(i - 1) : ~IsParse(r[j])
HasParse(r) == \E i \in 1..Len(r) : IsParse(r[i])
Cut(r) == SubSeq(r, 1, FirstParse(r) - 1) \o <<"ParseXmlFails">>
\* which fallback the caller of the failing html2stan has
Elided(f) == f.zone \in SummaryZones \cup {"signature", "sidebar"}   \* format_summary_fallback, format_signature, no toc
             \/ (f.ctx \in {"url", "attr"} /\ f.zone # "docstring")   \* links, images are gone with the parsed summary
             \/ f.kind = "deprecated"                       \* objectExtras: fallback is BROKEN (pages/__init__.py:334)
RouteSeq(f, cls) ==
  LET r == Routes[f.route] IN
  IF cls # "xmlbreak" \/ ~HasParse(r) THEN r
  ELSE IF Elided(f) THEN Cut(r) \o <<"Elide">>
  ELSE Cut(r) \o <<"Fallback", "FlattenToFile">>

\* ----------------------------------------------------------------------------- the flow of one pair
\* parsing text as XML takes one level off: entity look-alikes of level-0 text are decoded (level -1), its < > are tags
Apply(st, lv) == IF st = "ParseXml" THEN lv - 1
                 ELSE IF st = "Fallback" THEN 0
                 ELSE lv + Stage[st].d
\* what the wrapped functions report: a raising html2stan is a ParseXml step with level out -3
ObsStage(st) == IF st \in {"ParseXmlFails", "ParseXmlTags"} THEN "ParseXml" ELSE st
ObsOut(st, lv) == IF st = "ParseXmlFails" THEN -3 ELSE Apply(st, lv)

RECURSIVE Walk(_, _, _, _)
\* sequence of [stage, lin, lout, typed, raw] of a route started at level lv in container c
Walk(route, i, lv, c) ==
  IF i > Len(route) THEN <<>>
  ELSE LET st == route[i] IN
       <<[stage |-> ObsStage(st), lin |-> lv, lout |-> ObsOut(st, lv), typed |-> c \in Stage[st].from,
          raw |-> st \in {"ParseXml", "ParseXmlFails", "ParseXmlTags"} /\ lv = 0]>> \o Walk(route, i + 1, Apply(st, lv), Stage[st].to)
Flow(f, cls) == Walk(RouteSeq(f, cls), 1, 0, "src")
Reaches(f, cls) == LET r == RouteSeq(f, cls) IN r[Len(r)] = "FlattenToFile"
Final(f, cls) == LET w == Flow(f, cls) IN w[Len(w)].lout

Observable == {"DocutilsEncode", "ParseXml", "FlattenInner"}   \* stages the harness wraps
Rng(s) == {s[i] : i \in DOMAIN s}
StepsOf(f, cls) == { <<x.stage, x.lin, x.lout>> : x \in {y \in Rng(Flow(f, cls)) : y.stage \in Observable} }
ModelSteps(k, cls) == UNION { StepsOf(f, cls) : f \in {g \in Feeds : g.kind = k /\ Active(g, cls)} }
\* after the plaintext fallback of a whole docstring what was an attribute / a link target is shown as its text
SinkCtx(f, cls) == IF cls = "xmlbreak" /\ HasParse(Routes[f.route]) /\ f.ctx \in {"url", "attr"} /\ f.zone = "docstring"
                   THEN "text" ELSE f.ctx
ModelSinks(k, cls) == { <<f.zone, SinkCtx(f, cls), f.quoted, Final(f, cls)>> :
                          f \in {g \in Feeds : g.kind = k /\ Active(g, cls) /\ Reaches(g, cls)} }

\* observed flows handed in by the harness:
\*   <<[kind, variant, cls, sinks |-> <<<<zone, ctx, quoted, level>>>>, events |-> <<<<stage, lin, lout>>>>]>>
Observed == IF Source = "file" THEN JsonDeserialize(IOEnv.C10_OBSERVED) ELSE <<>>

VARIABLES pair,     \* the (kind, sink, route) being walked        (enum)   / observation number (file)
          cls,      \* payload class
          pc,       \* next stage of the route
          level, cont, parsedRaw, hist
vars == <<pair, cls, pc, level, cont, parsedRaw, hist>>

Init ==
  /\ IF Source = "enum" THEN pair \in Feeds /\ cls \in Classes /\ Active(pair, cls)
     ELSE pair \in 1..Len(Observed) /\ cls = "plain"
  /\ pc = 1 /\ level = 0 /\ cont = "src" /\ parsedRaw = FALSE /\ hist = <<>>

Route == IF Source = "enum" THEN RouteSeq(pair, cls) ELSE <<>>

Step ==
  /\ pc <= Len(Route)
  /\ LET st == Route[pc] IN
       /\ cont \in Stage[st].from                       \* WellTyped: a stage only takes what the code gives it
       /\ level' = Apply(st, level)
       /\ cont' = Stage[st].to
       /\ parsedRaw' = (parsedRaw \/ (st \in {"ParseXml", "ParseXmlFails", "ParseXmlTags"} /\ level = 0))
       /\ hist' = Append(hist, <<ObsStage(st), level, ObsOut(st, level)>>)
  /\ pc' = pc + 1
  /\ UNCHANGED <<pair, cls>>

Next == Step
Spec == Init /\ [][Next]_vars

Done == pc = Len(Route) + 1

\* ----------------------------------------------------------------------------- properties (model)
NeverParsedRaw == ~parsedRaw
\* open known finding math-text-mode-copied-raw: the invariants hold everywhere else
KF_MathTextCopiedRaw == Source = "enum" /\ pair.route = "mathtext"
\* the author's own raw directive in a reST docstring is outside the property
Exempt == Source = "enum" /\ pair.route = "rawexplicit"
NeverParsedRawExceptKnown == NeverParsedRaw \/ KF_MathTextCopiedRaw \/ Exempt
\* a flow ends in the page at level 1 - or, after an XML error, nowhere; fallback routes included
SinkLevelOne == (Source = "enum" /\ Done) => ((cont = "file" /\ level = 1) \/ (cont = "none" /\ cls = "xmlbreak"))
SinkLevelOneExceptKnown == SinkLevelOne \/ KF_MathTextCopiedRaw
WellTyped == Source = "enum" => (pc <= Len(Route) => cont \in Stage[Route[pc]].from)
SameAsWalk == (Source = "enum" /\ Done) => hist = [i \in DOMAIN Flow(pair, cls) |->
                  <<Flow(pair, cls)[i].stage, Flow(pair, cls)[i].lin, Flow(pair, cls)[i].lout>>]

EmitEnum == (Source = "enum" /\ Done) =>
  PrintT(ToJson([kind |-> pair.kind, zone |-> pair.zone, ctx |-> SinkCtx(pair, cls), quoted |-> pair.quoted, cls |-> cls,
                 route |-> pair.route, stages |-> hist, final |-> level, reaches |-> cont = "file",
                 parsedRaw |-> parsedRaw, steps |-> {h \in Rng(hist) : h[1] \in Observable}]))

\* ----------------------------------------------------------------------------- properties (observed)
ObsSinks(o) == Rng(o.sinks)
ObsEvents(o) == Rng(o.events)
ObsSinkLevelOne(o) == \A s \in ObsSinks(o) : s[4] = 1
ObsNeverParsedRaw(o) == \A e \in ObsEvents(o) : e[1] = "ParseXml" => e[2] >= 1
EmitFile == Source = "file" =>
  LET o == Observed[pair]
      known == o.kind \in Kinds
      ms == IF known THEN ModelSinks(o.kind, o.cls) ELSE {}
      me == IF known THEN ModelSteps(o.kind, o.cls) ELSE {}
  IN PrintT(ToJson([n |-> pair, kind |-> o.kind, variant |-> o.variant, cls |-> o.cls,
                    sinkLevelOne |-> ObsSinkLevelOne(o), neverParsedRaw |-> ObsNeverParsedRaw(o),
                    sinksNotInModel |-> ObsSinks(o) \ ms, modelSinksNotSeen |-> ms \ ObsSinks(o),
                    stepsNotInModel |-> ObsEvents(o) \ me, modelStepsNotSeen |-> me \ ObsEvents(o)]))
=============================================================================
