------------------------------- MODULE Builder -------------------------------
(***************************************************************************)
(* C03 : what is documented in each namespace is what Python defines there *)
(*                                                                         *)
(* A program is a statement tree in canonical (pre-order) numbering:       *)
(* nodes 1..n, parent[i] (0 = the module), kind[i], nm[i].                 *)
(*                                                                         *)
(*   Documented  transcription of astbuilder.ModuleVistor: the statement   *)
(*               walk limited to bodies (visit_If/__main__, nested         *)
(*               functions and classes in functions skipped through        *)
(*               SkipNode), _handleFunctionDef (kinds from decorators,     *)
(*               properties, old-style wrapping), visit_ClassDef,          *)
(*               _handleModuleVar/_handleClassVar (an assignment re-uses   *)
(*               an existing Attribute and is IGNORED when the name is a   *)
(*               function or class), System.addObject/handleDuplicate      *)
(*               (the later definition wins the entry of its parent),      *)
(*               defaultPostProcess (exception kind).                      *)
(*   PyExec      reference: the namespace the interpreter builds when the  *)
(*               module is imported (last binding wins; bodies of taken    *)
(*               if/try/with/for/while run in the enclosing scope;         *)
(*               __main__ blocks and function bodies do not run).          *)
(*                                                                         *)
(* Both yield, per namespace (module or class node), name -> [node, kind]. *)
(* TLC enumerates every program up to MaxN statements, evaluates both and  *)
(* prints them; the harness renders each program, builds it with the real  *)
(* ASTBuilder (verdict: real = PyExec) and imports it with CPython         *)
(* (validation of PyExec).                                                 *)
(***************************************************************************)
EXTENDS Integers, Sequences, FiniteSets, TLC, Json, SequencesExt

CONSTANTS MaxN, Names, KindSet

DefKinds == {"def", "adef", "cm", "sm", "prop", "setter"}          \* function definitions
ClassKinds == {"class", "exc"}
\* blocks that are NOT the `body` of their statement but still run when the module is imported: the else branch of an `if`
\* whose test is false, the else branch of a try whose body does not raise, the handler of a try whose body raises, a finally
\* block, the else branch of a loop that is not broken out of.  The builder walks `.body` only (astutils.NodeVisitor.get_children).
ElseKinds == {"ifelse", "tryelse", "tryexcept", "finally", "forelse"}
FlowKinds == {"if", "ifmain", "try", "with", "for", "while"} \cup ElseKinds
LeafKinds == {"assign", "oldcm", "oldsm", "docstr", "mivar", "mivard", "del"}
   \* del: "del x" - unbinds the name (the builder has no visit_Delete: the statement is not seen)
   \* x = <literal> ; f = classmethod(f) ; f = staticmethod(f) ; a bare string ;
   \* mivar: "def _m<i>(self): self.x = <literal>" - a method (named after its own node, so never a duplicate) whose body
   \*        assigns the INSTANCE variable x;  mivard: the same followed, inside the method, by a bare string (documents x)
AllKinds == DefKinds \cup ClassKinds \cup FlowKinds \cup LeafKinds
Containers == DefKinds \cup ClassKinds \cup FlowKinds
OnlyInClass == {"cm", "sm", "prop", "setter", "oldcm", "oldsm", "mivar", "mivard"}
IvarKinds == {"mivar", "mivard"}
MName(i) == "_m" \o ToString(i)                 \* the name of the method a mivar statement defines

VARIABLES n, parent, kind, nm
vars == <<n, parent, kind, nm>>

RECURSIVE AncOf(_, _)
AncOf(i, par) == IF i = 0 THEN {} ELSE {par[i]} \cup AncOf(par[i], par)
\* nearest enclosing scope node: a class, a function, or 0 (module); flow blocks are transparent
RECURSIVE ScopeOf(_, _, _)
ScopeOf(i, par, kd) == LET p == par[i] IN
   IF p = 0 THEN 0 ELSE IF kd[p] \in ClassKinds \cup DefKinds THEN p ELSE ScopeOf(p, par, kd)
ScopeIsClass(i, par, kd) == LET s == ScopeOf(i, par, kd) IN s # 0 /\ kd[s] \in ClassKinds

Init == /\ n \in 1..MaxN
        /\ parent \in [1..n -> 0..(n - 1)]
        /\ kind \in [1..n -> KindSet]
        /\ nm \in [1..n -> Names]
        /\ parent[1] = 0
        \* canonical pre-order numbering: the parent of i lies on the path from i-1 to the root
        /\ \A i \in 2..n : parent[i] \in ({i - 1} \cup AncOf(i - 1, parent))
        /\ \A i \in 1..n : parent[i] # 0 => kind[parent[i]] \in Containers
        /\ \A i \in 1..n : kind[i] \in OnlyInClass => ScopeIsClass(i, parent, kind)
        \* flow blocks carry no name: normalise it so programs are not enumerated twice
        /\ \A i \in 1..n : kind[i] \in FlowKinds \cup {"docstr"} => nm[i] = CHOOSE x \in Names : TRUE
        \* a bare string as FIRST statement of a class / function body would be its docstring: not generated
        /\ \A i \in 1..n : (kind[i] = "docstr" /\ parent[i] # 0 /\ kind[parent[i]] \in ClassKinds \cup DefKinds) =>
                               \E j \in 1..(i - 1) : parent[j] = parent[i]
Next == UNCHANGED vars
Spec == Init /\ [][Next]_vars

Scope(i) == ScopeOf(i, parent, kind)
Anc(i) == AncOf(i, parent)
InMain(i) == \E a \in Anc(i) \ {0} : kind[a] = "ifmain"
InFunc(i) == \E a \in Anc(i) \ {0} : kind[a] \in DefKinds
\* the statement is reached: by the interpreter on import, and by the builder's walk
Runs(i) == ~InMain(i) /\ ~InFunc(i)
NodesIn(s) == {i \in 1..n : Scope(i) = s /\ Runs(i) /\ kind[i] \notin FlowKinds \cup {"docstr"}}   \* binding statements of scope s
SeqOfScope(s) == SetToSortSeq(NodesIn(s), LAMBDA a, b : a < b)                                            \* in source order
\* ... and the statements the builder's walk reaches
PdRuns(i) == Runs(i) /\ \A a \in Anc(i) \ {0} : kind[a] \notin ElseKinds
PdSeqOfScope(s) == SetToSortSeq({i \in NodesIn(s) : PdRuns(i)}, LAMBDA a, b : a < b)

\* ---------------------------------------------------------------- reference: PyExec
PyKind(i) == CASE kind[i] = "def" -> IF Scope(i) # 0 /\ kind[Scope(i)] \in ClassKinds THEN "method" ELSE "function"
               [] kind[i] = "adef" -> IF Scope(i) # 0 /\ kind[Scope(i)] \in ClassKinds THEN "async method" ELSE "async function"
               [] kind[i] = "cm" -> "class method"
               [] kind[i] = "sm" -> "static method"
               [] kind[i] = "prop" -> "property"
               [] kind[i] = "class" -> "class"
               [] kind[i] = "exc" -> "exception"
               [] kind[i] = "assign" -> "variable"
               [] OTHER -> "?"
\* fold the binding statements of a scope in source order: ns : name -> [node, kind]
RECURSIVE PyFold(_, _, _)
PyFold(seq, k, ns) ==
  IF k > Len(seq) THEN ns
  ELSE LET i == seq[k] IN
    CASE kind[i] = "setter" ->      \* @x.setter def x: rebinds x to a property built from the old one (needs a property x)
             PyFold(seq, k + 1, IF nm[i] \in DOMAIN ns /\ ns[nm[i]].kind = "property" THEN ns ELSE [x \in DOMAIN ns \ {nm[i]} |-> ns[x]])
      [] kind[i] \in {"oldcm", "oldsm"} ->   \* f = classmethod(f): wraps whatever f is now (NameError if unbound: not generated)
             PyFold(seq, k + 1, IF nm[i] \in DOMAIN ns /\ ns[nm[i]].kind \in {"method", "async method", "class method", "static method"}
                                  THEN [ns EXCEPT ![nm[i]].kind = IF kind[i] = "oldcm" THEN "class method" ELSE "static method"]
                                  ELSE ns)
      [] kind[i] = "del" -> PyFold(seq, k + 1, [x \in DOMAIN ns \ {nm[i]} |-> ns[x]])
      [] kind[i] \in IvarKinds ->           \* the class gets the method; the assignment in its body binds nothing in the class
             PyFold(seq, k + 1, [x \in DOMAIN ns \cup {MName(i)} |-> IF x = MName(i) THEN [node |-> i, kind |-> "method"] ELSE ns[x]])
      [] OTHER -> PyFold(seq, k + 1, [x \in DOMAIN ns \cup {nm[i]} |-> IF x = nm[i] THEN [node |-> i, kind |-> PyKind(i)] ELSE ns[x]])
PyNS(s) == PyFold(SeqOfScope(s), 1, <<>>)
PyNSBefore(s, k) == PyFold(SelectSeq(SeqOfScope(s), LAMBDA j : j < k), 1, <<>>)
\* a generated program must be importable: setter needs a property, old-style wrapping needs a function, del a bound name
Importable == \A i \in 1..n : Runs(i) =>
   /\ kind[i] = "del" => nm[i] \in DOMAIN PyNSBefore(Scope(i), i)
   /\ kind[i] = "setter" => \E j \in NodesIn(Scope(i)) : j < i /\ nm[j] = nm[i] /\ kind[j] = "prop"
                            /\ \A j2 \in NodesIn(Scope(i)) : (j < j2 /\ j2 < i /\ nm[j2] = nm[i]) => kind[j2] = "setter"
   /\ kind[i] \in {"oldcm", "oldsm"} => \E j \in NodesIn(Scope(i)) : j < i /\ nm[j] = nm[i] /\ kind[j] \in {"def", "adef", "cm", "sm"}
                            /\ \A j2 \in NodesIn(Scope(i)) : (j < j2 /\ j2 < i /\ nm[j2] = nm[i]) => kind[j2] \in {"oldcm", "oldsm"}

\* ---------------------------------------------------------------- transcription: what the builder documents
PdKind(i) == CASE kind[i] = "def" -> IF Scope(i) # 0 /\ kind[Scope(i)] \in ClassKinds THEN "method" ELSE "function"
               [] kind[i] = "adef" -> IF Scope(i) # 0 /\ kind[Scope(i)] \in ClassKinds THEN "async method" ELSE "async function"
               [] kind[i] = "cm" -> "class method"
               [] kind[i] = "sm" -> "static method"
               [] kind[i] = "prop" -> "property"
               [] kind[i] = "class" -> "class"
               [] kind[i] = "exc" -> "exception"
               [] kind[i] = "assign" -> "variable"
               [] OTHER -> "?"
RECURSIVE PdFold(_, _, _)
PdFold(seq, k, ns) ==
  IF k > Len(seq) THEN ns
  ELSE LET i == seq[k] IN
    CASE kind[i] = "setter" ->     \* the function is renamed "x.setter" so it never replaces the property object - and is documented
             PdFold(seq, k + 1, [x \in DOMAIN ns \cup {nm[i] \o ".setter"} |->
                                   IF x = nm[i] \o ".setter" THEN [node |-> i, kind |-> "method"] ELSE ns[x]])
      [] kind[i] \in {"oldcm", "oldsm"} ->                \* _handleOldSchoolMethodDecoration: target must be a Function in contents
             PdFold(seq, k + 1, IF nm[i] \in DOMAIN ns /\ ns[nm[i]].kind \in {"method", "async method", "class method", "static method"}
                                  THEN [ns EXCEPT ![nm[i]].kind = IF kind[i] = "oldcm" THEN "class method" ELSE "static method"]
                                  ELSE ns)
      [] kind[i] = "del" -> PdFold(seq, k + 1, ns)          \* not visited
      [] kind[i] = "assign" ->                            \* _handleModuleVar/_handleClassVar
             PdFold(seq, k + 1,
                IF nm[i] \notin DOMAIN ns THEN [x \in DOMAIN ns \cup {nm[i]} |-> IF x = nm[i] THEN [node |-> i, kind |-> "variable"] ELSE ns[x]]
                ELSE IF ns[nm[i]].kind \in {"variable", "ivar", "property"} THEN [ns EXCEPT ![nm[i]].node = IF ns[nm[i]].kind = "property" THEN @ ELSE i]
                ELSE ns)                                  \* the name is a function or class: the assignment is ignored
      [] kind[i] \in IvarKinds ->                          \* the method, then _handleInstanceVar for the assignment in its body:
             LET ns1 == [x \in DOMAIN ns \cup {MName(i)} |-> IF x = MName(i) THEN [node |-> i, kind |-> "method"] ELSE ns[x]] IN
             PdFold(seq, k + 1,
                IF nm[i] \notin DOMAIN ns1 THEN [x \in DOMAIN ns1 \cup {nm[i]} |-> IF x = nm[i] THEN [node |-> i, kind |-> "ivar"] ELSE ns1[x]]
                ELSE IF ns1[nm[i]].kind \in {"variable", "ivar"} THEN [ns1 EXCEPT ![nm[i]] = [node |-> i, kind |-> "ivar"]]   \* kind set unconditionally
                ELSE ns1)                                 \* a property stays a property (the setter is called); a function or class: ignored
      [] OTHER -> PdFold(seq, k + 1, [x \in DOMAIN ns \cup {nm[i]} |-> IF x = nm[i] THEN [node |-> i, kind |-> PdKind(i)] ELSE ns[x]])
PdNS(s) == PdFold(PdSeqOfScope(s), 1, <<>>)

\* namespaces that exist: the module, and every class that is the winner of its name in an existing namespace
RECURSIVE Exists(_, _)
Exists(s, which) == IF s = 0 THEN TRUE
                    ELSE /\ (IF which = "py" THEN Runs(s) ELSE PdRuns(s)) /\ kind[s] \in ClassKinds
                         /\ Exists(Scope(s), which)
                         /\ LET ns == IF which = "py" THEN PyNS(Scope(s)) ELSE PdNS(Scope(s))
                            IN nm[s] \in DOMAIN ns /\ ns[nm[s]].node = s
ScopesOf(which) == {s \in 0..n : Exists(s, which)}
Table(which) == LET ss == SetToSortSeq(ScopesOf(which), LAMBDA a, b : a < b)
                IN [k \in 1..Len(ss) |-> [scope |-> ss[k],
                      names |-> LET ns == IF which = "py" THEN PyNS(ss[k]) ELSE PdNS(ss[k])
                                    ks == SetToSeq(DOMAIN ns)
                                IN [j \in 1..Len(ks) |-> [name |-> ks[j], node |-> ns[ks[j]].node, kind |-> ns[ks[j]].kind]]]]

\* ---------------------------------------------------------------- attribute docstrings
\* Reference (PEP 224 / 258 convention pydoctor documents): a string literal IMMEDIATELY after a simple assignment, in the
\* same block, documents that variable; if several assignments of the name are documented, the last one wins.
RefDocOf(i) == IF i < n /\ kind[i + 1] = "docstr" /\ parent[i + 1] = parent[i] THEN i + 1 ELSE 0
\* (a mivard statement carries its own string: its "doc statement" is the node itself.)  Only the assignments of the
\* variable as it finally is count: what documented a variable that a later def / class / property of the same name replaced
\* went away with it, and a property is not documented by strings at all.
SameIncarnation(s, x, j) == LET w == PyNS(s)[x].node IN
   ~\E m \in NodesIn(s) : j < m /\ m <= w /\ nm[m] = x /\ kind[m] \notin {"assign", "mivar", "mivard", "oldcm", "oldsm"}
RefVarDoc(s, x) == LET isvar == x \in DOMAIN PyNS(s) /\ PyNS(s)[x].kind = "variable"
                       ds == IF ~isvar THEN {} ELSE
                             ({RefDocOf(i) : i \in {j \in NodesIn(s) : kind[j] = "assign" /\ nm[j] = x /\ SameIncarnation(s, x, j)}} \ {0})
                             \cup {j \in NodesIn(s) : kind[j] = "mivard" /\ nm[j] = x /\ SameIncarnation(s, x, j)}
                   IN IF ds = {} THEN 0 ELSE CHOOSE d \in ds : \A e \in ds : e <= d
\* Transcription: ASTBuilder.currentAttr.  Walk the statements in source order; `cur` is the (scope, name) of the attribute
\* a following string would document.  addAttribute / _storeCurrentAttr set it, _push / _pop (entering and leaving a class
\* or function) clear it, visit_Expr consumes it; flow statements (if/try/...) leave it alone.
Pushes(k) == kind[k] \in ClassKinds \cup (DefKinds \ {"prop"}) \cup IvarKinds
LeftBefore(k) == k > 1 /\ \E c \in (({k - 1} \cup Anc(k - 1)) \ ({0} \cup Anc(k))) : PdRuns(c) /\ Pushes(c)
PdNSBefore(s, k) == PdFold(SelectSeq(PdSeqOfScope(s), LAMBDA j : j < k), 1, <<>>)
\* does the assignment at k touch an Attribute object (new or existing)?  (otherwise it is ignored: the name is a function/class)
SetsAttr(k) == LET ns == PdNSBefore(Scope(k), k) IN nm[k] \notin DOMAIN ns \/ ns[nm[k]].kind \in {"variable", "ivar", "property"}
\* the assignment in the body of the mivar method at k reaches _storeCurrentAttr (not a property, function or class of that name)
IvarSetsAttr(k) == LET ns == PdNSBefore(Scope(k), k) IN nm[k] \notin DOMAIN ns \/ ns[nm[k]].kind \in {"variable", "ivar"}
Drop(docs, key) == [d \in DOMAIN docs \ {key} |-> docs[d]]
RECURSIVE PdWalk(_, _, _)
PdWalk(k, cur, docs) ==
  IF k > n THEN docs
  ELSE IF ~PdRuns(k) THEN PdWalk(k + 1, IF LeftBefore(k) THEN <<>> ELSE cur, docs)
  ELSE LET c0 == IF LeftBefore(k) THEN <<>> ELSE cur IN
    CASE kind[k] = "mivard" /\ IvarSetsAttr(k) ->        \* pushFunction clears, the assignment sets, the string consumes, popFunction clears
             PdWalk(k + 1, <<>>, [d \in DOMAIN docs \cup {<<Scope(k), nm[k]>>} |-> IF d = <<Scope(k), nm[k]>> THEN k ELSE docs[d]])
      [] kind[k] \in IvarKinds -> PdWalk(k + 1, <<>>, docs)
      \* a definition is a NEW object under that name: what documented the previous holder stays with the superseded object
      [] Pushes(k) -> PdWalk(k + 1, <<>>, IF kind[k] = "setter" THEN docs ELSE Drop(docs, <<Scope(k), nm[k]>>))
      \* _handlePropertyDef -> addAttribute, then currentAttr is cleared: a property is not the target of an assignment, a string
      \* that follows its definition documents nothing (it did, before the repair 571b126)
      [] kind[k] = "prop" -> PdWalk(k + 1, <<>>, Drop(docs, <<Scope(k), nm[k]>>))
      [] kind[k] = "assign" -> PdWalk(k + 1, IF SetsAttr(k) THEN <<Scope(k), nm[k]>> ELSE c0, docs)
      [] kind[k] = "docstr" -> IF c0 = <<>> THEN PdWalk(k + 1, c0, docs)
                               ELSE PdWalk(k + 1, <<>>, [d \in DOMAIN docs \cup {c0} |-> IF d = c0 THEN k ELSE docs[d]])
      [] OTHER -> PdWalk(k + 1, c0, docs)
PdDocs == PdWalk(1, <<>>, <<>>)
PdVarDoc(s, x) == IF <<s, x>> \in DOMAIN PdDocs THEN PdDocs[<<s, x>>] ELSE 0
DocTable(which) == LET ss == SetToSortSeq(ScopesOf(which), LAMBDA a, b : a < b)
                   IN [k \in 1..Len(ss) |-> [scope |-> ss[k],
                         docs |-> LET ns == IF which = "py" THEN PyNS(ss[k]) ELSE PdNS(ss[k])
                                      vs == SetToSeq({x \in DOMAIN ns : ns[x].kind \in {"variable", "ivar", "property"}})
                                  IN [j \in 1..Len(vs) |-> [name |-> vs[j],
                                         doc |-> IF which = "py" THEN RefVarDoc(ss[k], vs[j]) ELSE PdVarDoc(ss[k], vs[j])]]]]

\* design level: the transcription agrees with the reference.  Instance variables are documented on purpose although the
\* class statement binds nothing for them: a name the interpreter does not bind may be documented as instance variable only,
\* and a class variable that is also assigned through self is one documented variable (value of either assignment).
SameNS(s) == LET py == PyNS(s) pd == PdNS(s) IN
   /\ \A x \in DOMAIN py : x \in DOMAIN pd /\ (IF pd[x].kind = "ivar" THEN py[x].kind = "variable" ELSE pd[x] = py[x])
   /\ \A x \in DOMAIN pd \ DOMAIN py : pd[x].kind = "ivar"
DocumentedIsPyExec == Importable => (ScopesOf("py") = ScopesOf("pd") /\ \A s \in ScopesOf("py") : SameNS(s))
Emit == Importable => PrintT(ToJson([n |-> n, parent |-> parent, kind |-> kind, nm |-> nm,
                                     py |-> Table("py"), pd |-> Table("pd"), pydoc |-> DocTable("py"), pddoc |-> DocTable("pd"),
                                     agree |-> (ScopesOf("py") = ScopesOf("pd") /\ \A s \in ScopesOf("py") : SameNS(s))]))
=============================================================================
