------------------------------- MODULE ExprRe -------------------------------
(***************************************************************************)
(* Property C15, values of the form re.compile(<pattern>): pydoctor does   *)
(* not show the pattern as written but RE-SYNTHESISES it from the parse    *)
(* tree of the vendored sre_parse36 (_pyval_repr._colorize_ast_re :741-,   *)
(* _colorize_re_pattern, _colorize_re_tree).  The synthesis itself is an   *)
(* environment function here; what the spec fixes is                       *)
(*   - which patterns are PRESENTED that way and which fall back on the    *)
(*     ordinary call rendering (a pattern that does not parse; a pattern   *)
(*     that parses but contains a construct _colorize_re_tree raises on:   *)
(*     the half-written output is rolled back with restore(mark), :765-781)*)
(*     - a fallback starts from a clean slate;                             *)
(*   - the contract: the pattern shown denotes the same regular expression *)
(*     (judged by the harness with Python's own `re`: same groups, same    *)
(*     verdict on every string up to 3 characters over a small alphabet);  *)
(*   - the known deviations of the synthesis, as classes of patterns.      *)
(* A pattern is a sequence of atoms, each a piece of pattern text.         *)
(***************************************************************************)
EXTENDS Naturals, Sequences, FiniteSets, TLC, Json

CONSTANTS Atoms, MaxAtoms, Open, Fixed

\* atoms are named (the harness holds the text of each name, c15.RE_ATOM_TEXT); the ones the spec knows something about:
Invalid     == {"open_paren"}             \* (              sre_parse36.parse raises error: ordinary call rendering
Unsupported == {"cond_group"}             \* (a)?(?(1)b|c)  parses; GROUPREF_EXISTS is unknown to _colorize_re_tree: ValueError half-way
\* guarded since their repair: [a\-z] keeps the backslash of a literal hyphen inside a set (373edf3; it used to be shown as the
\* range a-z), (?i:a) (?s:.) keep the flags of the group (f8c859c; they used to be shown as (?:a)).  No class is known any more:
\* whatever the colouriser presents must denote the same regular expression.
HyphenInSet == {"set_a_hyphen_z"}
ScopedFlag  == {"scoped_i", "scoped_s"}
NamedGroup  == "named_group"              \* (?P<n>a)

VARIABLE pat
vars == <<pat>>
RECURSIVE SeqsUpTo(_, _)
SeqsUpTo(S, n) == IF n = 0 THEN {<<>>}
                  ELSE SeqsUpTo(S, n - 1) \cup {Append(s, x) : s \in {t \in SeqsUpTo(S, n - 1) : Len(t) = n - 1}, x \in S}
Init == pat \in (SeqsUpTo(Atoms, MaxAtoms) \ {<<>>})
Next == FALSE /\ UNCHANGED vars
Spec == Init /\ [][Next]_vars

Has(S) == \E i \in DOMAIN pat : pat[i] \in S
\* presented by the regular-expression colouriser, or shown like any other call (from a clean slate)
DupName == Cardinality({i \in DOMAIN pat : pat[i] = NamedGroup}) > 1        \* redefinition of group name: not a pattern
IsPattern == ~Has(Invalid) /\ ~DupName
Presented == IsPattern /\ ~Has(Unsupported)
Classes == {}
DesignKnown == Classes \subseteq Open
Emit == PrintT(ToJson([pat |-> pat, ispattern |-> IsPattern, presented |-> Presented, cls |-> Classes]))
=============================================================================
