-------------------------------- MODULE Slug --------------------------------
(***************************************************************************)
(* C08, termination: the one genuine loop on the rendering path of a       *)
(* docstring - ParsedEpytextDocstring._slugify (epytext.py:1367-1376), the *)
(* de-duplication of section anchors:                                      *)
(*                                                                         *)
(*     s = slugify(text); i = 1                                            *)
(*     while s in self._section_slugs:                                     *)
(*         s = slugify(f"{text}-{i}"); i += 1                              *)
(*     self._section_slugs.add(s); return s                                *)
(*                                                                         *)
(* A docstring is a sequence of section headings; a heading is a sequence  *)
(* of word tokens ("a" = a long phrase, "b" = a short word, "1" = the      *)
(* number 1, "j" = a word without any ASCII letter - Japanese, Greek,      *)
(* punctuation - of which slugify keeps nothing), so that the heading      *)
(* <<"a","1">> has the same slug as the first de-duplication candidate of  *)
(* the heading <<"a">>, and the heading <<"j">> has the EMPTY slug (its    *)
(* candidates are "-1", "-2", ..: the dash survives).  slugify is the      *)
(* environment: the identity on token sequences, cut after Cap tokens      *)
(* (Cap = 0: never cut - the tree as it is).  The termination argument is  *)
(* the invariant Variant: the candidates for i = 1, 2, .. are pairwise     *)
(* distinct, so after |slugs| + 1 of them one is free.  It fails as soon   *)
(* as slugify can map two candidates to the same slug (Cap > 0).           *)
(*                                                                         *)
(* Every enumerated docstring is printed with the anchors the model        *)
(* assigns; the harness writes it as a real epytext docstring, runs the    *)
(* real to_node() under an alarm and compares the section ids.             *)
(***************************************************************************)
EXTENDS Naturals, Sequences, FiniteSets, TLC, Json

CONSTANTS MaxSections,   \* sections per docstring
          Cap,           \* 0, or the number of tokens slugify keeps
          Bound          \* exploration bound on i (only reached when the loop does not terminate)

SeqsUpTo(S, n) == UNION {[1..m -> S] : m \in 1..n}
Headings == {h \in SeqsUpTo({"a", "1"}, 3) : h[1] = "a"} \cup {<<"b">>, <<"j">>, <<"j", "a">>}
Docs == SeqsUpTo(Headings, MaxSections)

Take(t, n) == IF n = 0 \/ Len(t) <= n THEN t ELSE SubSeq(t, 1, n)
Ascii(t) == SelectSeq(t, LAMBDA w : w # "j")                 \* .encode('ascii', 'ignore') + [^\w\s-] removed
Slugify(t) == Take(Ascii(t), Cap)                            \* epytext.py:162-176 (environment)
\* slugify(f"{text}-{i}"): the dash joins the number to the last word, or stands alone in front of it
Candidate(t, n) == IF Ascii(t) = <<>> THEN Take(<<"-" \o ToString(n)>>, Cap) ELSE Slugify(t \o <<ToString(n)>>)

VARIABLES doc, k, pc, s, i, slugs, ids, iters
vars == <<doc, k, pc, s, i, slugs, ids, iters>>

Init == doc \in Docs /\ k = 1 /\ pc = "call" /\ s = <<>> /\ i = 0 /\ slugs = {} /\ ids = <<>> /\ iters = 0
Call == /\ pc = "call" /\ k <= Len(doc)
        /\ s' = Slugify(doc[k]) /\ i' = 1 /\ pc' = "loop"
        /\ UNCHANGED <<doc, k, slugs, ids, iters>>
Loop == /\ pc = "loop" /\ s \in slugs /\ i <= Bound
        /\ s' = Candidate(doc[k], i) /\ i' = i + 1 /\ iters' = iters + 1
        /\ UNCHANGED <<doc, k, pc, slugs, ids>>
Exit == /\ pc = "loop" /\ s \notin slugs
        /\ slugs' = slugs \cup {s} /\ ids' = Append(ids, s) /\ k' = k + 1 /\ pc' = "call"
        /\ UNCHANGED <<doc, s, i, iters>>
Next == Call \/ Loop \/ Exit
Spec == Init /\ [][Next]_vars /\ WF_vars(Next)

Done == pc = "call" /\ k > Len(doc)
\* the termination argument
Variant == pc = "loop" => i <= Cardinality(slugs) + 1
Terminates == <>Done
\* what the anchors are for: one per section, all different, each starting with the heading's own slug
IdsDistinct == \A x, y \in 1..Len(ids) : x # y => ids[x] # ids[y]
IdsFaithful == \A x \in 1..Len(ids) : Len(ids[x]) >= Len(Slugify(doc[x])) /\ SubSeq(ids[x], 1, Len(Slugify(doc[x]))) = Slugify(doc[x])

EmitTerminal == Done => PrintT(ToJson([doc |-> doc, ids |-> ids, iters |-> iters]))
=============================================================================
