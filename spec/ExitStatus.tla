---------------------------- MODULE ExitStatus ----------------------------
(***************************************************************************)
(* C16, second half: every reported documentation problem is counted and   *)
(* the exit status of a run follows from what was reported.                *)
(*                                                                         *)
(*   System.msg            model.py:1038-1079   thresh < 0 => violations += 1; printed iff      *)
(*                                              thresh <= verbosity <= topthresh                *)
(*   Documentable.report   model.py:390-417     -> msg(section, "<path>:<line>: <descr>", thresh=-1) *)
(*   reportErrors          epydoc2stan.py:567-581  once per (section, object): parse_errors[section] *)
(*                                              gets the object, one report per error           *)
(*   driver.main           driver.py:149-198    summary of docstring syntax errors, exit 0 / 2 / 3 *)
(*                                                                         *)
(* Source = "enum": a run is a project of objects, each with a set of      *)
(* planted problems, a -W flag and a verbosity; the problems are met in any*)
(* order (Interleave) or in a canonical one; the terminal state is printed *)
(* and replayed: the harness writes that project and runs the real         *)
(* driver.main.  Source = "file": event traces recorded from real runs     *)
(* (every top-level System.msg call, every reportErrors call, the value    *)
(* returned by main) are validated: each event must be a step of this      *)
(* machine that leads to the logged counters.                              *)
(***************************************************************************)
EXTENDS Naturals, Integers, Sequences, FiniteSets, TLC, Json, IOUtils

CONSTANTS Source,        \* "enum" | "file"
          Objs,          \* object ids of a run (enum)
          RichObjs,      \* objects whose problem set ranges over everything; the others get a small menu
          Interleave     \* TRUE: problems are met in any order

\* ------------------------------------------------------------------ runs (enum)
\* per object: docformat of its module, planted problems
\*   xref   unresolvable cross-reference          -> report(section='resolve_identifier_xref')
\*   field  unknown field                         -> Field.report -> report(section='docstring')
\*   nerr   markup errors in the docstring        -> ONE reportErrors(obj, errs, 'docstring') with nerr errors
\*   expr   signature that cannot be rendered     -> reportErrors(obj, [e], 'signature')
\*   regex  constant whose regex cannot be parsed -> reportWarnings(section='colorize constant')
ObjCfg == [fmt : {"rst", "epy"}, xref : BOOLEAN, field : BOOLEAN, nerr : 0..2, expr : BOOLEAN, regex : BOOLEAN]
\* a fatal epytext error turns the whole docstring into plain text: nothing else in it is markup any more
Realisable(c) == c.fmt = "epy" => (c.nerr <= 1 /\ (c.nerr = 1 => ~c.xref /\ ~c.field))
Clean(c) == ~c.xref /\ ~c.field /\ c.nerr = 0 /\ ~c.expr /\ ~c.regex
Menu == {c \in ObjCfg : c.fmt = "rst" /\ ~c.xref /\ ~c.field /\ ~c.expr /\ ~c.regex /\ c.nerr <= 1}
Events(o, c) == (IF c.xref THEN {[o |-> o, kind |-> "xref", n |-> 1]} ELSE {})
           \cup (IF c.field THEN {[o |-> o, kind |-> "field", n |-> 1]} ELSE {})
           \cup (IF c.nerr > 0 THEN {[o |-> o, kind |-> "parse", n |-> c.nerr]} ELSE {})
           \cup (IF c.expr THEN {[o |-> o, kind |-> "expr", n |-> 1]} ELSE {})
           \cup (IF c.regex THEN {[o |-> o, kind |-> "regex", n |-> 1]} ELSE {})
Order(e) == CASE e.kind = "parse" -> 1 [] e.kind = "xref" -> 2 [] e.kind = "field" -> 3 [] e.kind = "expr" -> 4 [] e.kind = "regex" -> 5
Key(e) == 10 * e.o + Order(e)

Traces == IF Source = "file" THEN JsonDeserialize(IOEnv.TRACE_FILE) ELSE <<>>
ASSUME TLCSet(1, {})

VARIABLES tid,         \* 0 (enum) or the index of the trace being validated
          cfg,         \* enum: [o \in Objs |-> ObjCfg]; file: 0
          W, V,        \* --warnings-as-errors, verbosity (0 default, -1 = -q)
          todo,        \* enum: problems still to be met; file: index of the next event
          violations,  \* System.violations
          perr,        \* System.parse_errors as a set of <<section, object>>
          printed,     \* number of "<path>:<line>: ..." problem lines written to stdout
          sumlines,    \* number of summary lines written by main
          met,         \* ghost: problems met so far, as records [kind, o, n]
          exit         \* -1 while running, else the value returned by main
vars == <<tid, cfg, W, V, todo, violations, perr, printed, sumlines, met, exit>>

InitEnum == /\ Source = "enum" /\ tid = 0
            /\ cfg \in [Objs -> {c \in ObjCfg : Realisable(c)}]
            /\ \A o \in Objs \ RichObjs : cfg[o] \in Menu
            /\ W \in BOOLEAN /\ V \in {0, 0 - 1}
            /\ todo = UNION {Events(o, cfg[o]) : o \in Objs}
InitFile == /\ Source = "file" /\ tid \in 1..Len(Traces) /\ cfg = 0
            /\ W = Traces[tid].W /\ V = Traces[tid].V
            /\ todo = 1
Init == /\ (InitEnum \/ InitFile)
        /\ violations = 0 /\ perr = {} /\ printed = 0 /\ sumlines = 0 /\ met = {} /\ exit = 0 - 1

\* ------------------------------------------------------------------ the mechanism
Shown(thresh, top) == thresh <= V /\ V <= top                       \* model.py:1070
Counted(thresh) == IF thresh < 0 THEN 1 ELSE 0                        \* model.py:1064-1068
\* Documentable.report -> System.msg(section, "<path>:<line>: ..", thresh=-1)
ReportN(n) == /\ violations' = violations + n * Counted(0 - 1)
              /\ printed' = printed + (IF Shown(0 - 1, 100) THEN n ELSE 0)
\* epydoc2stan.reportErrors(obj, errs, section)
ReportErrors(section, o, n) ==
    IF <<section, o>> \in perr
      THEN UNCHANGED <<violations, printed, perr>>                    \* already reported for this object: nothing at all
      ELSE perr' = perr \cup {<<section, o>>} /\ ReportN(n)
Section(kind) == IF kind = "expr" THEN "signature" ELSE "docstring"

\* enum: meet one planted problem
Meet(e) == /\ exit = 0 - 1 /\ Source = "enum" /\ e \in todo
           /\ (Interleave \/ \A f \in todo : Key(f) >= Key(e))
           /\ todo' = todo \ {e}
           /\ met' = met \cup {e}
           /\ IF e.kind \in {"parse", "expr"} THEN ReportErrors(Section(e.kind), e.o, e.n)
              ELSE ReportN(1) /\ UNCHANGED perr
           /\ UNCHANGED <<sumlines, exit>>

DocErrs == {p \in perr : p[1] = "docstring"}
\* driver.py:171-190
ExitCode(v) == IF W /\ v > 0 THEN 3 ELSE IF perr # {} THEN 2 ELSE 0
SummaryMsgs == IF DocErrs # {} THEN 1 + Cardinality(DocErrs) ELSE 0   \* p(..) : msg('docstring-summary', .., thresh=-1, topthresh=1)
Finish == /\ exit = 0 - 1 /\ Source = "enum" /\ todo = {}
          /\ violations' = violations + SummaryMsgs * Counted(0 - 1)
          /\ sumlines' = sumlines + (IF Shown(0 - 1, 1) THEN SummaryMsgs ELSE 0)
          /\ exit' = ExitCode(violations')
          /\ UNCHANGED <<todo, perr, printed, met>>

\* ------------------------------------------------------------------ file: validate a recorded run
Ev == Traces[tid].ev[todo]
TMsg == /\ Source = "file" /\ exit = 0 - 1 /\ todo <= Len(Traces[tid].ev) /\ Ev.op = "msg"
        /\ violations' = violations + Counted(Ev.thresh)
        /\ violations' = Ev.v                                           \* the logged counter
        /\ printed' = printed + (IF Ev.problem /\ Shown(Ev.thresh, Ev.top) THEN 1 ELSE 0)
        /\ (Ev.problem => Ev.shown = Shown(Ev.thresh, Ev.top))
        /\ UNCHANGED <<perr, sumlines, met, exit>>
TReportErrors == /\ Source = "file" /\ exit = 0 - 1 /\ todo <= Len(Traces[tid].ev) /\ Ev.op = "reportErrors"
                 /\ ReportErrors(Ev.section, Ev.o, Ev.n)
                 /\ violations' = Ev.v
                 /\ (<<Ev.section, Ev.o>> \in perr') = Ev.has
                 /\ met' = met \cup {[kind |-> (IF Ev.section = "docstring" THEN "parse" ELSE "expr"), o |-> Ev.o, n |-> Ev.n]}
                 /\ UNCHANGED <<sumlines, exit>>
TExit == /\ Source = "file" /\ exit = 0 - 1 /\ todo <= Len(Traces[tid].ev) /\ Ev.op = "exit"
         /\ Ev.code = ExitCode(violations)
         /\ Ev.perr = Cardinality(perr)
         /\ exit' = Ev.code
         /\ UNCHANGED <<violations, perr, printed, sumlines, met>>
TraceNext == (TMsg \/ TReportErrors \/ TExit) /\ todo' = todo + 1

Next == /\ \/ \E e \in (IF Source = "enum" THEN todo ELSE {}) : Meet(e)
           \/ Finish
           \/ TraceNext
        /\ UNCHANGED <<tid, cfg, W, V>>
Spec == Init /\ [][Next]_vars

\* ------------------------------------------------------------------ the property (from the statement)
Done == exit # 0 - 1
Unparsed == \E e \in met : e.kind \in {"parse", "expr"}         \* some docstring or displayed expression could not be parsed
\* every problem written to stdout has been counted
EveryReportCounted == printed <= violations
\* -W: status 3 exactly when at least one problem was reported
ExitW == (Done /\ W) => (exit = 3 <=> printed > 0)
\* no -W: status 2 exactly when something could not be parsed, 0 otherwise
ExitNoW == (Done /\ ~W) => (exit = (IF Unparsed THEN 2 ELSE 0))
\* enum only: nothing that was planted is lost: one line per problem, one per markup error (n is 1 or 2)
NothingLost == (Done /\ Source = "enum") => printed = Cardinality(met) + Cardinality({e \in met : e.n = 2})

\* ------------------------------------------------------------------ emission / acceptance
EmitTerminal == (Done /\ Source = "enum") =>
    PrintT(ToJson([cfg |-> [o \in Objs |-> cfg[o]], objs |-> Cardinality(Objs), W |-> W, V |-> V, exit |-> exit, violations |-> violations,
                   printed |-> printed, sumlines |-> sumlines, perr |-> Cardinality(perr),
                   unparsed |-> Unparsed]))
Accept == (Source = "file" /\ Done /\ todo = Len(Traces[tid].ev) + 1) => TLCSet(1, TLCGet(1) \cup {tid})
Post == IF Source = "file" THEN PrintT(ToJson([accepted |-> TLCGet(1), total |-> Len(Traces)])) ELSE TRUE
=============================================================================
