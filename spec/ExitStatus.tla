---------------------------- MODULE ExitStatus ----------------------------
(***************************************************************************)
(* C16, second half: every reported documentation problem is counted and   *)
(* the exit status of a run follows from what was reported.                *)
(*                                                                         *)
(*   System.msg            model.py:1038-1079   thresh < 0 => violations += 1; printed iff      *)
(*                                              thresh <= verbosity <= topthresh                *)
(*   Documentable.report   model.py:390-417     -> msg(section, "<path>:<line>: <descr>", thresh=-1) *)
(*   reportErrors          epydoc2stan.py:567-581  once per (section, object): parse_errors[section] *)
(*                                              gets the object, one report per error           *)
(*   driver.main           driver.py:149-198    summary of docstring syntax errors, exit 0 / 2 / 3 *)
(*                                                                         *)
(* Source = "enum": a run is a project of objects, each with a set of      *)
(* planted problems, a -W flag and a verbosity; the problems are met in any*)
(* order (Interleave) or in a canonical one; the terminal state is printed *)
(* and replayed: the harness writes that project and runs the real         *)
(* driver.main.  Source = "file": event traces recorded from real runs     *)
(* (every top-level System.msg call, every reportErrors call, the value    *)
(* returned by main) are validated: each event must be a step of this      *)
(* machine that leads to the logged counters.                              *)
(***************************************************************************)
EXTENDS Naturals, Integers, Sequences, FiniteSets, TLC, Json, IOUtils

CONSTANTS Source,        \* "enum" | "file"
          Objs,          \* object ids of a run (enum)
          RichObjs,      \* objects whose problem set ranges over everything; the others get a small menu
          Interleave,    \* TRUE: problems are met in any order
          VarSourceIsNewParent, \* TRUE while the tree has deviation reexported-variable-reported-in-package (ensure_parsed_docstring
                         \* takes obj.parent for the source of a field-documented variable, also after the variable was moved)
          StaleNameKept  \* TRUE while the tree has deviation duplicate-definition-errors-swallowed (handleDuplicate renames the
                         \* superseded definition but leaves its OLD name in parse_errors)

\* ------------------------------------------------------------------ runs (enum)
\* per object: docformat of its module, planted problems
\*   xref   unresolvable cross-reference          -> report(section='resolve_identifier_xref')
\*   field  unknown field                         -> Field.report -> report(section='docstring')
\*   nerr   markup errors in the docstring        -> ONE reportErrors(obj, errs, 'docstring') with nerr errors
\*   expr   signature that cannot be rendered     -> reportErrors(obj, [e], 'signature')
\*   regex  constant whose regex cannot be parsed -> reportWarnings(section='colorize constant')
\*   shape  func   the problems sit in a function's docstring: everything is found while the pages are rendered
\*          class  ... in a class's OWN docstring: it is parsed while the module is BUILT (extract_fields in visit_ClassDef,
\*                 astbuilder.py), so its markup errors are reported - under the name the class has at that moment - long
\*                 before anything is rendered
\*          reexp  a class defined in a private module and re-exported through __all__ of its package: after its module is
\*                 built the class is MOVED (pkg._impl.K -> pkg.K, model.Documentable.reparent); the name recorded in
\*                 parse_errors is then the name of nothing
\*          dup    a class defined TWICE in its module; the first definition carries the markup errors, the second is clean.
\*                 System.handleDuplicate renames the first one ("K" -> "K 0") when the second is met: the name recorded in
\*                 parse_errors now designates the clean definition.  The superseded definition has no page: nothing of
\*                 it is ever rendered, so it can only have build-phase problems
\*          dup2   the same, the SECOND definition carries the problems (nothing is renamed after the report)
\*          inhF   the problems sit in the docstring of a METHOD that a subclass in another module overrides without a docstring
\*          inhL   of its own: the text is rendered twice, for the method and for the override that inherits it, but it is one
\*                 docstring: parse errors and unresolvable links are reported once, against the defining method (the heir
\*                 renders silently), field problems once per rendering (FieldHandler runs for both objects).  The ORDER IN
\*                 WHICH THE PAGES ARE WRITTEN is the dimension: inhF = the subclass's module comes first, inhL = last
\*   crash  (func shape, reST) the module has, BEFORE the object, another function whose docstring sets a default role
\*          (.. default-role::) and then makes the reST parser raise: one problem of its own (the parser's crash, reported
\*          as a bad docstring of that function), and nothing else changes: what docutils keeps process-wide is none of the
\*          later docstrings' business - their problems are found, printed and counted as ever
\*          dup3   BOTH definitions carry markup errors (nerr each).  The second definition bears the name under which the
\*                 errors of the first were recorded: reportErrors takes it for already reported (deviation StaleNameKept)
\*          reexpv a module VARIABLE documented by a "var" field of the docstring of its (private) module and re-exported
\*                 through __all__ of the package; the only problem: an unresolvable link in the body of that field
ObjCfg == [shape : {"func", "class", "reexp", "reexpv", "dup", "dup2", "dup3", "inhF", "inhL"}, crash : BOOLEAN, fmt : {"rst", "epy"}, xref : BOOLEAN, field : BOOLEAN, nerr : 0..2, expr : BOOLEAN, regex : BOOLEAN]
\* a fatal epytext error turns the whole docstring into plain text: nothing else in it is markup any more
Realisable(c) == /\ (c.fmt = "epy" => (c.nerr <= 1 /\ (c.nerr = 1 => ~c.xref /\ ~c.field)))
                 /\ (c.shape # "func" => ~c.expr /\ ~c.regex)
                 /\ (c.shape \in {"dup", "dup3"} => ~c.xref /\ ~c.field /\ c.nerr > 0)
                 /\ (c.shape \in {"inhF", "inhL"} => c.fmt = "rst" /\ c.nerr = 0)
                 /\ (c.shape = "reexpv" => c.xref /\ ~c.field /\ c.nerr = 0)
                 /\ (c.crash => c.shape = "func" /\ c.fmt = "rst" /\ c.nerr = 0 /\ ~c.expr /\ ~c.regex)
Clean(c) == ~c.crash /\ ~c.xref /\ ~c.field /\ c.nerr = 0 /\ ~c.expr /\ ~c.regex
Menu == {c \in ObjCfg : ~c.crash /\ c.shape = "func" /\ c.fmt = "rst" /\ ~c.xref /\ ~c.field /\ ~c.expr /\ ~c.regex /\ c.nerr <= 1}
Events(o, c) == (IF c.xref THEN {[o |-> o, kind |-> "xref", n |-> 1]} ELSE {})
           \cup (IF c.field THEN {[o |-> o, kind |-> "field", n |-> IF c.shape \in {"inhF", "inhL"} THEN 2 ELSE 1]} ELSE {})
           \cup (IF c.nerr > 0 THEN {[o |-> o, kind |-> "parse", n |-> c.nerr]} ELSE {})
           \cup (IF c.shape = "dup3" THEN {[o |-> o, kind |-> "parse2", n |-> c.nerr]} ELSE {})
           \cup (IF c.expr THEN {[o |-> o, kind |-> "expr", n |-> 1]} ELSE {})
           \cup (IF c.regex THEN {[o |-> o, kind |-> "regex", n |-> 1]} ELSE {})
           \cup (IF c.crash THEN {[o |-> o, kind |-> "crash", n |-> 1]} ELSE {})
Order(e) == CASE e.kind = "parse" -> 1 [] e.kind = "xref" -> 2 [] e.kind = "field" -> 3 [] e.kind = "expr" -> 4 [] e.kind = "regex" -> 5 [] e.kind = "crash" -> 0 [] e.kind = "parse2" -> 1

Traces == IF Source = "file" THEN JsonDeserialize(IOEnv.TRACE_FILE) ELSE <<>>
ASSUME TLCSet(1, {})

VARIABLES tid,         \* 0 (enum) or the index of the trace being validated
          cfg,         \* enum: [o \in Objs |-> ObjCfg]; file: 0
          W, V,        \* --warnings-as-errors, verbosity (0 default, -1 = -q)
          todo,        \* enum: problems still to be met; file: index of the next event
          violations,  \* System.violations
          perr,        \* System.parse_errors as a set of <<section, object>>
          printed,     \* number of "<path>:<line>: ..." problem lines written to stdout
          sumlines,    \* number of summary lines written by main
          met,         \* ghost: problems met so far, as records [kind, o, n]
          named,       \* enum: per object, the printed problem lines that name the file holding its docstring; file: 0
          moved,       \* enum: the re-exported objects that have been moved already; file: the <<old name, new name>> pairs seen
          exit         \* -1 while running, else the value returned by main
vars == <<tid, cfg, W, V, todo, violations, perr, printed, sumlines, met, named, moved, exit>>

InitEnum == /\ Source = "enum" /\ tid = 0
            /\ cfg \in [Objs -> {c \in ObjCfg : Realisable(c)}]
            /\ \A o \in Objs \ RichObjs : cfg[o] \in Menu
            /\ W \in BOOLEAN /\ V \in {0, 0 - 1}
            \* (quick bound: -q is combined with a clean neighbour only)
            /\ (V = 0 - 1 => \A o \in Objs \ RichObjs : Clean(cfg[o]))
            /\ todo = UNION {Events(o, cfg[o]) : o \in Objs}
InitFile == /\ Source = "file" /\ tid \in 1..Len(Traces) /\ cfg = 0
            /\ W = Traces[tid].W /\ V = Traces[tid].V
            /\ todo = 1
Init == /\ (InitEnum \/ InitFile)
        /\ violations = 0 /\ perr = {} /\ printed = 0 /\ sumlines = 0 /\ met = {} /\ moved = {} /\ exit = 0 - 1
        /\ named = IF Source = "enum" THEN [o \in Objs |-> 0] ELSE 0

\* ------------------------------------------------------------------ the mechanism
Shown(thresh, top) == thresh <= V /\ V <= top                       \* model.py:1070
Counted(thresh) == IF thresh < 0 THEN 1 ELSE 0                        \* model.py:1064-1068
\* Documentable.report -> System.msg(section, "<path>:<line>: ..", thresh=-1); <path> = Documentable.description
\* (model.py:200-209) = the object's OWN source_path: the file it was defined in, wherever it has been moved since
ReportN(o, n) == /\ violations' = violations + n * Counted(0 - 1)
                 /\ printed' = printed + (IF Shown(0 - 1, 100) THEN n ELSE 0)
                 \* (a moved field-documented variable is reported against its NEW parent: the package's __init__ - deviation)
                 /\ named' = IF Source = "enum" /\ ~(VarSourceIsNewParent /\ cfg[o].shape = "reexpv")
                             THEN [named EXCEPT ![o] = @ + (IF Shown(0 - 1, 100) THEN n ELSE 0)] ELSE named
\* epydoc2stan.reportErrors(obj, errs, section)
ReportErrors(section, nm, o, n) ==
    IF <<section, nm>> \in perr
      THEN UNCHANGED <<violations, printed, perr, named>>             \* already reported for this name: nothing at all
      ELSE perr' = perr \cup {<<section, nm>>} /\ ReportN(o, n)
Section(kind) == IF kind = "expr" THEN "signature" ELSE "docstring"

\* the name an object is known by right now (what obj.fullName() returns): it changes when the object is moved
Name(o) == <<o, IF o \in moved THEN "moved" ELSE "home">>
\* found while the module is built (before any move) / while the pages are rendered (after every move)
BuildPhase(e) == e.kind \in {"parse", "parse2"} /\ cfg[e.o].shape # "func"
ToMove == {o \in Objs : cfg[o].shape \in {"reexp", "reexpv", "dup", "dup3"} /\ o \notin moved}
Key(e) == (IF BuildPhase(e) THEN 0 ELSE 100) + 10 * e.o + Order(e)
\* enum: meet one planted problem
Meet(e) == /\ exit = 0 - 1 /\ Source = "enum" /\ e \in todo
           /\ (Interleave \/ \A f \in todo : Key(f) >= Key(e))
           /\ (e.kind = "parse" /\ BuildPhase(e) => e.o \notin moved)
           /\ (e.kind = "parse2" => e.o \in moved)                       \* the second definition comes after the first was superseded
           /\ (~BuildPhase(e) => ToMove = {} /\ \A f \in todo : ~BuildPhase(f))
           /\ todo' = todo \ {e}
           /\ met' = met \cup {e}
           \* (the function that comes first in the module is rendered first)
           /\ (e.kind # "crash" => \A f \in todo : ~(f.kind = "crash" /\ f.o = e.o))
           /\ IF e.kind = "crash" THEN ReportErrors("docstring", <<e.o, "pre">>, e.o, 1)
              \* the new definition goes by the name the old one had when its errors were recorded
              ELSE IF e.kind = "parse2" THEN ReportErrors("docstring", <<e.o, "home">>, e.o, e.n)
              ELSE IF e.kind \in {"parse", "expr"} THEN ReportErrors(Section(e.kind), Name(e.o), e.o, e.n)
              ELSE ReportN(e.o, e.n) /\ UNCHANGED perr
           /\ UNCHANGED <<sumlines, moved, exit>>
\* astbuilder: __all__ of the package re-exports the class: reparent() / a second definition supersedes the first:
\* handleDuplicate().  Nothing is recorded anywhere about the old name.
Move(o) == /\ exit = 0 - 1 /\ Source = "enum" /\ o \in ToMove
           /\ \A f \in todo : ~(f.kind = "parse" /\ BuildPhase(f) /\ f.o = o)             \* its (first) definition has been built
           /\ moved' = moved \cup {o}
           \* handleDuplicate: the superseded definition is renamed; what parse_errors holds about it is not (StaleNameKept)
           /\ perr' = IF StaleNameKept \/ cfg[o].shape \in {"reexp", "reexpv"} THEN perr
                       ELSE {IF p[2] = <<o, "home">> THEN <<p[1], <<o, "moved">>>> ELSE p : p \in perr}
           /\ UNCHANGED <<todo, violations, printed, sumlines, met, named, exit>>
\* names in parse_errors that no longer designate an object
Stale == {p \in perr : p[2][2] # "pre" /\ p[2] # Name(p[2][1])}

DocErrs == {p \in perr : p[1] = "docstring"}
\* driver.py:171-190: main looks at the SETS of names, never at the objects: a stale name counts like any other
ExitCode(v) == IF W /\ v > 0 THEN 3 ELSE IF perr # {} THEN 2 ELSE 0
SummaryMsgs == IF DocErrs # {} THEN 1 + Cardinality(DocErrs) ELSE 0   \* p(..) : msg('docstring-summary', .., thresh=-1, topthresh=1)
Finish == /\ exit = 0 - 1 /\ Source = "enum" /\ todo = {} /\ ToMove = {}
          /\ violations' = violations + SummaryMsgs * Counted(0 - 1)
          /\ sumlines' = sumlines + (IF Shown(0 - 1, 1) THEN SummaryMsgs ELSE 0)
          /\ exit' = ExitCode(violations')
          /\ UNCHANGED <<todo, perr, printed, met, named, moved>>

\* ------------------------------------------------------------------ file: validate a recorded run
Ev == Traces[tid].ev[todo]
TMsg == /\ Source = "file" /\ exit = 0 - 1 /\ todo <= Len(Traces[tid].ev) /\ Ev.op = "msg"
        /\ violations' = violations + Counted(Ev.thresh)
        /\ violations' = Ev.v                                           \* the logged counter
        /\ printed' = printed + (IF Ev.problem /\ Shown(Ev.thresh, Ev.top) THEN 1 ELSE 0)
        /\ (Ev.problem => Ev.shown = Shown(Ev.thresh, Ev.top))
        /\ UNCHANGED <<perr, sumlines, met, named, moved, exit>>
TReportErrors == /\ Source = "file" /\ exit = 0 - 1 /\ todo <= Len(Traces[tid].ev) /\ Ev.op = "reportErrors"
                 /\ ReportErrors(Ev.section, Ev.o, 0, Ev.n)
                 /\ violations' = Ev.v
                 /\ (<<Ev.section, Ev.o>> \in perr') = Ev.has
                 /\ met' = met \cup {[kind |-> (IF Ev.section = "docstring" THEN "parse" ELSE "expr"), o |-> Ev.o, n |-> Ev.n]}
                 /\ UNCHANGED <<sumlines, moved, exit>>
\* Documentable.reparent: the object is known by another name from now on; no counter, no set changes
TMove == /\ Source = "file" /\ exit = 0 - 1 /\ todo <= Len(Traces[tid].ev) /\ Ev.op = "move"
         /\ moved' = moved \cup {<<Ev.o, Ev.to>>}
         /\ Ev.v = violations /\ Ev.perr = Cardinality(perr)
         /\ UNCHANGED <<violations, perr, printed, sumlines, met, named, exit>>
\* System.handleDuplicate: the previous holder of the name is renamed; what parse_errors says about it follows or not
TSupersede == /\ Source = "file" /\ exit = 0 - 1 /\ todo <= Len(Traces[tid].ev) /\ Ev.op = "supersede"
              /\ moved' = moved \cup {<<Ev.o, Ev.to>>}
              /\ perr' = IF StaleNameKept THEN perr ELSE {IF p[2] = Ev.o THEN <<p[1], Ev.to>> ELSE p : p \in perr}
              /\ Ev.v = violations /\ Ev.perr = Cardinality(perr')
              /\ UNCHANGED <<violations, printed, sumlines, met, named, exit>>
TExit == /\ Source = "file" /\ exit = 0 - 1 /\ todo <= Len(Traces[tid].ev) /\ Ev.op = "exit"
         /\ Ev.code = ExitCode(violations)
         /\ Ev.perr = Cardinality(perr)
         /\ exit' = Ev.code
         /\ UNCHANGED <<violations, perr, printed, sumlines, met, named, moved>>
TraceNext == (TMsg \/ TReportErrors \/ TMove \/ TSupersede \/ TExit) /\ todo' = todo + 1

Next == /\ \/ \E e \in (IF Source = "enum" THEN todo ELSE {}) : Meet(e)
           \/ \E o \in (IF Source = "enum" THEN Objs ELSE {}) : Move(o)
           \/ Finish
           \/ TraceNext
        /\ UNCHANGED <<tid, cfg, W, V>>
Spec == Init /\ [][Next]_vars

\* ------------------------------------------------------------------ the property (from the statement)
Done == exit # 0 - 1
Unparsed == \E e \in met : e.kind \in {"parse", "parse2", "expr", "crash"}         \* some docstring or displayed expression could not be parsed
\* every problem written to stdout has been counted
EveryReportCounted == printed <= violations
\* -W: status 3 exactly when at least one problem was reported
ExitW == (Done /\ W) => (exit = 3 <=> printed > 0)
\* no -W: status 2 exactly when something could not be parsed, 0 otherwise
ExitNoW == (Done /\ ~W) => (exit = (IF Unparsed THEN 2 ELSE 0))
\* every printed problem names the file that contains the docstring at fault (trivial in the model: ReportN is the only
\* printer; the harness compares named[o] with the lines that name o's file and flags every line naming another file)
RECURSIVE SumNamed(_)
SumNamed(S) == IF S = {} THEN 0 ELSE LET o == CHOOSE x \in S : TRUE IN named[o] + SumNamed(S \ {o})
NamesTheFile == (Done /\ Source = "enum") => SumNamed(Objs) = printed
\* known finding (findings.d/C16.json  reexported-variable-reported-in-package)
Astray == Cardinality({e \in met : cfg[e.o].shape = "reexpv"})
NamesTheFileOrKF == (Done /\ Source = "enum") => (SumNamed(Objs) = printed \/ (VarSourceIsNewParent /\ Astray > 0 /\ SumNamed(Objs) + Astray = printed))
\* a problem reported under a name that went stale afterwards is a reported problem all the same
StaleStillCounts == (Done /\ Source = "enum" /\ ~W /\ Stale # {}) => exit = 2
\* enum only: nothing that was planted is lost: one line per problem, one per markup error (n is 1 or 2)
NothingLost == (Done /\ Source = "enum") => printed = Cardinality(met) + Cardinality({e \in met : e.n = 2})
\* known finding (findings.d/C16.json  duplicate-definition-errors-swallowed): the markup errors of the second of two
\* definitions that both have some are never printed
LostToStaleName == {e \in met : e.kind = "parse2"}
NothingLostOrKF == (Done /\ Source = "enum") =>
    \/ printed = Cardinality(met) + Cardinality({e \in met : e.n = 2})
    \/ (StaleNameKept /\ LostToStaleName # {}
          /\ printed = Cardinality(met \ LostToStaleName) + Cardinality({e \in met \ LostToStaleName : e.n = 2}))

\* ------------------------------------------------------------------ emission / acceptance
EmitTerminal == (Done /\ Source = "enum") =>
    PrintT(ToJson([cfg |-> [o \in Objs |-> cfg[o]], objs |-> Cardinality(Objs), W |-> W, V |-> V, exit |-> exit, violations |-> violations,
                   printed |-> printed, sumlines |-> sumlines, perr |-> Cardinality(perr),
                   unparsed |-> Unparsed, stale |-> Cardinality(Stale), named |-> [o \in Objs |-> named[o]]]))
Accept == (Source = "file" /\ Done /\ todo = Len(Traces[tid].ev) + 1) => TLCSet(1, TLCGet(1) \cup {tid})
Post == IF Source = "file" THEN PrintT(ToJson([accepted |-> TLCGet(1), total |-> Len(Traces)])) ELSE TRUE
=============================================================================
