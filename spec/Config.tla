------------------------------- MODULE Config -------------------------------
(***************************************************************************)
(* C20 - options mean the same on the command line and in a config file.   *)
(*                                                                         *)
(* Sources of one option's value:  Default, File(fmt), Cli.                *)
(* Option kinds (argparse actions found in pydoctor.options.get_parser()): *)
(*    store   one value (str / int / choices)                              *)
(*    flag    store_true / store_false                                     *)
(*    count   -v -v                                                        *)
(*    append  repeatable, values accumulate                                *)
(* Values are abstract slots (1 = representative, 2 = adversarial, and for *)
(* single-valued options that accept them the "falsy" texts 0 = "0",       *)
(* 3 = "0.0", 4 = "" - a TOML file can hold the first two as bare numbers);*)
(* the harness maps them to concrete text per option and file style.       *)
(*                                                                         *)
(*   Ref(s)   the effective value as the property states it: the command   *)
(*            line overrides the file, the file overrides the default,     *)
(*            repetitions within one source accumulate in order, an        *)
(*            unknown key is warned about and changes nothing.             *)
(*   Impl(s)  what pydoctor does: configargparse (parse_known_args         *)
(*            1294-1347, convert_item_to_command_line_arg 1715-1805,       *)
(*            already_on_command_line 2210-2229) turns every file item     *)
(*            whose option strings are not LITERALLY among the command     *)
(*            line args into args placed before the first command line     *)
(*            option; argparse then folds the args per action kind;        *)
(*            _configparser.ValidatorParser drops unknown keys with a      *)
(*            warning.                                                     *)
(*                                                                         *)
(* Every scenario is an initial state; each one is printed with Ref and    *)
(* Impl and executed by harness/checks/c20.py through                      *)
(* Options.from_args() in a directory holding the config file.             *)
(* The option list (Options) is generated from the real parser at check    *)
(* time (MC_Config.tla).                                                   *)
(***************************************************************************)
EXTENDS Naturals, Sequences, FiniteSets, TLC, Json

CONSTANTS Options,   \* <<[key, kind, vk, short, abbrev, destkey, extra, names]>>  extra: the falsy slots (0, 3, 4) the option
                     \* accepts; names: how many long names the option has (--add-package / --add-module: 2)
          Formats,   \* subset of {"toml", "cfg", "ini"}: pyproject.toml, setup.cfg, pydoctor.ini
          ShortKeys, \* the one-letter names of the parser's short flags (v, q, W ...): as KEYS of a file they are unknown
          Vias       \* how the file is found: "default" (by its name, in the working directory) | "config" (--config=PATH)

Absent == [has |-> FALSE, v |-> <<>>]
Val(v) == [has |-> TRUE, v |-> v]

FileChoices(o) == CASE o.kind = "store"  -> {Absent, Val(<<1>>), Val(<<2>>)} \cup {Val(<<x>>) : x \in o.extra}
                    [] o.kind = "flag"   -> {Absent, Val(<<1>>), Val(<<0>>)}          \* true / false
                    [] o.kind = "count"  -> {Absent, Val(<<0>>), Val(<<1>>), Val(<<2>>)}
                    [] o.kind = "append" -> {Absent, Val(<<1>>), Val(<<1, 2>>), Val(<<2, 1>>)}
CliChoices(o)  == CASE o.kind = "store"  -> {Absent, Val(<<1>>), Val(<<2>>)} \cup {Val(<<x>>) : x \in o.extra \cap {0}}
                    [] o.kind = "flag"   -> {Absent, Val(<<1>>)}
                    [] o.kind = "count"  -> {Absent, Val(<<1>>), Val(<<2>>)}          \* number of occurrences
                    [] o.kind = "append" -> {Absent, Val(<<1>>), Val(<<2, 1>>)}

\* how the option is spelled on the command line
Spellings(o, cli) ==
  IF ~cli.has THEN {"none"}
  ELSE (CASE o.kind \in {"store", "append"} -> {"eq", "sep"}                        \* --key=v | --key v
          [] o.kind = "flag"  -> {"long"}
          [] o.kind = "count" -> {"long"} \cup (IF o.short THEN {"short"} ELSE {})   \* --verbose --verbose | -v -v
                                          \cup (IF o.short /\ cli.v = <<2>> THEN {"cluster"} ELSE {}))  \* -vv
       \cup (IF o.abbrev THEN {"abbrev"} ELSE {})                                    \* --verbos  (argparse allow_abbrev)

\* how the value is written in the file.
\* twinDashed / twinAlias: the option stands TWICE in the file, under two of its spellings (key and --key; its two
\* names): a repeatable option's items are split over the two (they accumulate in file order), a single-valued
\* option has another value under the first spelling and file.v under the second (the last one wins) - "as on the
\* command line".
Twins(o, file) ==
  IF ~file.has THEN {}
  ELSE (IF (o.kind = "append" /\ Len(file.v) = 2) \/ (o.kind = "store" /\ file.v \in {<<1>>, <<2>>}) THEN {"twinDashed"} ELSE {})
       \cup (IF o.kind = "append" /\ Len(file.v) = 2 /\ o.names >= 2 THEN {"twinAlias"} ELSE {})
FileStyles(o, fmt, file) ==
  Twins(o, file) \cup
  IF ~file.has THEN {"none"}
  ELSE IF fmt = "toml"
       THEN CASE o.kind = "store"  -> {"string"}     \* native: a bare TOML integer / float (0, 3, 12, 0.0)
                                        \cup (IF (o.vk = "int" /\ file.v # <<4>>) \/ file.v \in {<<0>>, <<3>>} THEN {"native"} ELSE {})
              [] o.kind = "flag"   -> {"native", "string"}
              [] o.kind = "count"  -> {"native", "string"}
              [] o.kind = "append" -> {"list"} \cup (IF Len(file.v) = 1 THEN {"scalar"} ELSE {})
       ELSE CASE o.kind = "store"  -> IF file.v \in {<<1>>, <<0>>, <<3>>} THEN {"plain", "quoted"} ELSE {"quoted"}
              [] o.kind = "flag"   -> {"plain"}
              [] o.kind = "count"  -> {"plain"}
              [] o.kind = "append" -> {"pylist", "multiline"} \cup (IF Len(file.v) = 1 THEN {"scalar"} ELSE {})

\* an extra key in the file: none | fresh (no such option) | dest (the attribute name, which is not a key)
\*   | a one-letter key that coincides with a short command-line flag (only --long names are keys; explored with the
\*     first option only, the option does not matter)
\*   | abbrev: an unambiguous abbreviation of the option's own key (html-outpu): abbreviations are a command-line
\*     convenience of argparse, as a KEY it is unknown and must not be applied
\* twice: the same unknown key also stands in a second config file of the directory (all default files are read in
\* one run, by one validator)
Unknowns(o, i, cli) == {"none"} \cup (IF cli.has THEN {} ELSE {"fresh"} \cup (IF o.destkey THEN {"dest"} ELSE {})
                                                            \cup (IF o.abbrev THEN {"abbrev"} ELSE {})
                                                            \cup (IF i = 1 THEN ShortKeys ELSE {}))
Twice(unk) == IF unk = "none" THEN {FALSE} ELSE {FALSE, TRUE}

\* where in the file the setting stands.  Every format recognises the sections tool.pydoctor, tool:pydoctor and
\* pydoctor:  main = the format's usual one, alone ; alt = another recognised one, alone ;
\* emptyMain = the usual section is present but holds nothing (a comment), the setting stands in the other one.
\* "A section that holds nothing sets nothing": the effective value is the same in all three.
Places(file, cli, unk) == {"main"} \cup (IF file.has /\ ~cli.has /\ unk = "none" THEN {"alt", "emptyMain"} ELSE {})
\* which of its names the option is given by, in the file and on the command line (1 = the first)
NamePairs(o, file, cli) ==
  {<<f, c>> \in (1..o.names) \X (1..o.names) : (file.has \/ f = 1) /\ (cli.has \/ c = 1)}

\* pair scenarios: the option in the file (its first value, written the usual way), ANOTHER option on the command
\* line.  Options do not get in each other's way: the effective configuration is the one of the command line naming
\* both, whichever order they are named in (defaults derived from another option - make-html, the source link
\* template - are part of that reference).  One format per pair, all ordered pairs.
FirstVal(o) == Val(<<1>>)
UsualStyle(o, fmt) ==
  IF fmt = "toml" THEN (CASE o.kind = "store" -> "string" [] o.kind = "append" -> "list" [] OTHER -> "native")
  ELSE (CASE o.kind = "store" -> "quoted" [] o.kind = "append" -> "pylist" [] OTHER -> "plain")
FormatOf(i, j) == <<"toml", "cfg", "ini">>[((i + j) % 3) + 1]

VARIABLES s
vars == <<s>>
Scenario(i, fmt, via, file, fstyle, cli, spell, unk, place, np, tw) ==
  [opt |-> i, key |-> Options[i].key, kind |-> Options[i].kind, fmt |-> fmt, via |-> via, file |-> file,
   fstyle |-> fstyle, cli |-> cli, spell |-> spell, unknown |-> unk, place |-> place, fname |-> np[1], cname |-> np[2], twice |-> tw,
   comp |-> ""]                          \* comp: key of the companion option on the command line ("" = none)

PairInit == \E i \in 1..Len(Options), j \in 1..Len(Options) :
              /\ i # j /\ FormatOf(i, j) \in Formats
              /\ s = [Scenario(i, FormatOf(i, j), "default", FirstVal(Options[i]), UsualStyle(Options[i], FormatOf(i, j)),
                               Absent, "none", "none", "main", <<1, 1>>, FALSE) EXCEPT !.comp = Options[j].key]
Init == PairInit \/
        \E i \in 1..Len(Options), fmt \in Formats, via \in Vias :
          \E file \in FileChoices(Options[i]), cli \in CliChoices(Options[i]) :
            \E fstyle \in FileStyles(Options[i], fmt, file), spell \in Spellings(Options[i], cli),
               unk \in Unknowns(Options[i], i, cli) :
              \E place \in Places(file, cli, unk), np \in NamePairs(Options[i], file, cli), tw \in Twice(unk) :
                /\ file.has \/ cli.has \/ unk # "none"
                /\ s = Scenario(i, fmt, via, file, fstyle, cli, spell, unk, place, np, tw)
Next == UNCHANGED vars
Spec == Init /\ [][Next]_vars

---------------------------------------------------------------------------
\* REFERENCE (from the property statement).  The effective value, in slots:
\*   store: <<slot>> or <<>> (= default) ; flag: <<1>> / <<0>> ; count: <<n>> ; append: the list (<<>> = default)
RefVal(x) ==
  CASE x.kind = "store"  -> IF x.cli.has THEN x.cli.v ELSE IF x.file.has THEN x.file.v ELSE <<>>
    [] x.kind = "flag"   -> IF x.cli.has \/ (x.file.has /\ x.file.v = <<1>>) THEN <<1>> ELSE <<0>>
    [] x.kind = "count"  -> IF x.cli.has THEN x.cli.v ELSE IF x.file.has THEN x.file.v ELSE <<0>>
    [] x.kind = "append" -> IF x.cli.has THEN x.cli.v ELSE IF x.file.has THEN x.file.v ELSE <<>>
Ref(x) == [val |-> RefVal(x), warn |-> x.unknown # "none", abort |-> FALSE]

---------------------------------------------------------------------------
\* TRANSCRIPTION
\* already_on_command_line(): literal comparison of each arg (cut at '=') with the action's option strings
Recognised(spell) == spell \in {"eq", "sep", "long", "short"}
Copies(n, v) == [i \in 1..n |-> v]
\* convert_item_to_command_line_arg(): the args a file item becomes
FileArgs(x) ==
  IF ~x.file.has \/ (x.cli.has /\ Recognised(x.spell)) THEN <<>>
  ELSE CASE x.kind = "store"  -> x.file.v                                   \* --key=value
         [] x.kind = "flag"   -> IF x.file.v = <<1>> THEN <<1>> ELSE <<>>   \* "true" -> --key ; "false" -> nothing
         [] x.kind = "count"  -> Copies(x.file.v[1], 1)                     \* "1" = true -> once ; n -> n times
         [] x.kind = "append" -> x.file.v                                   \* --key=v per item
CliArgs(x) ==
  IF ~x.cli.has THEN <<>>
  ELSE IF x.kind = "count" THEN Copies(x.cli.v[1], 1) ELSE x.cli.v
\* config args are inserted before the first command-line option (_find_insertion_index)
Args(x) == FileArgs(x) \o CliArgs(x)
\* argparse: _StoreAction keeps the last, _StoreTrueAction any, _CountAction counts, _AppendAction appends
ImplVal(x) ==
  LET a == Args(x) IN
    CASE x.kind = "store"  -> IF a = <<>> THEN <<>> ELSE <<a[Len(a)]>>
      [] x.kind = "flag"   -> IF a = <<>> THEN <<0>> ELSE <<1>>
      [] x.kind = "count"  -> <<Len(a)>>
      [] x.kind = "append" -> a
\* ValidatorParser.parse(): unknown key -> warnings.warn, key dropped
Impl(x) == [val |-> ImplVal(x), warn |-> x.unknown # "none", abort |-> FALSE]

---------------------------------------------------------------------------
\* Known finding (findings.d/C20.json, unrecognised-cli-spelling): an option given on the command line as a
\* cluster of short flags (-vv) or as an abbreviation (--verbos, --privac=...) is not recognised as "already on
\* the command line": the file's occurrences are kept and add up with the command line's.
KF_UnrecognisedSpelling(x) ==
  /\ x.cli.has /\ x.file.has /\ x.spell \in {"cluster", "abbrev"}
  /\ x.kind \in {"count", "append"}
  /\ FileArgs(x) # <<>>
  /\ ImplVal(x) = (IF x.kind = "count" THEN <<x.file.v[1] + x.cli.v[1]>> ELSE x.file.v \o x.cli.v)

\* design level: the merge algorithm gives the documented meaning (up to the known finding)
ImplIsRef == Impl(s) = Ref(s) \/ KF_UnrecognisedSpelling(s)
ImplIsRefStrict == Impl(s) = Ref(s)

\* export
Emit == PrintT(ToJson([scn |-> s, ref |-> Ref(s), impl |-> Impl(s), kf |-> KF_UnrecognisedSpelling(s)]))
=============================================================================
