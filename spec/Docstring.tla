----------------------------- MODULE Docstring -----------------------------
(***************************************************************************)
(* C08: the docstring pipeline of pydoctor/epydoc2stan.py as a state       *)
(* machine over two documented objects, with an explicit ENVIRONMENT FAULT *)
(* LATTICE for everything the pipeline calls into (parser, to_stan,        *)
(* to_node inside get_summary / get_toc, to_stan of the summary / toc).    *)
(*                                                                         *)
(*   A : object with its own docstring (kindA = "cls": a class, whose      *)
(*       docstring is parsed by extract_fields while the module is built)  *)
(*   B : inherit = TRUE : a method that inherits A's docstring (source A)   *)
(*       inherit = FALSE: an object with its own docstring                 *)
(*   V : (kindA = "cls" only) an attribute of A documented by a field of   *)
(*       A's docstring (@ivar v: ...): extract_fields hands it the field's *)
(*       body as parsed_docstring; it has no docstring text of its own, the*)
(*       pipeline takes its PARENT A as "source" (ensure_parsed_docstring) *)
(*   a bystander X exists in every real scenario; no action touches it     *)
(*   (frame condition, checked on the recorded projections).               *)
(*                                                                         *)
(* One action per entry point, transcribing                                *)
(*   parse_docstring          epydoc2stan.py:584-631                       *)
(*   reportErrors             epydoc2stan.py:567-581                       *)
(*   ensure_parsed_docstring  epydoc2stan.py:633-667                       *)
(*   _get_parsed_summary      epydoc2stan.py:690-711                       *)
(*   safe_to_stan + fallbacks epydoc2stan.py:716-751, 808-812              *)
(*   format_docstring / format_summary / format_toc  783-806, 814-829, 892-902 *)
(*   extract_fields           epydoc2stan.py:912-945                       *)
(*   ParsedDocstring.get_summary / get_toc   markup/__init__.py:159-174, 206-224 *)
(*                                                                         *)
(* Source = "enum": (faults, inherit, kindA, call order) are the initial   *)
(* states; the run is deterministic; the terminal record is printed and    *)
(* replayed by fault injection into the real pipeline.                     *)
(* Source = "file": recorded executions of the real pipeline (injected or  *)
(* fuzzed docstrings; faults = what the wrappers OBSERVED) are validated:  *)
(* every event must be the model's step with the logged result and state.  *)
(***************************************************************************)
EXTENDS Naturals, Sequences, FiniteSets, TLC, Json, IOUtils

CONSTANTS Source,       \* "enum" | "file"
          OrderMode,    \* "all": every interleaving of the calls; "Bfixed": B's calls in the order docstring, summary, toc
          BMenu,        \* "tiny" | "small" | "full": fault sets tried for B's own docstring
          Ns,           \* numbers of errors a parser that returns with errors may report (subset of 1..2)
          PoisonedCache, \* TRUE while the tree has deviation epytext-half-built-document-cached (a to_node that fails keeps failing otherwise)
          LongLineRefused, \* TRUE while the tree has deviation rst-long-line-refused (FALSE: such a text is parsed like any other)
          TocGuarded    \* FALSE while the tree has deviation format-toc-unguarded (TRUE: a to_node failure inside get_toc yields no toc)

Objs == {"A", "B", "V"}
Ops3 == {"docstring", "summary", "toc"}
Ops2 == {"docstring", "summary"}

\* ------------------------------------------------------------------ the fault lattice
\* parse   ok          parser returns, no errors
\*         warn        parser returns a usable result plus errors (docutils recovers; epytext warnings)
\*         fatal       parser raises the ParseError it has put into the error list  (epytext.parse)
\*         crash       parser (or --process-types post-processing) raises anything else
\* tostan  ok | raises           ParsedDocstring.to_stan of the parsed docstring
\* summary ok | broken           to_node raises inside get_summary (caught there: "Broken summary")
\*         stanraises            the extracted summary's own to_stan raises
\* toc     none | ok             no titles / a table of contents
\*         noderaises            to_node raises inside get_toc (only NotImplementedError is caught there)
\*         stanraises            the toc's to_stan raises
\* field   ok | raises           to_stan of a field body (Field.format: "Broken description" in its place + report)
\* node    ok                    to_node behaves as a function of the docstring (the faults above are then independent)
\*         once                  DEVIATION PoisonedCache (epytext.py:1378-1392 ParsedEpytextDocstring.to_node stores the new,
\*                               empty document in its cache BEFORE building it): the first to_node call raises, every later
\*                               one returns the empty half-built document.  Realised by a real epytext docstring, not injected.
\* lvl     (parse = warn) how grave docutils finds what it recovered from: info ("Possible title underline, too short",
\*         "Enumerated list start value not ordinal-1", "Duplicate implicit target name"), warning, error, severe.  ALL of
\*         them are markup problems of the docstring and are reported alike: lvl occurs nowhere in the steps below.
\*         Levels other than "warning" are realised by real reST texts, not injected (nothing to inject below the reader).
\*         "split": the problem is not docutils' but pydoctor's own field splitter's (restructuredtext.py
\*         _SplitFieldsTranslator.visit_field: a consolidated ":Parameters:" field that is not a well-formed list is shown
\*         as-is and "Unable to split consolidated field" is recorded as a recoverable error) - reported like the others.
\*         TWIN: when A's text has such a problem, B's own text may have THE SAME problem shape (B's menu below): two objects
\*         processed one after the other in one process.  F[B] is a function of B's text, whatever was parsed before: no
\*         step reads what another object's parse met (each object with the problem gets its own report).
\* tag     the docstring has one more field whose tag is not a documented one: "unknown" - any other word - or "helper" -
\*         the name of a METHOD of the class that dispatches on tags (FieldHandler.handle looks up 'handle_' + tag).  Both are
\*         shown under their own name and reported as unknown fields (Field.report: no entry in parse_errors): no step below
\*         mentions tag.  Realised with the names found by introspection of the handler class of the tree under test.
\* ann     (A in the attribute scenario) the ANNOTATION of the object cannot be rendered: type2stan -> safe_to_stan ->
\*         reportErrors(obj, section = 'annotation').  The page renders it BEFORE the docstring.  Other sections are other
\*         sets of parse_errors: what happens to the docstring is not touched (variable aerr, never read by a step).
\* parse = refused : DEVIATION LongLineRefused (docutils' line_length_limit, 10 000 characters): the reader refuses the whole
\*         input, the parser RETURNS an empty document and one error flagged fatal; pydoctor reports it and renders the
\*         empty document: nothing of the text is shown.  Realised by a real text with one very long line, not injected.
Fault == [parse : {"ok", "warn", "fatal", "crash", "refused"}, n : 1..2, tostan : {"ok", "raises"},
          summary : {"ok", "broken", "stanraises"}, toc : {"none", "ok", "noderaises", "stanraises"},
          field : {"ok", "raises"}, node : {"ok", "once"},
          lvl : {"info", "warning", "error", "severe", "split"}, tag : {"none", "unknown", "helper"}, ann : {"ok", "raises"}]
NoFault == [parse |-> "ok", n |-> 1, tostan |-> "ok", summary |-> "ok", toc |-> "none", field |-> "ok", node |-> "ok",
            lvl |-> "warning", tag |-> "none", ann |-> "ok"]
\* after a fatal error / crash the plain text fallback object is used: the other faults can never be met
\* (the summary of the plain text object can fail too - control characters - but only a real text can make it: file mode)
Canonical(f) == /\ (f.parse \in {"fatal", "crash"} => f.tostan = "ok" /\ f.summary = "ok" /\ f.toc = "none" /\ f.field = "ok")
                /\ (f.parse = "ok" => f.n = 1) /\ (f.parse \in {"fatal", "crash"} => f.n = 1)
                /\ (f.parse = "refused" => f = [NoFault EXCEPT !.parse = "refused"])
                /\ (f.node = "once" => f = [NoFault EXCEPT !.node = "once"])
                \* the three dimensions without a step of their own are enumerated on otherwise healthy docstrings
                \* (the only SEVERE problem with a single message is about section titles: that text has a table of contents)
                /\ (f.lvl # "warning" => f = [NoFault EXCEPT !.parse = "warn", !.lvl = f.lvl, !.toc = IF f.lvl = "severe" THEN "ok" ELSE "none"])
                /\ (f.tag # "none" => f = [NoFault EXCEPT !.tag = f.tag])
                /\ (f.ann = "raises" => f \in {[NoFault EXCEPT !.ann = "raises"], [NoFault EXCEPT !.ann = "raises", !.tostan = "raises"]})
SmallMenu == {NoFault, [NoFault EXCEPT !.parse = "fatal"], [NoFault EXCEPT !.tostan = "raises"], [NoFault EXCEPT !.node = "once"]}
TinyMenu  == {NoFault, [NoFault EXCEPT !.tostan = "raises"]}

\* faults of the field body that documents V: only its rendering can fail
CanonFaults == {f \in Fault : Canonical(f) /\ f.n \in Ns}
BFaults == CASE BMenu = "tiny" -> TinyMenu [] BMenu = "small" -> SmallMenu [] OTHER -> {f \in CanonFaults : f.n = 1}
VMenu == {NoFault, [NoFault EXCEPT !.tostan = "raises"], [NoFault EXCEPT !.summary = "stanraises"], [NoFault EXCEPT !.summary = "broken"]}

\* ---- call orders.  Every object gets each of its calls once (A, B: body / summary / toc; V: body / summary).  An order =
\* a permutation of the calls of each object + a merge pattern saying whose turn it is.  The order of body / summary / toc
\* ON THE SAME OBJECT is a dimension of its own: all 6 permutations of A's calls are always enumerated (and replayed).
RECURSIVE Perms(_)
Perms(S) == IF S = {} THEN {<<>>} ELSE UNION {{<<x>> \o p : p \in Perms(S \ {x})} : x \in S}
Count(seq, x) == Cardinality({k \in 1..Len(seq) : seq[k] = x})
PatAB == {p \in [1..6 -> {"A", "B"}] : Count(p, "A") = 3}                 \* the 20 merges of A's and B's calls
PatAV == {p \in [1..5 -> {"A", "V"}] : Count(p, "A") = 3}                 \* the 10 merges of A's and V's calls
BBB == <<"B", "B", "B">>
PatVquick == {<<"A","A","A","B","B","B","V","V">>, <<"V","V","A","A","A","B","B","B">>, <<"V","A","A","A","V","B","B","B">>,
              <<"A","V","A","V","A","B","B","B">>, <<"B","B","B","V","A","V","A","A">>, <<"A","B","V","A","B","V","A","B">>,
              <<"A","A","V","A","V","B","B","B">>, <<"V","A","V","A","A","B","B","B">>}
PatV == IF OrderMode = "all" THEN PatVquick \cup {p \o BBB : p \in PatAV} \cup {BBB \o p : p \in PatAV} ELSE PatVquick
DST == <<"docstring", "summary", "toc">>
RECURSIVE Build(_, _, _, _)
Build(pat, pa, pb, pv) ==
    IF pat = <<>> THEN <<>>
    ELSE CASE Head(pat) = "A" -> <<<<"A", Head(pa)>>>> \o Build(Tail(pat), Tail(pa), pb, pv)
           [] Head(pat) = "B" -> <<<<"B", Head(pb)>>>> \o Build(Tail(pat), pa, Tail(pb), pv)
           [] Head(pat) = "V" -> <<<<"V", Head(pv)>>>> \o Build(Tail(pat), pa, pb, Tail(pv))
Orders(kind) ==
    IF kind = "cls"
      THEN {Build(p, pa, DST, pv) : p \in PatV, pa \in Perms(Ops3), pv \in Perms(Ops2)}
      ELSE {Build(p, pa, pb, <<>>) : p \in PatAB, pa \in Perms(Ops3), pb \in (IF OrderMode = "all" THEN Perms(Ops3) ELSE {DST})}

Traces == IF Source = "file" THEN JsonDeserialize(IOEnv.TRACE_FILE) ELSE <<>>
ASSUME TLCSet(1, {})

VARIABLES tid, F, inherit, kindA, vdoc, dup, order,    \* configuration (fixed in Init); vdoc: extract_fields gave V a field body
                       \* dup (kindA = "cls"): A is a member - a nested class - of a class that is DEFINED TWICE.  The member of the
                       \* first definition has the same text in the same place: it was parsed and reported while the module was
                       \* built, under the qualified name A has now, then superseded.  System.handleDuplicate renames the whole
                       \* superseded subtree AND what parse_errors holds about it: A starts like any other object - Start does
                       \* not mention dup, and that is the specification
          i,           \* next call / event
          pd,          \* obj.parsed_docstring : "none" | "parsed" (the parser's result) | "plain" (plain text fallback)
          ps,          \* obj.parsed_summary   : "none" | "ok" | "brokensum" (get_summary gave up) | "brokenstan" (set by format_summary_fallback)
          perr,        \* System.parse_errors['docstring'] restricted to A, B, V
          nrep,        \* number of messages reported against each object
          lk,          \* obj.docstring_linker between two calls: "home" (reports against obj, links relative to its own page) or
                       \* "away" (left in a switched context).  format_summary renders under switch_context(None) (linker.py:94-110)
                       \* and leaves it when it returns, whatever happened inside: no step of this machine changes lk
          aerr,        \* System.parse_errors['annotation'] restricted to A, B, V: set before the first call (the annotation is
                       \* rendered first), never read or written afterwards
          pz,          \* obj.parsed_docstring holds a half-built cached document (a to_node call on it has failed)
          res          \* results so far: sequence of [o, op, r]
vars == <<tid, F, inherit, kindA, vdoc, dup, order, i, pd, ps, perr, nrep, aerr, pz, lk, res>>

\* whose faults the text rendered for o has  /  the "source": whom the pipeline reports against and passes to the fallbacks
Text(o) == IF o = "B" /\ inherit THEN "A" ELSE o
Src(o)  == IF (o = "B" /\ inherit) \/ o = "V" THEN "A" ELSE o

\* ------------------------------------------------------------------ transcription (pure operators on a state record)
St == [pd |-> pd, ps |-> ps, perr |-> perr, nrep |-> nrep, pz |-> pz]

\* reportErrors(source, errs): once per object
ReportErrors(s, src, n) == IF src \in s.perr THEN s
                           ELSE [s EXCEPT !.perr = @ \cup {src}, !.nrep[src] = @ + n]
\* parse_docstring(obj, doc, source): sets nothing itself, returns (kind of result, state after reporting)
ParseResult(f) == IF f.parse \in {"ok", "warn", "refused"} THEN "parsed" ELSE "plain"
ParseDocstring(s, o) == LET f == F[Text(o)]
                            s1 == IF f.parse = "ok" \/ (f.parse = "refused" /\ ~LongLineRefused) THEN s ELSE ReportErrors(s, Src(o), f.n)
                        IN [s1 EXCEPT !.pd[o] = ParseResult(f)]
\* ensure_parsed_docstring(obj): parse once, cache on obj
\* (V has no docstring text: get_docstring finds nothing, what extract_fields stored - or nothing - stays)
EnsureParsed(s, o) == IF s.pd[o] = "none" /\ o # "V" THEN ParseDocstring(s, o) ELSE s

\* format_docstring(obj): the body (safe_to_stan with the plain text fallback), then the fields (Field.format)
DocstringBody(s1, o) ==
    LET f == F[Text(o)] IN
    IF s1.pd[o] = "parsed" /\ f.parse = "refused" /\ LongLineRefused
      THEN [r |-> "lost", s |-> s1]                  \* the empty document is rendered: the parser gave up, no text is shown
    ELSE IF s1.pd[o] = "parsed" /\ f.node = "once"
      THEN IF ~s1.pz[o] \/ ~PoisonedCache
             THEN [r |-> "plainfull", s |-> [ReportErrors(s1, Src(o), 1) EXCEPT !.pz[o] = PoisonedCache]]   \* to_stan -> to_node raises: fallback + report
             ELSE [r |-> "lost", s |-> s1]              \* to_stan renders the empty cached document: no text, no report
    ELSE IF s1.pd[o] = "parsed" /\ f.tostan = "raises"
      THEN [r |-> "plainfull", s |-> ReportErrors(s1, Src(o), 1)]      \* safe_to_stan -> format_docstring_fallback(ctx = source) + reportErrors(ctx)
      ELSE [r |-> (CASE s1.pd[o] = "parsed" -> "rendered" [] s1.pd[o] = "plain" -> "plainfull" [] OTHER -> "undoc"), s |-> s1]
DocstringStep(s, o) ==
    LET s1 == EnsureParsed(s, o)
        b  == DocstringBody(s1, o) IN
    IF s1.pd[o] = "parsed" /\ F[Text(o)].field = "raises"
      THEN [r |-> b.r, s |-> ReportErrors(b.s, Src(o), 1)]             \* Field.format: safe_to_stan(fallback BROKEN) + reportErrors(source)
      ELSE b

\* format_summary(obj)
SummaryStep(s, o) ==
    LET s1 == EnsureParsed(s, o)
        f  == F[Text(o)]
        \* format_summary_fallback(errs, doc, ctx) sets ctx.parsed_summary; format_summary hands it obj as ctx (092c61e;
        \* it used to be the source: the failing summary of an attribute broke the summary of its class)
        mark == o
        \* _get_parsed_summary: cached, else parsed_docstring.get_summary()
        once  == s1.pd[o] = "parsed" /\ f.node = "once"
        fresh == IF f.summary = "broken" \/ (once /\ (~s1.pz[o] \/ ~PoisonedCache)) THEN "brokensum" ELSE "ok"
        s2 == IF s1.ps[o] = "none" THEN [s1 EXCEPT !.ps[o] = fresh, !.pz[o] = (@ \/ (once /\ PoisonedCache))] ELSE s1
        cur == s2.ps[o] IN
    \* undocumented: ParsedStanOnly(format_undocumented(obj)) is cached like any other summary
    IF s1.pd[o] = "none" THEN [r |-> "undoc", s |-> [s1 EXCEPT !.ps[o] = IF @ = "none" THEN "ok" ELSE @]]
    ELSE IF cur = "ok" /\ f.summary = "stanraises"
      \* safe_to_stan(report=False) -> format_summary_fallback: ctx.parsed_summary = BROKEN
      THEN [r |-> "broken", s |-> [s2 EXCEPT !.ps[mark] = "brokenstan"]]
      ELSE [r |-> (CASE cur = "ok" -> "summary" [] cur = "brokensum" -> "brokensum" [] cur = "brokenstan" -> "broken"), s |-> s2]

\* format_toc(obj)   (sidebartocdepth > 0)
TocStep(s, o) ==
    LET s1 == EnsureParsed(s, o)
        f  == F[Text(o)] IN
    IF s1.pd[o] # "parsed" THEN [r |-> "none", s |-> s1]                \* plain text: no titles
    ELSE IF f.node = "once"
      THEN IF ~s1.pz[o] \/ ~PoisonedCache
             THEN [r |-> (IF TocGuarded THEN "none" ELSE "escaped"), s |-> [s1 EXCEPT !.pz[o] = PoisonedCache]]
             ELSE [r |-> "none", s |-> s1]
    ELSE CASE f.toc = "none"       -> [r |-> "none", s |-> s1]
           [] f.toc = "ok"         -> [r |-> "toc", s |-> s1]
           [] f.toc = "stanraises" -> [r |-> "broken", s |-> s1]         \* safe_to_stan(report=False, fallback BROKEN)
           \* get_toc catches NotImplementedError only; format_toc has no guard (deviation format-toc-unguarded)
           [] f.toc = "noderaises" -> [r |-> (IF TocGuarded THEN "none" ELSE "escaped"), s |-> s1]

Step(s, o, op) == CASE op = "docstring" -> DocstringStep(s, o)
                    [] op = "summary"   -> SummaryStep(s, o)
                    [] op = "toc"       -> TocStep(s, o)
                    \* extract_fields(obj): parse unconditionally and cache
                    [] op = "extract_fields" -> [r |-> "done", s |-> ParseDocstring(s, o)]

\* ------------------------------------------------------------------ behaviours
Blank == [pd |-> [o \in Objs |-> "none"], ps |-> [o \in Objs |-> "none"], perr |-> {}, nrep |-> [o \in Objs |-> 0],
          pz |-> [o \in Objs |-> FALSE]]

InitEnum == /\ Source = "enum" /\ tid = 0
            /\ inherit \in BOOLEAN /\ kindA \in {"func", "cls"}
            /\ (kindA = "cls" => ~inherit)
            /\ \E fa \in CanonFaults :
                 /\ (fa.ann = "raises" => kindA = "func")                  \* the annotated attribute scenario
                 /\ (fa.lvl # "warning" \/ fa.parse = "refused" => kindA = "func") \* (a text of its own: no fields appended to it)
                 \* (quick bound: what the class shares with the function scenario is not enumerated twice)
                 /\ (kindA = "cls" /\ BMenu = "tiny" => fa.summary # "broken" /\ fa.toc \in {"none", "ok"})
                 /\ dup \in BOOLEAN
                 /\ (dup => kindA = "cls" /\ fa \in {NoFault, [NoFault EXCEPT !.parse = "warn"], [NoFault EXCEPT !.parse = "fatal"],
                                                     [NoFault EXCEPT !.parse = "crash"], [NoFault EXCEPT !.tostan = "raises"]})
                 /\ vdoc = (kindA = "cls" /\ fa.parse \in {"ok", "warn"})   \* the parser's result has the field, plain text has none
                 /\ \E fb \in (IF ~inherit /\ kindA = "func" THEN BFaults \cup (IF fa.lvl # "warning" THEN {fa} ELSE {})   \* (the twin)
                                ELSE {NoFault}) :     \* B inherits, or is only a neighbour
                    \E fv \in (IF vdoc /\ ~dup THEN VMenu ELSE {NoFault}) :
                       /\ fb.ann = "ok" /\ fb.tag = "none" /\ (fb.lvl = "warning" \/ fb = fa)
                       \* (A's real reST text and B's real epytext text cannot live in one module: one docformat per scenario)
                       /\ ((fa.lvl # "warning" \/ fa.parse = "refused") => fb.node = "ok")
                       /\ F = [o \in Objs |-> CASE o = "A" -> fa [] o = "B" -> fb [] o = "V" -> fv]
            /\ order \in Orders(kindA)
InitFile == /\ Source = "file" /\ tid \in 1..Len(Traces)
            /\ inherit = Traces[tid].inherit /\ kindA = Traces[tid].kindA /\ vdoc = Traces[tid].vdoc /\ dup = FALSE
            /\ F = [o \in Objs |-> Traces[tid].F[o]]
            /\ order = <<>>
\* the builder has run extract_fields on the class: its docstring is parsed, the @ivar field body given to V
\* type2stan(A) before the first call (ann = raises): get_parsed_type looks for a "type" field in the attribute's own
\* docstring first, i.e. it goes through ensure_parsed_docstring (epydoc2stan.get_parsed_type)
Start == IF kindA = "cls" THEN [ParseDocstring(Blank, "A") EXCEPT !.pd["V"] = IF vdoc THEN "parsed" ELSE "none"]
         ELSE IF F["A"].ann = "raises" THEN EnsureParsed(Blank, "A") ELSE Blank
Init == /\ (InitEnum \/ InitFile)
        /\ i = 1 /\ res = <<>>
        /\ pd = Start.pd /\ ps = Start.ps /\ perr = Start.perr /\ nrep = Start.nrep /\ pz = Start.pz
        /\ lk = [o \in Objs |-> "home"]
        /\ aerr = {o \in Objs : F[o].ann = "raises"}

Apply(o, op, out) == /\ lk' = lk /\ aerr' = aerr
                     /\ pd' = out.s.pd /\ ps' = out.s.ps /\ perr' = out.s.perr /\ nrep' = out.s.nrep /\ pz' = out.s.pz
                     /\ res' = Append(res, [o |-> o, op |-> op, r |-> out.r])
                     /\ i' = i + 1
Call == /\ Source = "enum" /\ i <= Len(order)
        /\ Apply(order[i][1], order[i][2], Step(St, order[i][1], order[i][2]))
\* file: the logged event must be exactly the model's step
Ev == Traces[tid].ev[i]
TraceStep == /\ Source = "file" /\ i <= Len(Traces[tid].ev)
             /\ LET out == Step(St, Ev.o, Ev.op) IN
                  /\ out.r = Ev.r
                  /\ out.s.pd = [o \in Objs |-> Ev.st.pd[o]]
                  /\ out.s.ps = [o \in Objs |-> Ev.st.ps[o]]
                  /\ out.s.perr = {o \in Objs : Ev.st.perr[o]}
                  /\ out.s.nrep = [o \in Objs |-> Ev.st.nrep[o]]
                  /\ out.s.pz = [o \in Objs |-> Ev.st.pz[o]]
                  /\ lk = [o \in Objs |-> Ev.st.lk[o]]
                  /\ aerr = {o \in Objs : Ev.st.aerr[o]}
                  /\ Apply(Ev.o, Ev.op, out)
Next == (Call \/ TraceStep) /\ UNCHANGED <<tid, F, inherit, kindA, vdoc, dup, order>>
Spec == Init /\ [][Next]_vars

\* ------------------------------------------------------------------ the property (from the statement)
Results == {res[k] : k \in 1..Len(res)}
Parsed(o) == pd[o] # "none"
GaveUp(o) == Parsed(o) /\ F[Text(o)].parse \in {"fatal", "crash"}            \* the parser gave up on o's docstring
\* every entry point ends in a result
AlwaysResult == \A x \in Results : x.r # "escaped"
\* ... within the time limit (a call the harness had to interrupt is logged with r = "timeout"; the loop behind the only
\* way to hang that is known - section anchors - has its own module, Slug.tla)
Terminates == \A x \in Results : x.r # "timeout"
\* when the parser gives up, or the renderer fails, the body shown is the complete text as plain text
\* ("lost": the body was rendered from a document whose construction had failed, nothing was reported)
FallbackComplete == \A x \in Results : x.op = "docstring" =>
                       /\ ((GaveUp(x.o) \/ (F[Text(x.o)].tostan = "raises" /\ pd[x.o] # "none")) => x.r = "plainfull")
                       /\ x.r \notin {"lost", "partial", "broken"}
\* ... and the problem is reported against the object that carries the docstring
ReportedWhenFailed == \A o \in Objs : (Parsed(o) /\ o # "V" /\ F[Text(o)].parse # "ok" /\ ~(F[Text(o)].parse = "refused" /\ ~LongLineRefused)) => (Src(o) \in perr /\ nrep[Src(o)] >= 1)
ReportedWhenRenderFails == \A x \in Results : (x.op = "docstring" /\ (F[Text(x.o)].tostan = "raises" \/ F[Text(x.o)].field = "raises") /\ pd[x.o] = "parsed")
                                                   => (Src(x.o) \in perr /\ nrep[Src(x.o)] >= 1)
\* one report per object: whatever is called, in whatever order, however often the text is parsed
OneReport == \A o \in Objs : nrep[o] \in {0, 1, F[o].n} /\ (nrep[o] > 0 <=> o \in perr)
\* the linker of every object is back home after every call: what is rendered next - the object itself, or the siblings
\* that share it as their source - reports its unresolvable links and links relative to its own page
LinkerRestored == \A o \in Objs : lk[o] = "home"
\* a summary is never a failure to produce one
SummaryAlways == \A x \in Results : x.op = "summary" => x.r \in {"summary", "brokensum", "broken", "undoc"}
\* frame: working on one object changes nothing of another one, with one exception that follows from where the TEXT lives:
\* errors are reported against the source (the object whose docstring holds the text).  (The statement also allows the
\* summary fallback of an INHERITED docstring to mark the source; since 092c61e the code does not even do that.)  What
\* another object has parsed is never touched, and the summary of a class is not the business of its attributes.
Stepped(o) == i' = i + 1 /\ res'[Len(res')].o = o
FrameClause(o, p, waive) ==
    /\ pd'[p] = pd[p] /\ pz'[p] = pz[p]
    /\ (p # Src(o) => ps'[p] = ps[p] /\ nrep'[p] = nrep[p] /\ ((p \in perr') <=> (p \in perr)))
    /\ ((p = Src(o) /\ ~(o = "B" /\ inherit) /\ ~waive) => ps'[p] = ps[p])
FrameOK == \A o \in Objs : \A p \in Objs \ {o} : Stepped(o) => FrameClause(o, p, FALSE)
Frame == [][FrameOK]_vars
\* an inherited / field docstring never changes what the source itself has parsed (part of Frame, stated for the reader)
SourceParseUntouched == [][\A o \in Objs : (Stepped(o) /\ Src(o) # o) => pd'[Src(o)] = pd[Src(o)]]_vars

\* known finding (findings.d/C08.json  format-toc-unguarded): to_node failing inside get_toc escapes format_toc
KF_TocEscapes == \A x \in Results : x.r = "escaped" => (x.op = "toc" /\ (F[Text(x.o)].toc = "noderaises" \/ F[Text(x.o)].node = "once"))
AlwaysResultOrKF == AlwaysResult \/ KF_TocEscapes
\* known finding (findings.d/C08.json  epytext-half-built-document-cached): after a swallowed to_node failure the body is lost
\* known finding (findings.d/C08.json  rst-long-line-refused): a docstring with a line of more than 10 000 characters is shown empty
KF_PoisonedCache == \A x \in Results : (x.op = "docstring" /\ x.r = "lost") => (F[Text(x.o)].node = "once" \/ F[Text(x.o)].parse = "refused")
FallbackCompleteOrKF == FallbackComplete \/ (KF_PoisonedCache /\ \A x \in Results : x.op = "docstring" =>
                                                 ((GaveUp(x.o) \/ (F[Text(x.o)].tostan = "raises" /\ pd[x.o] # "none")) => x.r = "plainfull") /\ x.r \notin {"partial", "broken"})

\* ------------------------------------------------------------------ emission / acceptance
DoneEnum == Source = "enum" /\ i = Len(order) + 1
EmitTerminal == DoneEnum => PrintT(ToJson([F |-> F, inherit |-> inherit, kindA |-> kindA, vdoc |-> vdoc, dup |-> dup, res |-> res,
                                           final |-> [pd |-> pd, ps |-> ps, nrep |-> nrep, pz |-> pz, lk |-> lk, aerr |-> [o \in Objs |-> o \in aerr], perr |-> [o \in Objs |-> o \in perr]]]))
Accept == (Source = "file" /\ i = Len(Traces[tid].ev) + 1) => TLCSet(1, TLCGet(1) \cup {tid})
Post == IF Source = "file" THEN PrintT(ToJson([accepted |-> TLCGet(1), total |-> Len(Traces)])) ELSE TRUE
=============================================================================
