---------------------------- MODULE RegistryMC ----------------------------
(***************************************************************************)
(* The registry as a free-standing state machine: ANY legal call of        *)
(* System.addObject / Documentable.reparent may happen at any time         *)
(* (an over-approximation of what analysis of a project can do, see        *)
(* Processing.tla for the histories analysis really produces).             *)
(* Used for conformance: TLC prints one shortest history per TRANSITION of *)
(* the reachable graph (history variable hidden by the VIEW), and every    *)
(* history is replayed through the real System with fresh Documentables.   *)
(***************************************************************************)
EXTENDS Registry, Json

CONSTANTS MaxObj, Names, MaxHist

\* "a.b": a name with a dot in it, as astbuilder gives to the setter of a property (configurations: DottedNames <- MCDotted)
MCDotted == [x \in {"a.b", "a.a"} |-> IF x = "a.b" THEN <<"a", "b">> ELSE <<"a", "a">>]
Dotted(n) == Len(Parts(n)) > 1

VARIABLES st, hist
vars == <<st, hist>>
View == st

ClsOr(p) == IF p \in 1..Len(st.objs) THEN Cls(st, p) ELSE "none"
KindFits(c, p) == \/ c \in {"Package", "Module"} /\ (p = NoObj \/ ClsOr(p) = "Package")
                  \/ c = "Class" /\ ClsOr(p) \in {"Module", "Package", "Class"}
                  \/ c \in {"Function", "Attribute"} /\ ClsOr(p) \in {"Module", "Package", "Class"}

Init == st = EmptySt /\ hist = <<>>

Add(c, n, p) == /\ ~st.crash /\ Len(st.objs) < MaxObj /\ Len(hist) < MaxHist
                /\ (p # NoObj => (p \in 1..Len(st.objs) /\ Registered(st, p)))
                /\ KindFits(c, p)
                \* module-level duplicates are handled by _handleDuplicateModule, not addObject
                /\ (c \in {"Package", "Module"} => (IF p = NoObj THEN <<P(n)>> ELSE Append(FN(st, p), P(n))) \notin DOMAIN st.all)
                \* dotted names are given to functions in classes only
                /\ (Dotted(n) => c = "Function" /\ ClsOr(p) = "Class")
                /\ st' = AddObj(st, c, n, p, 0)
                /\ hist' = Append(hist, [a |-> "add", c |-> c, n |-> n, p |-> p, o |-> 0])
\* the move astbuilder._handleReExport performs: an object found through `contents` goes into a module under a plain name
Move(o, m, n) == /\ ~st.crash /\ Len(hist) < MaxHist
                 /\ o \in 1..Len(st.objs) /\ m \in 1..Len(st.objs) /\ Registered(st, o) /\ Registered(st, m)
                 /\ Cls(st, o) \in {"Class", "Function", "Attribute"} /\ IsModCls(Cls(st, m))
                 /\ st.objs[o].par # NoObj /\ st.objs[o].par # m
                 /\ st.objs[o].name.d = 0 /\ st.objs[o].name.b \in DOMAIN st.cont[st.objs[o].par]
                 /\ st.cont[st.objs[o].par][st.objs[o].name.b] = o
                 /\ ~Dotted(n)
                 /\ st' = Reparent(st, o, m, n)
                 /\ hist' = Append(hist, [a |-> "move", c |-> "", n |-> n, p |-> m, o |-> o])
Next == \/ \E c \in {"Package", "Module", "Class", "Function", "Attribute"}, n \in Names, p \in 0..MaxObj : Add(c, n, p)
        \/ \E o \in 1..MaxObj, m \in 1..MaxObj, n \in Names : Move(o, m, n)
Spec == Init /\ [][Next]_vars

\* design level: the registry invariants under ANY legal API use
RegistryInv == RegistryOK(st)
NoCrashInv == ~st.crash

Proj(x) == [objs |-> [i \in 1..Len(x.objs) |-> [cls |-> x.objs[i].cls, nm |-> x.objs[i].name, par |-> x.objs[i].par]],
            all |-> LET ks == {k \in DOMAIN x.all : TRUE} IN {<<k, x.all[k]>> : k \in ks},
            crash |-> x.crash]
EmitEdge == PrintT(ToJson([h |-> hist', objs |-> Proj(st').objs, crash |-> st'.crash,
                           keys |-> LET ks == DOMAIN st'.all IN {[k |-> k, o |-> st'.all[k]] : k \in ks},
                           failed |-> FailedRegistryInvs(st')]))
=============================================================================
