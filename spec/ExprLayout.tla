----------------------------- MODULE ExprLayout -----------------------------
(***************************************************************************)
(* Property C15, second sentence: when the output is cut to the configured *)
(* line length / line count it is visibly marked as continued or           *)
(* truncated, never silently shortened.                                    *)
(*                                                                         *)
(* Transcription of the layout machinery of _pyval_repr.PyvalColorizer:    *)
(*   Out        = _output            (line wrapping, _Maxlines, _Linebreak)*)
(*   Multi      = _multiline         (one line first, then one element per *)
(*                                    line)                                *)
(*   BodyIter   = _colorize_iter / _insert_comma                           *)
(*   OpDelim    = _OperatorDelimiter.__enter__/__exit__ (mark / restore,   *)
(*                also on the exceptional exit)                            *)
(*   Colorize   = colorize           (ellipsis, _trim_result, is_complete) *)
(* The state is what _ColorizerState holds: the output so far (one symbol  *)
(* per character, "NL" / "WRAP" / "ELL" for the newline, the line-wrap     *)
(* marker and the ellipsis), charpos, lineno, linebreakok, and the pending *)
(* control-flow exception.                                                 *)
(*                                                                         *)
(* Contract (from the property statement): Marked.                         *)
(*                                                                         *)
(* Source = "enum": TLC enumerates tree x linelen x maxlines x linebreakok *)
(* and prints the predicted text (spec -> code).  Source = "file": outputs *)
(* OBSERVED from the real colorize_pyval are read and the contract is      *)
(* evaluated on them (code -> spec).  Source = "segs": _output itself, fed  *)
(* with ONE text of up to three lines at every starting column and line    *)
(* length (the astor fallback hands such multi-line text to _output): the  *)
(* remainder of a wrapped line must come right after its head, before the  *)
(* following lines (OrderKept).                                            *)
(***************************************************************************)
EXTENDS Integers, Sequences, FiniteSets, TLC, Json, IOUtils

CONSTANTS Source,       \* "enum" | "file" | "segs"
          SegMax, ColMax, \* "segs": lines of 0..SegMax characters, text starting at column 0..ColMax
          ExtraLineLen,   \* "enum": further line lengths (the default 80, 40)
          MaxLineLen,   \* linelen ranges over 0..MaxLineLen (0 = unlimited)
          MaxMaxLines,  \* maxlines ranges over 0..MaxMaxLines (0 = unlimited)
          Fixed

Data == JsonDeserialize(IOEnv.LAYOUT_FILE)      \* "enum": the trees; "file": the observations

VARIABLES ti, ll, ml, lbok, col, lens,
          step, wrapok     \* "hist": 1 = before the first rendering, 2 = after it, 3 = after the probe;
                           \* wrapok = the class-level PyvalColorizer.LINEWRAP node still holds its sign
vars == <<ti, ll, ml, lbok, col, lens, step, wrapok>>

E == INSTANCE Expr WITH Mode <- "layout", AnnOps <- {}, CmpUsed <- {}, Open <- {}, Fixed <- Fixed, n <- 0, x1 <- 0, x2 <- 0, frm <- 0

Min(a, b) == IF a < b THEN a ELSE b
Max(a, b) == IF a > b THEN a ELSE b
Range(s) == {s[i] : i \in DOMAIN s}
Last(s) == s[Len(s)]
PyTo(s, k)   == IF k >= 0 THEN SubSeq(s, 1, Min(k, Len(s))) ELSE SubSeq(s, 1, Max(Len(s) + k, 0))             \* s[:k]
PyFrom(s, k) == IF k >= 0 THEN SubSeq(s, Min(k, Len(s)) + 1, Len(s)) ELSE SubSeq(s, Max(Len(s) + k, 0) + 1, Len(s)) \* s[k:]
RECURSIVE SplitNl(_, _)
SplitNl(s, cur) == IF s = <<>> THEN <<cur>>
                   ELSE IF Head(s) = "nl" THEN <<cur>> \o SplitNl(Tail(s), <<>>)
                   ELSE SplitNl(Tail(s), Append(cur, Head(s)))
Spaces(k) == [j \in 1..k |-> " "]

\* ---------------------------------------------------------------- _output (:986-1055)
RECURSIVE Segs(_, _, _, _)
Segs(st, segs, first, nobreak) ==
   IF segs = <<>> THEN st
   ELSE LET s1 == IF first THEN st
                  ELSE IF st.ML # 0 /\ st.ln + 1 > st.ML THEN [st EXCEPT !.exc = "Maxlines"]           \* :1007
                  ELSE IF ~st.lb THEN [st EXCEPT !.exc = "Linebreak"]                                  \* :1009
                  ELSE [st EXCEPT !.out = Append(@, "NL"), !.ln = @ + 1, !.cp = 0]
            seg == Head(segs)
        IN IF s1.exc # "none" THEN s1
           ELSE IF st.LL = 0 \/ s1.cp + Len(seg) <= st.LL \/ nobreak                                    \* :1020-1023
                  THEN Segs([s1 EXCEPT !.out = @ \o seg, !.cp = @ + Len(seg)], Tail(segs), FALSE, nobreak)
                  ELSE LET k == st.LL - s1.cp IN                                                            \* :1047-1055
                       Segs([s1 EXCEPT !.out = @ \o PyTo(seg, k) \o <<"WRAP">>],
                            <<PyFrom(seg, k)>> \o Tail(segs), FALSE, nobreak)
Out(st, tok, nobreak) == IF st.exc # "none" THEN st ELSE Segs(st, SplitNl(tok, <<>>), TRUE, nobreak)

\* _insert_comma (:412-417)
Comma(st, indent) == IF st.lb THEN Out(Out(st, <<",">>, FALSE), <<"nl">> \o Spaces(indent), FALSE)
                     ELSE Out(st, <<",", " ">>, FALSE)

OpTok(t) == CASE t.op = "not" -> <<"n", "o", "t", " ">> [] t.op = "and" -> <<" ", "a", "n", "d", " ">>
              [] t.op = "or" -> <<" ", "o", "r", " ">> [] t.op = "**" -> <<"*", "*">> [] t.op = "//" -> <<"/", "/">>
              [] OTHER -> <<t.op>>
EscChar(ch) == CASE ch = "sq" -> <<"bs", "sq">> [] ch = "nl" -> <<"bs", "n">> [] ch = "bs" -> <<"bs", "bs">> [] OTHER -> <<ch>>
RECURSIVE Esc(_)
Esc(s) == IF s = <<>> THEN <<>> ELSE EscChar(Head(s)) \o Esc(Tail(s))

RECURSIVE Col(_, _, _, _), Body(_, _, _, _), IterFrom(_, _, _, _, _), StrLines(_, _, _), BoolFrom(_, _, _), DictFrom(_, _, _, _)
\* _multiline (:419-437): what = the function handed to it
Multi(st, what, t, from) ==
   IF st.exc # "none" THEN st
   ELSE LET r1 == Body([st EXCEPT !.lb = FALSE], what, t, from) IN
        IF r1.exc = "none" THEN [r1 EXCEPT !.lb = st.lb]
        ELSE IF r1.exc = "Linebreak" /\ st.lb THEN Body(st, what, t, from)       \* restore(mark), try again
        ELSE r1
\* _OperatorDelimiter (:122-168): __exit__ runs on every exit; restore() puts charpos / lineno back to the mark
\* and the re-inserted nodes are NOT counted again
OpDelim(st, paren, t) ==
   LET r == Body(st, "op", t, 1) IN
   IF ~paren THEN r
   ELSE LET trimmed == SubSeq(r.out, Len(st.out) + 1, Len(r.out))
            s1 == Out(st, <<"(">>, FALSE)               \* st = the marked state (no exception pending in it)
            s2 == IF s1.exc # "none" THEN s1 ELSE Out([s1 EXCEPT !.out = @ \o trimmed], <<")">>, FALSE)
        IN IF s2.exc # "none" THEN s2 ELSE [s2 EXCEPT !.exc = r.exc]
\* _colorize_str (:471-501), str only
StrLines(st, lines, j) ==
   IF j > Len(lines) \/ st.exc # "none" THEN st
   ELSE LET s1 == IF j > 1 THEN Out(st, <<"nl">>, FALSE) ELSE st
        IN StrLines(Out(s1, Esc(lines[j]), FALSE), lines, j + 1)
ColStr(st, val) ==
   LET quote == IF "nl" \in Range(val) /\ st.lb THEN <<"sq", "sq", "sq">> ELSE <<"sq">>
       lines == IF st.lb THEN SplitNl(val, <<>>) ELSE <<val>>
   IN Out(StrLines(Out(st, quote, TRUE), lines, 1), quote, TRUE)
\* _colorize_iter (:439-452) over t.kids[from..]
IterFrom(st, t, from, j, indent) ==
   IF j > Len(t.kids) \/ st.exc # "none" THEN st
   ELSE LET s1 == IF j > from THEN Comma(st, indent) ELSE st
        IN IterFrom(Col(s1, t, j, t.kids[j]), t, from, j + 1, indent)
BoolFrom(st, t, j) ==
   IF j > Len(t.kids) \/ st.exc # "none" THEN st
   ELSE LET s1 == Col(st, t, j, t.kids[j]) IN
        BoolFrom(IF j < Len(t.kids) THEN Out(s1, OpTok(t), FALSE) ELSE s1, t, j + 1)
\* _colorize_ast_dict (:454-469) over the (key, value) pairs t.kids[j], t.kids[j+1]; the pairs are a LIST
\* (items = list(zip(keys, values))): _multiline's second call starts again at the first pair
DictFrom(st, t, j, indent) ==
   IF j > Len(t.kids) \/ st.exc # "none" THEN st
   ELSE LET s1 == IF j > 1 THEN Comma(st, indent) ELSE st
            s2 == IF t.kids[j].k = "NoKey" THEN Out(s1, <<"*", "*">>, FALSE)
                  ELSE Out(Col(s1, t, j, t.kids[j]), <<":", " ">>, FALSE)
        IN DictFrom(Col(s2, t, j + 1, t.kids[j + 1]), t, j + 2, indent)
Prefix(t) == CASE t.k = "List" -> <<"[">> [] t.k = "Tuple" -> <<"(">> [] t.k = "Set" -> <<"s", "e", "t", "(", "[">> [] OTHER -> <<>>
Suffix(t) == CASE t.k = "List" -> <<"]">>
               [] t.k = "Set" -> <<"]", ")">>
               [] t.k = "Tuple" -> IF E!FixComma /\ Len(t.kids) = 1 THEN <<",", ")">> ELSE <<")">>
               [] OTHER -> <<>>
Body(st, what, t, from) ==
   IF st.exc # "none" THEN st
   ELSE CASE what = "iter" ->
               LET s0 == IF Prefix(t) # <<>> THEN Out(st, Prefix(t), FALSE) ELSE st
                   s1 == IterFrom(s0, t, from, from, s0.cp)
               IN IF Suffix(t) # <<>> THEN Out(s1, Suffix(t), FALSE) ELSE s1
          [] what = "dict" ->
               LET s0 == Out(st, <<"{">>, FALSE) IN Out(DictFrom(s0, t, 1, s0.cp), <<"}">>, FALSE)
          [] what = "op" ->
               CASE t.k = "Unary" -> Col(Out(st, OpTok(t), FALSE), t, 1, t.kids[1])                     \* :592-606
                 [] t.k = "Bin" -> Col(Out(Col(st, t, 1, t.kids[1]), OpTok(t), FALSE), t, 2, t.kids[2])  \* :608-645
                 [] t.k = "Bool" -> BoolFrom(st, t, 1)                                                   \* :647-658
\* _colorize / _colorize_ast dispatch; p, i = parent and slot of t (for _OperatorDelimiter)
Col(st, p, i, t) ==
   IF st.exc # "none" THEN st
   ELSE CASE t.k = "Name" -> Out(st, t.op, TRUE)                                  \* link: never broken
          [] t.k = "Num" -> Out(st, t.op, FALSE)
          \* _colorize_ast_generic (:762-769): astor's text, possibly several lines, in ONE _output call
          [] t.k = "Text" -> Out(st, t.op, FALSE)
          [] t.k = "Str" -> ColStr(st, t.op)
          [] t.k \in {"Unary", "Bin", "Bool"} -> OpDelim(st, E!ImplOpParen(p, i, t), t)
          [] t.k \in {"List", "Tuple", "Set"} -> Multi(st, "iter", t, 1)
          [] t.k = "Dict" -> Multi(st, "dict", t, 1)                                                     \* :568-570
          [] t.k = "Kw" -> Col(Out(Out(st, t.op, FALSE), <<"=">>, FALSE), t, 1, t.kids[1])               \* :582-588
          [] t.k = "Call" ->                                                                              \* :702-711
               LET s1 == Out(Col(st, t, 1, t.kids[1]), <<"(">>, FALSE)
                   indent == s1.cp
                   nargs == Cardinality({j \in 2..Len(t.kids) : t.kids[j].k # "Kw"})
                   args == [t EXCEPT !.kids = SubSeq(t.kids, 1, 1 + nargs)]
                   s2 == Multi(s1, "iter", [args EXCEPT !.k = "Args"], 2)
                   s3 == IF Len(t.kids) > 1 + nargs
                           THEN Multi(IF nargs > 0 THEN Comma(s2, indent) ELSE s2, "iter", [t EXCEPT !.k = "Args"], 2 + nargs)
                           ELSE s2
               IN Out(s3, <<")">>, FALSE)

\* colorize (:305-333)
St0b(linelen, maxlines, lb) == [out |-> <<>>, cp |-> 0, ln |-> 1, lb |-> lb, exc |-> "none", LL |-> linelen, ML |-> maxlines]
St0(linelen, maxlines) == St0b(linelen, maxlines, lbok)
\* _trim_result (:382-406) drops the last 3 characters of the result.  The nodes it shortens are copied first
\* (a366be8): LINEWRAP, ELLIPSIS and UNKNOWN_REPR are class-level node objects shared by every representation made in the
\* process and must come out of a truncation unchanged - see HistoryIndependent.
ColorizeWith(t, linelen, maxlines, lb) ==
   LET r == Col(St0b(linelen, maxlines, lb), E!Root, 1, t)
   IN IF r.exc = "none" THEN [text |-> r.out, complete |-> TRUE]
      ELSE IF lb THEN [text |-> r.out \o <<"NL", "ELL">>, complete |-> FALSE]
      ELSE LET o1 == IF r.out # <<>> /\ Last(r.out) = "WRAP" THEN PyTo(r.out, -1) ELSE r.out
           IN [text |-> PyTo(o1, -3) \o <<"ELL">>, complete |-> FALSE]                                   \* _trim_result(.., 3)
Colorize(t) == ColorizeWith(t, ll, ml, lbok)

\* ------------------------------------------------------------------ the contract
RECURSIVE Unwrap(_), Canon(_), SkipSp(_)
\* a line break forced by linelen is announced by the wrap marker: reading on across it gives the text back
Unwrap(s) == IF s = <<>> THEN <<>>
             ELSE IF Head(s) = "WRAP" THEN (IF Len(s) >= 2 /\ s[2] = "NL" THEN Unwrap(Tail(Tail(s))) ELSE Unwrap(Tail(s)))
             ELSE <<Head(s)>> \o Unwrap(Tail(s))
\* layout white space: "," newline indentation == ", "
SkipSp(s) == IF s # <<>> /\ Head(s) = " " THEN SkipSp(Tail(s)) ELSE s
Canon(s) == IF s = <<>> THEN <<>>
            ELSE IF Head(s) = "," /\ Len(s) >= 2 /\ s[2] = "NL" THEN <<",", " ">> \o Canon(SkipSp(Tail(Tail(s))))
            ELSE <<Head(s)>> \o Canon(Tail(s))
\* quote style: a string laid out over several lines is spelled '''a<newline>b''', on one line 'a\nb'
\* (the values checked here have no "," directly before a newline inside a string)
RECURSIVE Quotes(_)
Quotes(s) == IF s = <<>> THEN <<>>
             ELSE IF Len(s) >= 3 /\ SubSeq(s, 1, 3) = <<"sq", "sq", "sq">> THEN <<"sq">> \o Quotes(SubSeq(s, 4, Len(s)))
             ELSE IF Head(s) = "NL" THEN <<"bs", "n">> \o Quotes(Tail(s))
             ELSE <<Head(s)>> \o Quotes(Tail(s))
Essence(s) == Quotes(Canon(Unwrap(s)))
\* full = the text with no limits; shown / complete = what is displayed under (linelen, maxlines)
Marked(full, shown, complete) ==
   /\ complete => /\ Essence(shown) = Essence(full)              \* never silently shortened
                  /\ "ELL" \notin Range(shown)
   /\ ~complete => (shown # <<>> /\ Last(shown) = "ELL")           \* visibly truncated

\* ------------------------------------------------------------------------ cases
RECURSIVE SeqsUpTo(_, _)
SeqsUpTo(S, k) == IF k = 0 THEN {<<>>}
                  ELSE SeqsUpTo(S, k - 1) \cup {Append(x, y) : x \in {z \in SeqsUpTo(S, k - 1) : Len(z) = k - 1}, y \in S}
InitCase ==
        \/ /\ Source \in {"enum", "file"} /\ col = 0 /\ lens = <<>>
           /\ ti \in 1..Len(Data)
           \* linebreakok = FALSE is the inline configuration (colorize_inline_pyval): no line length there
           /\ IF Source = "enum" THEN /\ lbok \in BOOLEAN /\ ml \in 0..MaxMaxLines
                                      /\ ll \in (IF lbok THEN (0..MaxLineLen) \cup ExtraLineLen ELSE {0})
              ELSE ll = Data[ti].linelen /\ ml = Data[ti].maxlines /\ lbok = Data[ti].lbok
        \/ /\ Source = "segs" /\ ti = 0 /\ lbok = TRUE
           /\ ll \in 1..MaxLineLen /\ ml \in {0, MaxMaxLines} /\ col \in 0..ColMax
           /\ lens \in (SeqsUpTo(0..SegMax, 3) \ {<<>>})
        \* a history: a value rendered on one line with a line length (the "summary" configuration of the API), then a probe
        \/ /\ Source = "hist" /\ col = 0 /\ lens = <<>> /\ lbok = FALSE
           /\ ti \in 1..Len(Data) /\ ll \in 1..MaxLineLen /\ ml \in 0..MaxMaxLines
Init == /\ wrapok = TRUE
        /\ step = (IF Source = "hist" THEN 1 ELSE 0)
        /\ InitCase
Render1 == /\ step = 1 /\ step' = 2
           /\ wrapok' = wrapok          \* a truncation edits copies: the shared wrap sign keeps its text
           /\ UNCHANGED <<ti, ll, ml, lbok, col, lens>>
Probe   == /\ step = 2 /\ step' = 3 /\ UNCHANGED <<ti, ll, ml, lbok, col, lens, wrapok>>
Next == Source = "hist" /\ (Render1 \/ Probe)
\* the probe: a number wrapped at 4 characters, shown by a later, unrelated representation in the same process
ProbeTree == [k |-> "Num", op |-> <<"1", "2", "3", "4", "5", "6", "7", "8", "9", "0">>, kids |-> <<>>]
ProbeClean == ColorizeWith(ProbeTree, 4, 0, TRUE).text
ProbeShown == IF wrapok THEN ProbeClean ELSE SelectSeq(ProbeClean, LAMBDA x : x # "WRAP")
\* what is shown for a value does not depend on what was rendered before
HistoryIndependent == step = 3 => ProbeShown = ProbeClean
Spec == Init /\ [][Next]_vars

\* design level: the contract on the transcription's own output (full = the same value with no limits)
Full(t) == Col(St0(0, 0), E!Root, 1, t).out
\* ---- "segs": one multi-line text through _output
Chars == <<"a", "b", "c", "d", "e", "f", "g", "h", "i", "j", "k", "m", "o", "q", "r", "s", "t", "u", "v", "w", "x", "y", "z">>
RECURSIVE SegText(_, _, _)
SegText(ls, j, off) == IF j > Len(ls) THEN <<>>
                       ELSE (IF j > 1 THEN <<"nl">> ELSE <<>>) \o SubSeq(Chars, off + 1, off + ls[j]) \o SegText(ls, j + 1, off + ls[j])
SegPrefix == [j \in 1..col |-> "p"]
SegRun == Out(Out(St0(ll, ml), SegPrefix, FALSE), SegText(lens, 1, 0), FALSE)
\* nothing raised => reading across the wrap marks gives prefix + text, every character in its place
OrderKept(st) == st.exc = "none" =>
                    [j \in DOMAIN Unwrap(st.out) |-> IF Unwrap(st.out)[j] = "NL" THEN "nl" ELSE Unwrap(st.out)[j]]
                    = SegPrefix \o SegText(lens, 1, 0)
DesignOrderKept == Source = "segs" => OrderKept(SegRun)
Emit == IF Source = "hist"
          THEN (step = 3 => LET c == Colorize(Data[ti]) IN
                PrintT(ToJson([ti |-> ti, ll |-> ll, ml |-> ml, text |-> c.text, complete |-> c.complete,
                               wrapok |-> wrapok, probe |-> ProbeShown])))
        ELSE IF Source = "segs"
          THEN LET r == SegRun IN
               PrintT(ToJson([ll |-> ll, ml |-> ml, col |-> col, lens |-> lens, text |-> SegText(lens, 1, 0), out |-> r.out,
                              cp |-> r.cp, ln |-> r.ln, exc |-> r.exc, kept |-> OrderKept(r)]))
        ELSE IF Source = "enum"
          THEN LET c == Colorize(Data[ti]) IN
               PrintT(ToJson([ti |-> ti, ll |-> ll, ml |-> ml, lbok |-> lbok, text |-> c.text, complete |-> c.complete,
                              marked |-> Marked(Full(Data[ti]), c.text, c.complete)]))
          ELSE PrintT(ToJson([ti |-> ti, marked |-> Marked(Data[ti].full, Data[ti].shown, Data[ti].complete)]))
DesignMarked == Source = "enum" => LET c == Colorize(Data[ti]) IN Marked(Full(Data[ti]), c.text, c.complete)
=============================================================================
