------------------------------- MODULE PyBind -------------------------------
(***************************************************************************)
(* Reference semantics for C04: what Python binds.                         *)
(*                                                                         *)
(* PyBind executes the abstract statements of a project (the same records  *)
(* Processing.tla walks) the way the interpreter does: a module is         *)
(* executed the first time it is imported, importing a.b.c imports a, a.b, *)
(* a.b.c in turn and binds each sub-module as an attribute of its package, *)
(* `from M import n` takes the attribute n of M or else the sub-module     *)
(* M.n, star imports copy __all__ or the public names, a class body reads  *)
(* free names from its own namespace and then from the module (never from  *)
(* an enclosing class), attribute access on a class follows its bases.     *)
(*                                                                         *)
(* A module is marked as imported BEFORE its body runs (sys.modules), so an *)
(* import cycle sees the partially initialised namespace, exactly as the   *)
(* interpreter does; what a cyclic project binds therefore depends on the  *)
(* module imported first (PyBindOrder).  err is set when the interpreter   *)
(* would raise (ImportError: name not there yet; NameError: unbound base   *)
(* or alias value): such an entry order is not a way to import the project.*)
(*                                                                         *)
(* Result: ns : scope key -> (name -> value),                              *)
(*   scope key = <<i, 0>> module i | <<i, pc>> class opened at ops[pc],    *)
(*   value     = [t |-> "mod", i, pc |-> 0] | [t |-> "obj", i, pc].        *)
(* The operator is validated against CPython importing the generated files *)
(* (harness/checks/c04.py); a disagreement is a defect of this spec.       *)
(***************************************************************************)
EXTENDS Registry

ModVal(i) == [t |-> "mod", i |-> i, pc |-> 0]
ObjVal(i, pc) == [t |-> "obj", i |-> i, pc |-> pc]
NoVal == [t |-> "none", i |-> 0, pc |-> 0]

RECURSIVE PathOf(_, _)
PathOf(pr, i) == IF pr.mods[i].par = 0 THEN <<pr.mods[i].name>> ELSE Append(PathOf(pr, pr.mods[i].par), pr.mods[i].name)
ModByPath(pr, q) == LET c == {i \in 1..Len(pr.mods) : PathOf(pr, i) = q} IN IF c = {} THEN 0 ELSE CHOOSE i \in c : TRUE
\* Python's rule for relative imports: resolved against the package of the importing module
RelTarget(pr, i, lvl, m) ==
  IF lvl = 0 THEN m
  ELSE LET me  == PathOf(pr, i)
           pkg == IF pr.mods[i].pkg THEN me ELSE SubSeq(me, 1, Len(me) - 1)
       IN IF lvl - 1 >= Len(pkg) THEN <<>> ELSE SubSeq(pkg, 1, Len(pkg) - (lvl - 1)) \o m

PSeqRange(s) == {s[i] : i \in 1..Len(s)}
Bind(s, key, n, v) == [s EXCEPT !.ns = [@ EXCEPT ![key] = Put(@, n, v)]]
NsOf(s, key) == IF key \in DOMAIN s.ns THEN s.ns[key] ELSE Empty
ModKey(i) == <<i, 0>>

\* Python's linearisation of a class value (C3 over the values of its base expressions that are classes)
IsClassVal(s, v) == v.t = "obj" /\ <<v.i, v.pc>> \in DOMAIN s.ns
RECURSIVE PyMro(_, _, _)
PyMro(s, v, fuel) ==
  IF fuel = 0 THEN <<v>> ELSE
  LET bs == SelectSeq(s.bases[<<v.i, v.pc>>], LAMBDA b : IsClassVal(s, b))
  IN <<v>> \o MergeM([k \in 1..Len(bs) |-> PyMro(s, bs[k], fuel - 1)] \o <<bs>>, 16, NoVal)
\* attribute lookup on a value: module namespace, or the first class along the MRO that binds the name
Attr(s, v, n, fuel) ==
  IF v.t = "mod" THEN (IF n \in DOMAIN NsOf(s, ModKey(v.i)) THEN s.ns[ModKey(v.i)][n] ELSE NoVal)
  ELSE IF IsClassVal(s, v)
    THEN LET m == PyMro(s, v, 8)
             hits == {k \in 1..Len(m) : m[k].t = "obj" /\ n \in DOMAIN NsOf(s, <<m[k].i, m[k].pc>>)}
         IN IF hits = {} THEN NoVal ELSE s.ns[<<m[CHOOSE k \in hits : \A j \in hits : k <= j].i, m[CHOOSE k \in hits : \A j \in hits : k <= j].pc>>][n]
  ELSE NoVal
\* a bare name read in a scope: the innermost class namespace, then the module's globals
Lookup(s, scopes, n) ==
  LET top == scopes[Len(scopes)]
  IN IF n \in DOMAIN NsOf(s, top) THEN s.ns[top][n]
     ELSE IF n \in DOMAIN NsOf(s, scopes[1]) THEN s.ns[scopes[1]][n] ELSE NoVal
RECURSIVE EvalFrom(_, _, _, _)
EvalFrom(s, v, parts, k) == IF k > Len(parts) \/ v.t = "none" THEN v ELSE EvalFrom(s, Attr(s, v, parts[k], 6), parts, k + 1)
EvalDotted(s, scopes, parts) == EvalFrom(s, Lookup(s, scopes, parts[1]), parts, 2)

RECURSIVE ExecMod(_, _, _), RunOps(_, _, _, _, _), ImportPath(_, _, _, _)

\* import a.b.c : import every prefix in turn; after a sub-module is imported it becomes an attribute of its package
ImportPath(s, pr, q, k) ==
  IF k > Len(q) THEN s
  ELSE LET i == ModByPath(pr, SubSeq(q, 1, k))
       IN IF i = 0 THEN s
          ELSE LET s1 == ExecMod(s, pr, i)
                   \* the sub-module becomes an attribute of its package when ITS import completes: a module found in sys.modules
                   \* while it is still being executed (import cycle) is returned as it is, the attribute is not set yet
                   s2 == IF k > 1 /\ ModByPath(pr, SubSeq(q, 1, k - 1)) # 0 /\ i \notin s.done
                           THEN Bind(s1, ModKey(ModByPath(pr, SubSeq(q, 1, k - 1))), q[k], ModVal(i)) ELSE s1
               IN ImportPath(s2, pr, q, k + 1)

ExecMod(s, pr, i) ==
  IF i \in s.done THEN s
  ELSE IF pr.mods[i].broken THEN [s EXCEPT !.done = @ \cup {i}, !.err = TRUE]       \* SyntaxError
  ELSE RunOps([s EXCEPT !.done = @ \cup {i}, !.ns = Put(@, ModKey(i), Empty)], pr, i, 1, <<ModKey(i)>>)

RunOps(s, pr, i, pc, scopes) ==
  IF pr.mods[i].broken \/ pc > Len(pr.mods[i].ops) THEN s
  ELSE LET op  == pr.mods[i].ops[pc]
           top == scopes[Len(scopes)]
       IN CASE op.k = "from" /\ "tc" \in DOMAIN op -> RunOps(s, pr, i, pc + 1, scopes)      \* under `if TYPE_CHECKING:` - never executed
            [] op.k = "from" ->
                 LET tq == RelTarget(pr, i, op.lvl, op.m)
                     s1 == ImportPath(s, pr, tq, 1)
                     mi == ModByPath(pr, tq)
                     sub == ModByPath(pr, Append(tq, op.orig))
                 IN IF mi = 0 THEN RunOps(s1, pr, i, pc + 1, scopes)
                    ELSE IF op.orig \in DOMAIN NsOf(s1, ModKey(mi))
                      THEN RunOps(Bind(s1, top, op.as, s1.ns[ModKey(mi)][op.orig]), pr, i, pc + 1, scopes)
                    ELSE IF sub # 0
                      THEN RunOps(Bind(ImportPath(s1, pr, Append(tq, op.orig), 1), top, op.as, ModVal(sub)), pr, i, pc + 1, scopes)
                    ELSE RunOps([s1 EXCEPT !.err = TRUE], pr, i, pc + 1, scopes)  \* ImportError (cycle: the name is not bound yet)
            [] op.k = "star" ->
                 LET tq == RelTarget(pr, i, op.lvl, op.m)
                     s1 == ImportPath(s, pr, tq, 1)
                     mi == ModByPath(pr, tq)
                     src == NsOf(s1, ModKey(mi))
                     names == IF mi = 0 THEN {}
                              ELSE IF pr.mods[mi].hasAll THEN PSeqRange(pr.mods[mi].all) \cap DOMAIN src
                              ELSE {n \in DOMAIN src : n \notin PSeqRange(pr.priv)}
                     tns == NsOf(s1, top)
                     merged == [n \in DOMAIN tns \cup names |-> IF n \in names THEN src[n] ELSE tns[n]]
                 IN RunOps([s1 EXCEPT !.ns = [@ EXCEPT ![top] = merged]], pr, i, pc + 1, scopes)
            [] op.k = "import" ->
                 LET s1 == ImportPath(s, pr, op.m, 1)
                     whole == ModByPath(pr, op.m)
                     first == ModByPath(pr, <<op.m[1]>>)
                 IN IF op.as = "" THEN RunOps(IF first = 0 THEN s1 ELSE Bind(s1, top, op.m[1], ModVal(first)), pr, i, pc + 1, scopes)
                    ELSE RunOps(IF whole = 0 THEN s1 ELSE Bind(s1, top, op.as, ModVal(whole)), pr, i, pc + 1, scopes)
            [] op.k = "class" ->
                 LET key == <<i, pc>>
                     bvals == [b \in 1..Len(op.bases) |-> EvalDotted(s, scopes, op.bases[b])]
                     s1 == [s EXCEPT !.ns = Put(@, key, Empty), !.bases = Put(@, key, bvals),
                                     !.err = @ \/ \E b \in 1..Len(bvals) : bvals[b].t = "none" /\ op.bases[b] \notin {<<"Exception">>, <<"object">>}]
                 IN RunOps(s1, pr, i, pc + 1, Append(scopes, key))
            [] op.k = "endclass" ->
                 \* the class name is bound in the enclosing namespace once its body has run
                 LET key == scopes[Len(scopes)]
                     outer == SubSeq(scopes, 1, Len(scopes) - 1)
                 IN RunOps(Bind(s, outer[Len(outer)], pr.mods[i].ops[key[2]].n, ObjVal(i, key[2])), pr, i, pc + 1, outer)
            [] op.k = "def" \/ (op.k = "var" /\ "ann" \notin DOMAIN op) -> RunOps(Bind(s, top, op.n, ObjVal(i, pc)), pr, i, pc + 1, scopes)
            [] op.k = "var" /\ "ann" \in DOMAIN op -> RunOps(s, pr, i, pc + 1, scopes)      \* annotation without value binds nothing
            [] op.k = "str" -> RunOps(s, pr, i, pc + 1, scopes)
            [] op.k = "ivar" -> RunOps(Bind(s, top, "__init__", ObjVal(i, pc)), pr, i, pc + 1, scopes)
            [] op.k = "alias" ->
                 LET v == EvalDotted(s, scopes, op.v)
                 IN RunOps(IF v.t = "none" THEN [s EXCEPT !.err = TRUE] ELSE Bind(s, top, op.n, v), pr, i, pc + 1, scopes)

\* import every module of the project (any order gives the same namespaces for the generated subset)
RECURSIVE ImportAll(_, _, _)
ImportAll(s, pr, i) == IF i > Len(pr.mods) THEN s ELSE ImportAll(ImportPath(s, pr, PathOf(pr, i), 1), pr, i + 1)
PyBindAll(pr) == ImportAll([ns |-> Empty, bases |-> Empty, done |-> {}, err |-> FALSE], pr, 1)
\* the same with a given entry order (cyclic projects: what is bound depends on the module imported first)
RECURSIVE ImportOrder(_, _, _, _)
ImportOrder(s, pr, order, k) == IF k > Len(order) THEN s ELSE ImportOrder(ImportPath(s, pr, PathOf(pr, order[k]), 1), pr, order, k + 1)
PyBindOrder(pr, order) == ImportOrder([ns |-> Empty, bases |-> Empty, done |-> {}, err |-> FALSE], pr, order, 1)
=============================================================================
