------------------------------ MODULE Visitor ------------------------------
(***************************************************************************)
(* pydoctor/visitor.py : Visitor.walk / Visitor.walkabout with visitor     *)
(* extensions (ExtList, When) and the tree pruning exceptions raised by    *)
(* the MAIN visitor's visit_* method, or (SkipSiblings, "stop after this   *)
(* node") by its depart_* method.                                          *)
(*                                                                         *)
(* One action per call the implementation emits (each extension's and the  *)
(* main visitor's visit / depart) and one per control transfer (pruning    *)
(* exception raised, caught in this frame, caught in the parent's child    *)
(* loop, escaping the traversal), so that exception propagation is         *)
(* modelled the way the code does it.                                      *)
(*                                                                         *)
(* Configurations (tree, pruning per node, extension set, mode) are either *)
(* enumerated (Cfgs = "enum", all trees up to MaxN nodes) or read from a   *)
(* JSON file written by the harness from OBSERVED runs of the real code    *)
(* (code -> spec direction).  The spec is deterministic once Init is       *)
(* chosen; the terminal event list is printed and compared with the real   *)
(* implementation's event list by harness/checks/c19.py.                   *)
(***************************************************************************)
EXTENDS Naturals, Sequences, FiniteSets, TLC, Json, IOUtils

CONSTANTS MaxN,        \* enumeration bound on the number of nodes
          Source,      \* "enum" | "file"
          Modes,       \* subset of {"walk", "walkabout"} for the enumeration
          Histories,   \* subset of {"fresh", "rewalk", "lateadd"}
          NestedMaxPruned, \* with an inner traversal: at most that many nodes of the outer tree raise a pruning exception
          Edits,       \* {"none"} | {"drop"}: does the visit_* method of one node remove one of that node's own children from the tree
                       \* (walk(): "this tree traversal supports limited in-place tree modifications": the children of a node are
                       \* looked up AFTER the node has been entered, so what its visit_* method removes is not traversed)
          Nestings     \* {"none"} | {"nested"}: does a visit_* / depart_* method of the main visitor start a traversal of its own
                       \* (of a detached one-node tree, node n + 1) with the SAME visitor object - a re-entrant walk

\* "DepartSkipSiblings": visit_* returns normally, depart_* raises SkipSiblings (only meaningful in walkabout)
\* "DepartError": visit_* returns normally, depart_* raises a genuine error (not a pruning exception): it must reach the caller
\* "SkipSiblingsDepartError": visit_* raises SkipSiblings (kept pending while the children are walked) AND depart_* raises an error
PruneKinds == {"none", "SkipChildren", "SkipSiblings", "SkipNode", "SkipDeparture", "DepartSkipSiblings", "DepartError", "SkipSiblingsDepartError"}
DepartErrors == {"DepartError", "SkipSiblingsDepartError"}
SpecialDepartures == {"DepartSkipSiblings"} \cup DepartErrors
VisitPrune(k) == IF k \in {"DepartSkipSiblings", "DepartError"} THEN "none"
                 ELSE IF k = "SkipSiblingsDepartError" THEN "SkipSiblings" ELSE k        \* what visit_* raises
ExtIds == {"B", "B2", "A", "I", "O"}
When(e) == CASE e \in {"B", "B2"} -> "BEFORE" [] e = "A" -> "AFTER" [] e = "I" -> "INNER" [] e = "O" -> "OUTTER"
RegOrder == <<"B", "B2", "A", "I", "O">>    \* registration order inside one `when` bucket (ExtList.add)

\* configurations recorded from the real code: [n, parent (seq), prune (seq), exts (seq), mode]
FileCfgs == IF Source = "file" THEN JsonDeserialize(IOEnv.CFG_FILE) ELSE <<>>

VARIABLES cid, n, parent, prune, exts, mode, hist, nest, edit, stack, exc, events, status
vars == <<cid, n, parent, prune, exts, mode, hist, nest, edit, stack, exc, events, status>>
\* edit = [at: the node whose visit_* removes a child (0: none), drop: that child]
NoEdit == [at |-> 0, drop |-> 0]

\* nest = [at: the node whose visit_* / depart_* method starts the inner traversal (0: none), when: "visit" | "depart",
\*         how: "walk" | "walkabout", prune: what visit_* raises for the detached root]
NoNest == [at |-> 0, when |-> "visit", how |-> "walk", prune |-> "none"]
NestedPrunes == {"none", "SkipChildren", "SkipSiblings", "SkipNode", "SkipDeparture"}
PruneOf(x) == IF x = n + 1 THEN nest.prune ELSE prune[x]

Sel(t) == SelectSeq(RegOrder, LAMBDA e : e \in exts /\ When(e) = t)
PreV  == Sel("BEFORE") \o Sel("OUTTER")     \* Visitor.visit : before_visit + outter_visit
PostV == Sel("AFTER")  \o Sel("INNER")      \* Visitor.visit : after_visit + inner_visit
PreD  == Sel("BEFORE") \o Sel("INNER")      \* Visitor.depart: before_visit + inner_visit
PostD == Sel("AFTER")  \o Sel("OUTTER")     \* Visitor.depart: after_visit + outter_visit

\* (the children of a node are only asked for after its visit_*, so the removal needs no state of its own)
Kids(p) == SelectSeq([i \in 1..n |-> i], LAMBDA i : i > 1 /\ parent[i] = p /\ ~(p = edit.at /\ i = edit.drop))

\* mode: the traversal this frame belongs to is a walk or a walkabout; nroot: the frame is the root of an inner traversal
Frame(node, md, nr) == [node |-> node, ph |-> "Vpre", k |-> 1, callDepart |-> TRUE, skipNode |-> FALSE, pruning |-> "none",
                        mode |-> md, nroot |-> nr]

InitEnum == /\ Source = "enum" /\ cid = 0
            /\ n \in 1..MaxN
            /\ parent \in [1..n -> 0..n]
            /\ parent[1] = 0 /\ \A i \in 2..n : parent[i] \in 1..(i-1)
            /\ prune \in [1..n -> PruneKinds]
            /\ exts \in SUBSET ExtIds
            /\ ("B2" \in exts => "B" \in exts)
            /\ mode \in Modes
            /\ (mode = "walk" => \A i \in 1..n : prune[i] \notin SpecialDepartures)     \* walk() never departs
            /\ Cardinality({i \in 1..n : prune[i] \in SpecialDepartures}) <= 1       \* one special departure per tree
            \* the history of the visitor object before this walk: "fresh", or "rewalk" = it has already walked a tree
            \* while it had no extension at all, and the extensions were added afterwards (ExtList.add).  The contract
            \* speaks of the extensions registered NOW: nothing below depends on hist (frame condition).
            /\ hist \in Histories
            \* "lateadd": the visitor was created with an EMPTY extension list, to which the caller added the extensions afterwards
            \* through its own reference to that list (no walk in between)
            /\ (hist # "fresh" => \A i \in 1..n : prune[i] \notin SpecialDepartures)   \* special departures: fresh visitors only
            /\ nest \in (IF "nested" \in Nestings
                           THEN [at : 1..n, when : {"visit", "depart"}, how : {"walk", "walkabout"}, prune : NestedPrunes]
                           ELSE {NoNest})
            /\ edit \in (IF "drop" \in Edits THEN {[at |-> parent[c], drop |-> c] : c \in 2..n} ELSE {NoEdit})
            /\ (edit.at # 0 => /\ hist = "fresh" /\ nest.at = 0 /\ \A i \in 1..n : prune[i] \notin SpecialDepartures
                               /\ exts \in {{}, {"B", "A", "I", "O"}})
            /\ (nest.at # 0 => /\ hist = "fresh" /\ \A i \in 1..n : prune[i] \notin SpecialDepartures
                               /\ (nest.when = "depart" => mode = "walkabout")
                               /\ Cardinality({i \in 1..n : prune[i] # "none"}) <= NestedMaxPruned
                               /\ exts \in {{}, {"B", "A"}, {"I", "O"}, {"B", "A", "I", "O"}})
InitFile == /\ Source = "file"
            /\ cid \in 1..Len(FileCfgs)
            /\ n = FileCfgs[cid].n
            /\ parent = FileCfgs[cid].parent
            /\ prune = FileCfgs[cid].prune
            /\ exts = {FileCfgs[cid].exts[i] : i \in 1..Len(FileCfgs[cid].exts)}
            /\ mode = FileCfgs[cid].mode
            /\ hist = "fresh"
            /\ nest = NoNest
            /\ edit = NoEdit
Init == /\ (InitEnum \/ InitFile)
        /\ stack = <<Frame(1, mode, FALSE)>>
        /\ exc = "none"
        /\ events = <<>>
        /\ status = "running"

Top == stack[Len(stack)]
SetTop(f) == stack' = [stack EXCEPT ![Len(stack)] = f]
Pop == stack' = SubSeq(stack, 1, Len(stack) - 1)
Emit(who, kind, node) == events' = Append(events, <<who, kind, node>>)
Running == status = "running" /\ exc = "none" /\ Len(stack) > 0

\* ---- Visitor.visit (visitor.py:132-151)
VisitPre == /\ Running /\ Top.ph = "Vpre"
            /\ IF Top.k <= Len(PreV)
                 THEN Emit(PreV[Top.k], "visit", Top.node) /\ SetTop([Top EXCEPT !.k = @ + 1])
                 ELSE UNCHANGED events /\ SetTop([Top EXCEPT !.ph = "Vmain"])
            /\ UNCHANGED <<exc, status>>
\* super().visit(ob) : the main visitor's visit_*; a pruning exception is remembered, not raised yet
\* (when this is the node whose visit_* starts an inner traversal, that traversal runs to its end first: a frame is pushed,
\*  and visit_* goes on - raises its own pruning exception - when the inner root has returned)
VisitMain == /\ Running /\ Top.ph = "Vmain"
             /\ Emit("main", "visit", Top.node)
             /\ LET cont == [Top EXCEPT !.ph = "Vpost", !.k = 1, !.pruning = VisitPrune(PruneOf(Top.node))] IN
                  IF nest.at = Top.node /\ nest.when = "visit"
                    THEN stack' = Append([stack EXCEPT ![Len(stack)] = cont], Frame(n + 1, nest.how, TRUE))
                    ELSE SetTop(cont)
             /\ UNCHANGED <<exc, status>>
VisitPostExt == /\ Running /\ Top.ph = "Vpost" /\ Top.k <= Len(PostV)
                /\ Emit(PostV[Top.k], "visit", Top.node) /\ SetTop([Top EXCEPT !.k = @ + 1])
                /\ UNCHANGED <<exc, status>>

\* "if pruning: raise pruning" (visitor.py:150) and the handlers of walkabout (visitor.py:177-195)
RaiseAbout == /\ Running /\ Top.mode = "walkabout" /\ Top.ph = "Vpost" /\ Top.k > Len(PostV)
              /\ UNCHANGED <<events, status>>
              /\ CASE Top.pruning = "none"          -> SetTop([Top EXCEPT !.ph = "Kids", !.k = 1]) /\ UNCHANGED exc
                   [] Top.pruning = "SkipNode"      -> SetTop([Top EXCEPT !.ph = "Dpre", !.k = 1, !.skipNode = TRUE, !.callDepart = FALSE]) /\ UNCHANGED exc
                   [] Top.pruning = "SkipDeparture" -> SetTop([Top EXCEPT !.ph = "Kids", !.k = 1, !.callDepart = FALSE]) /\ UNCHANGED exc
                   [] Top.pruning = "SkipChildren"  -> SetTop([Top EXCEPT !.ph = "Dpre", !.k = 1]) /\ UNCHANGED exc
                   \* SkipSiblings raised by visit() is remembered, the node's own children and departure
                   \* are processed as usual, and it is re-raised after depart() (see DepartPost)
                   [] Top.pruning = "SkipSiblings"  -> SetTop([Top EXCEPT !.ph = "Kids", !.k = 1]) /\ UNCHANGED exc
\* handlers of walk (visitor.py:119-130): no departures
RaiseWalk == /\ Running /\ Top.mode = "walk" /\ Top.ph = "Vpost" /\ Top.k > Len(PostV)
             /\ UNCHANGED <<events, status>>
             /\ CASE Top.pruning \in {"none", "SkipDeparture"}   -> SetTop([Top EXCEPT !.ph = "Kids", !.k = 1]) /\ UNCHANGED exc
                  [] Top.pruning \in {"SkipChildren", "SkipNode"} -> Pop /\ UNCHANGED exc
                  [] Top.pruning = "SkipSiblings"                -> SetTop([Top EXCEPT !.ph = "Kids", !.k = 1]) /\ UNCHANGED exc

\* ---- children loop (visitor.py:126-130, 187-192)
KidsStep == /\ Running /\ Top.ph = "Kids"
            /\ IF Top.k <= Len(Kids(Top.node))
                 THEN stack' = Append([stack EXCEPT ![Len(stack)] = [Top EXCEPT !.k = @ + 1]], Frame(Kids(Top.node)[Top.k], Top.mode, FALSE))
                      /\ UNCHANGED exc
                 ELSE IF Top.mode = "walkabout"
                        THEN SetTop([Top EXCEPT !.ph = "Dpre", !.k = 1]) /\ UNCHANGED exc
                        \* walk: the frame returns; a remembered SkipSiblings is re-raised to the parent's loop
                        \* (the root of an inner traversal has no siblings: its walk() swallows the exception)
                        ELSE Pop /\ exc' = IF Top.pruning = "SkipSiblings" /\ ~Top.nroot THEN "SkipSiblings" ELSE "none"
            /\ UNCHANGED <<events, status>>
\* `except self.SkipSiblings: pass` in the PARENT's loop over children: the remaining children are skipped
CatchSiblings == /\ status = "running" /\ exc = "SkipSiblings" /\ Len(stack) > 0
                 /\ IF Top.mode = "walkabout"
                      THEN SetTop([Top EXCEPT !.ph = "Dpre", !.k = 1]) /\ exc' = "none"
                      ELSE Pop /\ exc' = IF Top.pruning = "SkipSiblings" /\ ~Top.nroot THEN "SkipSiblings" ELSE "none"
                 /\ UNCHANGED <<events, status>>
\* the root has no siblings: the top-level call swallows the exception
SwallowAtRoot == /\ status = "running" /\ exc # "none" /\ Len(stack) = 0
                 /\ exc' = "none" /\ UNCHANGED <<stack, events, status>>

\* ---- Visitor.depart (visitor.py:153-163)
DepartPre == /\ Running /\ Top.ph = "Dpre"
             /\ IF Top.k <= Len(PreD)
                  THEN Emit(PreD[Top.k], "depart", Top.node) /\ SetTop([Top EXCEPT !.k = @ + 1])
                  ELSE UNCHANGED events /\ SetTop([Top EXCEPT !.ph = "Dmain"])
             /\ UNCHANGED <<exc, status>>
\* super().depart(ob): a pruning exception raised by depart_* is remembered until the remaining extensions have left
DepartMain == /\ Running /\ Top.ph = "Dmain"
              /\ IF Top.callDepart THEN Emit("main", "depart", Top.node) ELSE UNCHANGED events
              /\ IF Top.callDepart /\ PruneOf(Top.node) \in DepartErrors
                   THEN \* a genuine error is not a pruning exception: nothing catches it, the traversal is abandoned
                        status' = "failed" /\ UNCHANGED <<stack, exc>>
                   ELSE /\ LET cont == [Top EXCEPT !.ph = "Dpost", !.k = 1,
                                         !.pruning = IF Top.callDepart /\ PruneOf(Top.node) = "DepartSkipSiblings" THEN "SkipSiblings" ELSE @] IN
                             IF Top.callDepart /\ nest.at = Top.node /\ nest.when = "depart"      \* depart_* starts an inner traversal
                               THEN stack' = Append([stack EXCEPT ![Len(stack)] = cont], Frame(n + 1, nest.how, TRUE))
                               ELSE SetTop(cont)
                        /\ UNCHANGED <<exc, status>>
DepartPost == /\ Running /\ Top.ph = "Dpost"
              /\ IF Top.k <= Len(PostD)
                   THEN Emit(PostD[Top.k], "depart", Top.node) /\ SetTop([Top EXCEPT !.k = @ + 1]) /\ UNCHANGED exc
                   ELSE UNCHANGED events /\ Pop
                        /\ exc' = IF Top.pruning = "SkipSiblings" /\ ~Top.nroot THEN "SkipSiblings" ELSE "none"
              /\ UNCHANGED status
Finish == /\ status = "running" /\ exc = "none" /\ Len(stack) = 0
          /\ status' = "done" /\ UNCHANGED <<stack, exc, events>>

Next == /\ (VisitPre \/ VisitMain \/ VisitPostExt \/ RaiseAbout \/ RaiseWalk \/ KidsStep \/ CatchSiblings
            \/ SwallowAtRoot \/ DepartPre \/ DepartMain \/ DepartPost \/ Finish)
        /\ UNCHANGED <<cid, n, parent, prune, exts, mode, hist, nest, edit>>
Spec == Init /\ [][Next]_vars

\* ------------------------------------------------------------------ the contract (property C19)
Terminal == status \in {"done", "escaped", "failed"}
Completed == status \in {"done", "escaped"}       \* the traversal was not abandoned because of a genuine error
Whos == exts \cup {"main"}
Idx(who, kind, node) == {i \in 1..Len(events) : events[i] = <<who, kind, node>>}
Pos(who, kind, node) == CHOOSE i \in Idx(who, kind, node) : TRUE
Seen(who, kind, node) == Idx(who, kind, node) # {}
RECURSIVE Anc(_)
Anc(x) == IF parent[x] = 0 THEN {} ELSE {parent[x]} \cup Anc(parent[x])

\* each node is entered at most once by everybody
EnteredAtMostOnce == \A w \in Whos, x \in 1..n : Cardinality(Idx(w, "visit", x)) <= 1
                                               /\ Cardinality(Idx(w, "depart", x)) <= 1
\* a pruning exception never leaves the traversal
NoEscape == status # "escaped"
\* walkabout: every extension that entered a node also leaves it (and only then)
ExtBalanced == (Completed /\ mode = "walkabout") => \A e \in exts, x \in 1..n :
                    Cardinality(Idx(e, "visit", x)) = Cardinality(Idx(e, "depart", x))
\* walkabout: the main visitor leaves what it entered, unless it asked not to
MainBalanced == (Completed /\ mode = "walkabout") => \A x \in 1..n :
                    /\ (Seen("main", "visit", x) /\ prune[x] \notin {"SkipNode", "SkipDeparture"}) => Seen("main", "depart", x)
                    /\ (Seen("main", "visit", x) /\ prune[x] \in {"SkipNode", "SkipDeparture"}) => ~Seen("main", "depart", x)
                    /\ Seen("main", "depart", x) => Seen("main", "visit", x)
\* walk: nobody departs
WalkNoDepart == mode = "walk" => \A i \in 1..Len(events) : events[i][3] <= n => events[i][2] = "visit"
\* enter / leave calls nest like the tree: a node's calls lie between its parent's visit and depart
WellNested == (Completed /\ mode = "walkabout") => \A w \in Whos, x \in 2..n :
                 Seen(w, "visit", x) =>
                    /\ Seen(w, "visit", parent[x]) /\ Pos(w, "visit", parent[x]) < Pos(w, "visit", x)
                    /\ (Seen(w, "depart", x) /\ Seen(w, "depart", parent[x])) => Pos(w, "depart", x) < Pos(w, "depart", parent[x])
                    /\ Seen(w, "depart", x) => Pos(w, "visit", x) < Pos(w, "depart", x)
\* documented relative order of the main visitor and the extensions (When)
DocumentedOrder == Completed => \A e \in exts, x \in 1..n :
     /\ (Seen(e, "visit", x) /\ Seen("main", "visit", x)) =>
            IF When(e) \in {"BEFORE", "OUTTER"} THEN Pos(e, "visit", x) < Pos("main", "visit", x)
                                                ELSE Pos("main", "visit", x) < Pos(e, "visit", x)
     /\ (Seen(e, "depart", x) /\ Seen("main", "depart", x)) =>
            IF When(e) \in {"BEFORE", "INNER"} THEN Pos(e, "depart", x) < Pos("main", "depart", x)
                                               ELSE Pos("main", "depart", x) < Pos(e, "depart", x)
\* ... and of the extensions among themselves, also where the main visitor does not leave the node (SkipNode, SkipDeparture):
\* entering BEFORE, OUTTER, (main), AFTER, INNER - leaving BEFORE, INNER, (main), AFTER, OUTTER; registration order within one timing
RankV(e) == CASE When(e) = "BEFORE" -> 1 [] When(e) = "OUTTER" -> 2 [] When(e) = "AFTER" -> 3 [] When(e) = "INNER" -> 4
RankD(e) == CASE When(e) = "BEFORE" -> 1 [] When(e) = "INNER" -> 2 [] When(e) = "AFTER" -> 3 [] When(e) = "OUTTER" -> 4
RegPos(e) == CHOOSE i \in 1..Len(RegOrder) : RegOrder[i] = e
Earlier(e1, e2, rank(_)) == rank(e1) < rank(e2) \/ (rank(e1) = rank(e2) /\ RegPos(e1) < RegPos(e2))
ExtOrder == Completed => \A e1, e2 \in exts, x \in 1..(n + 1) : e1 # e2 =>
     /\ (Seen(e1, "visit", x) /\ Seen(e2, "visit", x) /\ Earlier(e1, e2, RankV)) => Pos(e1, "visit", x) < Pos(e2, "visit", x)
     /\ (Seen(e1, "depart", x) /\ Seen(e2, "depart", x) /\ Earlier(e1, e2, RankD)) => Pos(e1, "depart", x) < Pos(e2, "depart", x)
\* who enters a node: everybody or nobody (extensions see what the main visitor sees)
SameNodesForAll == Completed => \A e \in exts, x \in 1..n : Seen(e, "visit", x) <=> Seen("main", "visit", x)
\* the documented meaning of the pruning exceptions: a node x is visited iff no ancestor pruned its
\* children (SkipChildren / SkipNode) and no elder sibling of x or of an ancestor raised SkipSiblings
Elder(x) == {y \in 2..n : parent[y] = parent[x] /\ y < x}
RECURSIVE Visited(_)
Visited(x) == IF x = 1 THEN TRUE
              ELSE /\ Visited(parent[x])
                   /\ x # edit.drop                          \* removed by the visit_* of its parent before the children were looked up
                   /\ prune[parent[x]] \notin {"SkipChildren", "SkipNode"}
                   /\ \A s \in Elder(x) : ~(Visited(s) /\ prune[s] \in {"SkipSiblings", "DepartSkipSiblings", "SkipSiblingsDepartError"})
PruningMeans == Completed => \A x \in 1..n : Seen("main", "visit", x) <=> Visited(x)

\* an abandoned traversal (a genuine error raised by depart_*) owes nothing but the error itself: ErrorsSurface
ErrorsSurface == Terminal => ((\E x \in 1..n : prune[x] \in DepartErrors /\ Seen("main", "depart", x)) <=> status = "failed")
\* A traversal started from inside a visit_* / depart_* method is a traversal of its own: everybody enters its root once
\* (and leaves it, in a walkabout, the main visitor unless it asked not to), all of it between the call that started it and
\* whatever comes next - and what its root raises stays there: PruningMeans above does not mention it.
NestedRan == nest.at # 0 /\ Seen("main", nest.when, nest.at)
NestedContract == (nest.at # 0 /\ Completed) =>
   LET N == n + 1
       mine == {i \in 1..Len(events) : events[i][3] = N}
   IN /\ \A w \in Whos : Cardinality(Idx(w, "visit", N)) = (IF NestedRan THEN 1 ELSE 0)
      /\ \A e \in exts : Cardinality(Idx(e, "depart", N)) = (IF NestedRan /\ nest.how = "walkabout" THEN 1 ELSE 0)
      /\ Cardinality(Idx("main", "depart", N)) = (IF NestedRan /\ nest.how = "walkabout" /\ nest.prune \notin {"SkipNode", "SkipDeparture"} THEN 1 ELSE 0)
      /\ NestedRan => \A i \in mine : /\ i > Pos("main", nest.when, nest.at)
                                       /\ \A j \in (Pos("main", nest.when, nest.at) + 1)..i : j \in mine       \* one contiguous block
Contract == ErrorsSurface /\ (status = "failed" \/
            /\ EnteredAtMostOnce /\ NoEscape /\ ExtBalanced /\ MainBalanced /\ WalkNoDepart
            /\ WellNested /\ DocumentedOrder /\ ExtOrder /\ SameNodesForAll /\ PruningMeans /\ NestedContract)

\* ------------------------------------------------------------------ emission (spec -> code)
Cfg == [cid |-> cid, n |-> n, parent |-> parent, prune |-> prune, mode |-> mode, hist |-> hist, nest |-> nest, edit |-> edit,
        exts |-> Sel("BEFORE") \o Sel("AFTER") \o Sel("INNER") \o Sel("OUTTER")]
EmitTerminal == Terminal => PrintT(ToJson([cfg |-> Cfg, status |-> status, events |-> events, contract |-> Contract]))
=============================================================================
