--------------------------- MODULE PrivacyCache ---------------------------
(***************************************************************************)
(* C13, pattern S: model.System.privacyClass with its cache               *)
(* (System._privacyClassCache, model.py 979, 1123-1155), Documentable.     *)
(* isVisible (model.py 359-369) and Documentable.reparent (model.py        *)
(* 266-281), which changes the qualified name of an object and of          *)
(* everything below it.                                                    *)
(*                                                                         *)
(* A small system: modules a and b, a class K (initially a.c) holding a    *)
(* function F named _m, and a class L (initially b.c).  K and L can be     *)
(* moved to either module under the names c and _c.  The rule list is one  *)
(* of RuleSets, chosen in Init.                                            *)
(*                                                                         *)
(* The property: whatever was asked and moved before, asking an object for *)
(* its privacy gives PrivacyOf(its CURRENT qualified name, rules), and its *)
(* visibility is the conjunction over its containers.                      *)
(*                                                                         *)
(* One behaviour per edge of the state graph is printed (hist is not in    *)
(* the VIEW) and replayed by harness/checks/c13.py through a real System   *)
(* with real Documentable objects.                                         *)
(* CacheKey = "object" is the design-level negative control: a cache keyed *)
(* by object identity violates ObservedRight after a move.                 *)
(* CacheKey = "objectPop" is a second one: keyed by object, reparent()     *)
(* drops the entry of the moved object only - members asked before the     *)
(* move keep the privacy of their old qualified name                       *)
(* (Query(F); Reparent(K); Query(F)).                                      *)
(***************************************************************************)
EXTENDS Privacy, Json

CONSTANTS KindlessStart, \* subset of BOOLEAN: may F start without a kind (Documentable.kind is None until the builder sets it)
          RuleSetIds,  \* subset of DOMAIN RuleSets explored
          MaxMoves,    \* bound on the number of reparent() calls in a behaviour
          MaxDepth,    \* bound on the length of a behaviour
          CacheKey     \* "fullName" (what the code does) | "object" | "objectPop" | "kindCached" (negative controls)

R(lv, pat) == [lv |-> lv, pat |-> pat]
RuleSets == <<
  \* 1: defaults only
  << >>,
  \* 2: --privacy=HIDDEN:a.* --privacy=PUBLIC:a.c       exact beats the later... and the earlier pattern
  << R("HIDDEN", <<"a", ".", "*">>), R("PUBLIC", <<"a", ".", "c">>) >>,
  \* 3: --privacy=PUBLIC:**._* --privacy=HIDDEN:b.** --privacy=PRIVATE:b.c
  << R("PUBLIC", <<"*", "*", ".", "_", "*">>), R("HIDDEN", <<"b", ".", "*", "*">>), R("PRIVATE", <<"b", ".", "c">>) >>,
  \* 4: --privacy=HIDDEN:?.c --privacy=PRIVATE:**._m --privacy=PUBLIC:a.c._m
  << R("HIDDEN", <<"?", ".", "c">>), R("PRIVATE", <<"*", "*", ".", "_", "m">>), R("PUBLIC", <<"a", ".", "c", ".", "_", "m">>) >>,
  \* 5: --privacy=HIDDEN:b --privacy=PUBLIC:*._c        a hidden module hides what is moved into it
  << R("HIDDEN", <<"b">>), R("PUBLIC", <<"*", ".", "_", "c">>) >>
>>

Mods    == {"a", "b"}
Movable == {"K", "L"}
Objs    == {"a", "b", "K", "F", "L"}
LocalNames == {<<"c">>, <<"_", "c">>}

VARIABLES rid,    \* which rule list
          loc,    \* loc[o] = [mod, nm] for o in Movable
          cache,  \* System._privacyClassCache : key -> level
          moves,  \* number of reparent() calls so far
          kl0,    \* did F start without a kind (constant of the behaviour)
          kindless, \* F has no kind yet: privacyClass answers HIDDEN and does NOT remember it (model.py "kind should not be None")
          steps,  \* number of calls so far (bounded; part of the VIEW so that the explored graph is the same in every run)
          hist    \* the behaviour so far (not in the VIEW)
vars == <<rid, loc, cache, moves, kl0, kindless, steps, hist>>
View == <<rid, loc, cache, moves, kl0, kindless, steps>>

Rules == RuleSets[rid]

FullName(o) == CASE o \in Mods -> <<o>>
                 [] o \in Movable -> <<loc[o].mod, ".">> \o loc[o].nm
                 [] o = "F" -> <<loc["K"].mod, ".">> \o loc["K"].nm \o <<".", "_", "m">>
\* the object and its containers, innermost first (Documentable.parent chain)
ObjChain(o) == CASE o \in Mods -> <<o>>
                 [] o \in Movable -> <<o, loc[o].mod>>
                 [] o = "F" -> <<"F", "K", loc["K"].mod>>
NameChain(o) == [i \in 1..Len(ObjChain(o)) |-> FullName(ObjChain(o)[i])]

Key(o) == IF CacheKey = "fullName" THEN FullName(o) ELSE <<o>>

\* System.privacyClass(ob) (model.py 1123-1155) on cache c: value returned and cache afterwards
\* the cache is looked up first; an object without a kind is HIDDEN, and that answer is not stored
\* (control "kindCached": it is stored under the full name, and outlives the object getting its kind)
Kindless(o) == o = "F" /\ kindless
QueryVal(c, o) == IF Key(o) \in DOMAIN c THEN c[Key(o)]
                  ELSE IF Kindless(o) THEN "HIDDEN" ELSE ImplPrivacy(FullName(o), Rules)
Store(c, o, v) == IF Key(o) \in DOMAIN c \/ (Kindless(o) /\ CacheKey # "kindCached") THEN c ELSE c @@ (Key(o) :> v)

\* Documentable.isVisible (model.py 359-369): own privacy, then the parent's isVisible unless already hidden
RECURSIVE VisWalk(_, _, _)
VisWalk(c, ch, i) ==
  IF i > Len(ch) THEN [c |-> c, v |-> TRUE]
  ELSE LET val == QueryVal(c, ch[i])
           c2  == Store(c, ch[i], val)
       IN IF val = "HIDDEN" THEN [c |-> c2, v |-> FALSE] ELSE VisWalk(c2, ch, i + 1)

Init == /\ rid \in RuleSetIds
        /\ loc = [o \in Movable |-> IF o = "K" THEN [mod |-> "a", nm |-> <<"c">>] ELSE [mod |-> "b", nm |-> <<"c">>]]
        /\ cache = [x \in {} |-> "none"]
        /\ moves = 0
        /\ kl0 \in KindlessStart /\ kindless = kl0
        /\ steps = 0
        /\ hist = <<>>

Step(op, o, got, exp, mod, nm) ==
  [op |-> op, o |-> o, name |-> FullName(o), got |-> got, exp |-> exp, mod |-> mod, nm |-> nm]

Query(o) ==
  LET v == QueryVal(cache, o) IN
    /\ cache' = Store(cache, o, v)
    /\ hist' = Append(hist, Step("query", o, v, IF Kindless(o) THEN "-" ELSE PrivacyOf(FullName(o), Rules), "-", <<>>))
    /\ steps' = steps + 1
    /\ UNCHANGED <<rid, loc, moves, kl0, kindless>>

QueryVisible(o) ==
  LET w == VisWalk(cache, ObjChain(o), 1) IN
    /\ cache' = w.c
    /\ hist' = Append(hist, Step("visible", o, IF w.v THEN "yes" ELSE "no",
                                 IF Kindless(o) THEN "-" ELSE IF VisibleRef(NameChain(o), Rules) THEN "yes" ELSE "no", "-", <<>>))
    /\ steps' = steps + 1
    /\ UNCHANGED <<rid, loc, moves, kl0, kindless>>

Reparent(o, m, n) ==
  /\ moves < MaxMoves
  /\ [mod |-> m, nm |-> n] # loc[o]
  /\ \A other \in Movable \ {o} : loc[other] # [mod |-> m, nm |-> n]    \* the harness never overwrites a name
  /\ loc' = [loc EXCEPT ![o] = [mod |-> m, nm |-> n]]
  /\ moves' = moves + 1
  /\ hist' = Append(hist, Step("reparent", o, "-", "-", m, n))
  /\ steps' = steps + 1
  /\ cache' = IF CacheKey = "objectPop"                                 \* reparent() does not touch the cache
               THEN [k \in DOMAIN cache \ {<<o>>} |-> cache[k]]            \* (control: forgets the moved object only)
               ELSE cache
  /\ UNCHANGED <<rid, kl0, kindless>>

\* the builder gives F its kind (astbuilder sets .kind after creating the object)
GiveKind ==
  /\ kindless /\ kindless' = FALSE
  /\ hist' = Append(hist, Step("givekind", "F", "-", "-", "-", <<>>))
  /\ steps' = steps + 1
  /\ UNCHANGED <<rid, loc, cache, moves, kl0>>

Next == \/ \E o \in Objs : Query(o)
        \/ \E o \in Objs \ Mods : QueryVisible(o)
        \/ \E o \in Movable, m \in Mods, n \in LocalNames : Reparent(o, m, n)
        \/ GiveKind
Spec == Init /\ [][Next]_vars

Bound == steps <= MaxDepth

---------------------------------------------------------------------------
\* the property, on states: what a query WOULD answer now is what the manual says for the current name
\* (an object that has no kind yet is outside the statement; once it has one, nothing of that time may remain)
ObservedRight == \A o \in Objs : ~Kindless(o) => QueryVal(cache, o) = PrivacyOf(FullName(o), Rules)
VisibleRight  == \A o \in Objs : ~Kindless(o) => VisWalk(cache, ObjChain(o), 1).v = VisibleRef(NameChain(o), Rules)
CacheSound    == CacheKey = "fullName" => \A k \in DOMAIN cache : cache[k] = PrivacyOf(k, Rules)

---------------------------------------------------------------------------
\* export: one record per edge; the reference value of every key the cache can hold, once per rule list
CacheList(c) == {[k |-> k, v |-> c[k]] : k \in DOMAIN c}
EmitEdge == PrintT(ToJson([rid |-> rid, rules |-> Rules, kl0 |-> kl0, h |-> hist', cache |-> CacheList(cache')]))
AllKeys == {<<m>> : m \in Mods} \cup {<<m, ".">> \o n : m \in Mods, n \in LocalNames}
             \cup {<<m, ".">> \o n \o <<".", "_", "m">> : m \in Mods, n \in LocalNames}
ASSUME PrintT(ToJson([refs |-> [r \in 1..Len(RuleSets) |->
                                 {[k |-> k, v |-> PrivacyOf(k, RuleSets[r])] : k \in AllKeys}]]))
=============================================================================
