------------------------------ MODULE Templates ------------------------------
(***************************************************************************)
(* The template lookup (templatewriter.TemplateLookup): the table the      *)
(* writer takes its HTML templates and static files from, built by a       *)
(* HISTORY of additions - the base templates, the theme, then every        *)
(* --template-dir in turn (driver.make), each directory in sorted order.   *)
(*                                                                         *)
(* A template is [name, kind, v]: name = relative path as written (case    *)
(* matters in the file system, not in the lookup), kind = "html" /         *)
(* "static" (by the extension), v = the pydoctor-template-version of an    *)
(* HTML template (0: none - the code says -1).  The table maps the LOWER-CASED name to the   *)
(* template that answers for it; the entry keeps the spelling of the name  *)
(* it was first added under (that is the name of the file written).        *)
(*                                                                         *)
(* add_template, one action per outcome:                                   *)
(*   rejected  "directory"   the name is a directory of the table (or,     *)
(*                           since the repair, lies below a file of it)    *)
(*   rejected  "kind"        an HTML template over a static one or back    *)
(*   rejected  "newer"       an HTML template designed for a newer version *)
(*                           than the one it replaces                      *)
(*   accepted  "outdated"    ... for an older version: warning             *)
(*   accepted  "ok"                                                        *)
(* A rejection raises: the directory being added is abandoned half way     *)
(* (the run ends with a usage error), the table keeps what was added.      *)
(***************************************************************************)
EXTENDS Integers, Sequences, FiniteSets, TLC, Json, SequencesExt

CONSTANTS MaxAdds,         \* length of the history
          Names,           \* the names a history may add: the n fields of entries of Catalogue
          Versions,        \* versions of HTML templates, 0 (none) among them
          BothWays         \* TRUE: a name below a FILE of the table is rejected too (the code since the repair); FALSE: the code before

\* a name is [n |-> as written, l |-> lower-cased, dir |-> its directory (lower-cased, "" at the top), html |-> BOOLEAN (by the extension)]
KindOf(nm) == IF nm.html THEN "html" ELSE "static"
N(n, l, d, h) == [n |-> n, l |-> l, dir |-> d, html |-> h]
Catalogue == {N("a.html", "a.html", "", TRUE), N("A.HTML", "a.html", "", TRUE), N("a.css", "a.css", "", FALSE), N("A.css", "a.css", "", FALSE),
              N("d", "d", "", FALSE), N("D", "d", "", FALSE), N("d.html", "d.html", "", TRUE),
              N("d/x.css", "d/x.css", "d", FALSE), N("D/x.css", "d/x.css", "d", FALSE), N("d/x.html", "d/x.html", "d", TRUE),
              N("d.html/y.css", "d.html/y.css", "d.html", FALSE), N("a.css/z.html", "a.css/z.html", "a.css", TRUE)}
NameRecs == {r \in Catalogue : r.n \in Names}

VARIABLES tab, hist
vars == <<tab, hist>>
Init == tab = [k \in {} |-> <<>>] /\ hist = <<>>

Put(f, k, v) == [x \in DOMAIN f \cup {k} |-> IF x = k THEN v ELSE f[x]]

Outcome(nm, v) ==
   LET l == nm.l
       kind == KindOf(nm)
   IN IF \E k \in DOMAIN tab : tab[k].dir = l THEN "directory"                         \* the name is a directory of the table
      ELSE IF BothWays /\ nm.dir # "" /\ nm.dir \in DOMAIN tab THEN "directory"         \* the name lies below a file of the table
      ELSE IF l \notin DOMAIN tab THEN "ok"
      ELSE IF tab[l].kind # kind THEN "kind"
      ELSE IF kind = "html" /\ tab[l].v # 0 /\ v # 0 /\ v > tab[l].v THEN "newer"
      ELSE IF kind = "html" /\ tab[l].v # 0 /\ v # 0 /\ v < tab[l].v THEN "outdated"
      ELSE "ok"

Add == /\ Len(hist) < MaxAdds
       /\ \E nm \in NameRecs, v \in Versions :
             /\ (~nm.html => v = 0)
             /\ LET o == Outcome(nm, v)
                    stored == IF nm.l \in DOMAIN tab THEN tab[nm.l].name ELSE nm.n      \* the first spelling stays
                IN /\ tab' = IF o \in {"ok", "outdated"} THEN Put(tab, nm.l, [name |-> stored, kind |-> KindOf(nm), v |-> v, dir |-> nm.dir, by |-> Len(hist) + 1])
                                                         ELSE tab
                   /\ hist' = Append(hist, [n |-> nm.n, v |-> v, outcome |-> o,
                                            tab |-> LET ks == SetToSeq(DOMAIN tab') IN [j \in 1..Len(ks) |-> [k |-> ks[j], name |-> tab'[ks[j]].name,
                                                                                                              kind |-> tab'[ks[j]].kind, v |-> tab'[ks[j]].v, by |-> tab'[ks[j]].by]]])
Done == Len(hist) = MaxAdds
Next == Add \/ (Done /\ UNCHANGED vars)
Spec == Init /\ [][Next]_vars

\* ------------------------------------------------------------------------------------------ properties
\* what answers for a name is the LAST template accepted under it (custom over theme over base)
LastAcceptedAnswers == \A k \in DOMAIN tab : LET idx == {j \in 1..Len(hist) : hist[j].outcome \in {"ok", "outdated"}
                                                                              /\ \E nm \in NameRecs : nm.n = hist[j].n /\ nm.l = k}
                                            IN idx # {} /\ tab[k].by = CHOOSE j \in idx : \A i \in idx : i <= j
\* the file written keeps one spelling and one type for the whole history
SpellingAndKindStay == [][\A k \in DOMAIN tab : k \in DOMAIN tab' /\ tab'[k].name = tab[k].name /\ tab'[k].kind = tab[k].kind]_vars
\* the output directory can be written: no name is both a file and a directory
NoFileIsADirectory == \A k1, k2 \in DOMAIN tab : tab[k2].dir # k1
\* an HTML template never replaces one written for an older pydoctor than itself
NeverNewerThanReplaced == [][\A k \in DOMAIN tab : k \in DOMAIN tab' /\ tab[k].kind = "html" /\ tab[k].v # 0 /\ tab'[k].v # 0 => tab'[k].v <= tab[k].v]_vars

Emit == Done => PrintT(ToJson([hist |-> hist]))
=============================================================================
