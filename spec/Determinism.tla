---------------------------- MODULE Determinism ----------------------------
(***************************************************************************)
(* C18 - equal inputs give byte-identical output.                          *)
(*                                                                         *)
(* One run of `pydoctor --html-output OUT roots...` as a function of the   *)
(* INPUT (the source trees, the order of the roots on the command line,    *)
(* --project-name given or not) with every ENVIRONMENT choice the code is  *)
(* exposed to made an explicit nondeterministic choice:                    *)
(*                                                                         *)
(*   listing  the order in which the file system lists a directory, taken  *)
(*            at the moment model.System.addPackage calls                  *)
(*            package_path.iterdir()                       (model.py:1355) *)
(*   setOrder the order in which the set System.root_names iterates        *)
(*            (model.py:1020 builds a set; it is iterated by               *)
(*            driver.get_system, driver.py:75, and by list(root_names) in  *)
(*            model.py:237 / writer.py:105) - decided by PYTHONHASHSEED    *)
(*   outdir   the output directory is empty, or already holds the result   *)
(*            of a previous run over the same input                        *)
(*   earlier  what the PROCESS did before this run: nothing (a fresh        *)
(*            `python -m pydoctor`), or a pydoctor run over ANOTHER project  *)
(*            (harness: another root of the universe, same way of naming    *)
(*            the sources) (sphinx                                          *)
(*            extension, API use: pydoctor.sphinx_ext.build_apidocs calls   *)
(*            driver.main once per configured project).  ChildTable.last_id *)
(*            (templatewriter/pages/table.py:62) is a class attribute that  *)
(*            numbers the member tables of every page: id="idN"             *)
(*   clock    the wall clock, read by System.__init__ (model.py:976,       *)
(*            buildtime = now()); it only reaches the pages when the       *)
(*            input does not fix the build time                            *)
(*                                                                         *)
(* The INPUT also holds the option variant: --cls/--mod-member-order       *)
(* (alphabetical | source) and the value of SOURCE_DATE_EPOCH (set, to any *)
(* number including 0, or unset).                                          *)
(*                                                                         *)
(* The model says what the code DOES (Listing = "sorted": the listing is   *)
(* passed through sorted(); the guessed project name joins the roots in    *)
(* command line order, fix 2ce009d; the member tables are numbered from 1  *)
(* in every run, fix 30089c6 - both stated unconditionally).  The property is a hyper-property: for one *)
(* input the terminal output must not depend on any environment choice.    *)
(* It is checked with one TLC register per project (DESIGN.md App. C "Hy").*)
(*                                                                         *)
(* Binding (harness/checks/c18.py): every terminal state printed here is   *)
(* one (project, environment choice) combination; each is realised as one  *)
(* real `python -m pydoctor` subprocess (hash seed chosen so that the real *)
(* set iterates in `setOrder`, a sitecustomize that makes os.listdir /     *)
(* os.scandir / Path.iterdir return `listing`, fresh or pre-filled output  *)
(* directory); the trees are compared byte by byte (verdict) and the       *)
(* observed projection is compared with `out` (conformance).  Source =     *)
(* "file" replays OBSERVED environments (code -> spec).                    *)
(***************************************************************************)
EXTENDS Naturals, Sequences, FiniteSets, TLC, Json, IOUtils, SequencesExt

CONSTANTS MaxRoots,   \* enumeration bound on the number of roots on the command line
          Source,     \* "enum" | "file"
          PermuteUpTo,\* listing orders other than the sorted one are explored for inputs with at most this many roots
          ReuseUpTo,  \* the reused output directory is explored for inputs with at most this many roots
          SameProcUpTo,\* a run after another run in the same process is explored for inputs with at most this many roots
          EpochRule,  \* "is_set" : SOURCE_DATE_EPOCH fixes the build time whenever the variable exists,
                      \*            whatever its number (driver.py:39-45: int(os.environ[...]), except KeyError)
                      \* "truthy" : a value of 0 counts as not set (model-level negative control only)
          Listing     \* "sorted" : for path in sorted(package_path.iterdir())       (model.py:1355)
                      \* "raw"    : the listing is used as the file system gives it (model-level
                      \*            negative control only: TLC must then report dependence)

(* The file-system universe the harness materialises.  Names are numbers   *)
(* whose order is the order of the real names (the harness keeps the map). *)
(*   roots : <<[id, pkg, name, dupof]>>  candidate roots; name = number of *)
(*           the module name; dupof = id of the root in ANOTHER directory  *)
(*           that has the same module name (0 = none): such a root is only *)
(*           enumerated through `extra`                                    *)
(*   extra : <<root sequences>>  inputs enumerated whatever MaxRoots       *)
(*   dirs  : <<[path, ents]>>         path = <<root, sub, ...>>,           *)
(*           ents = <<[id, kind]>>, kind in init|mod|pkg|dir|dot|other     *)
(*   sites : <<[name, mod, how, elems]>>  collections of names that reach  *)
(*           the page of module `mod`: elems = <<[m, r]>> (defined in      *)
(*           module m, rank r of its sort key) in the order the code       *)
(*           collects them; how = "list" (shown in collection order: zope  *)
(*           allImplementedInterfaces, zopeinterface.py:42-57) | "sorted"  *)
(*           (sorted before use: Class.subclasses, pages/__init__.py:465)  *)
(*           | "set" (iterated as a set: a choice point - none in the code *)
(*           as it is; used by the model-level negative control).          *)
(*           `how` is given per member order option: [alphabetical, source]*)
(*           (members inherited from a base: sorted by name, or by line    *)
(*           number and then "the order of insertion", util.py:114-124)    *)
(*   variants : <<[order, epochset, epoch, upto, pages, expand, permute]>> *)
(*           option variants of an input; enumerated for inputs with at    *)
(*           most `upto` roots.  pages = "all" | "summary"                 *)
(*           (--html-summary-pages: only the summary pages are written -   *)
(*           and, for a single root, the <root>.html symlink, which then   *)
(*           dangles).  expand: --sidebar-expand-depth=2 (the sidebar has  *)
(*           numbered expandable items).  tpl: --template-dir with two     *)
(*           footer templates whose names differ only by case: the scan is *)
(*           sorted (Template.fromdir, fix 731f7f4), the one sorted last   *)
(*           is used whatever the listing order; and a SECOND directory:   *)
(*           both provide header.html, the directory given last wins       *)
(*           (driver.make iterates options.templatedir, a list).  viacfg:  *)
(*           the sources are named by `add-package` in a configuration     *)
(*           file instead of on the command line: packages under the key   *)
(*           add-package, modules under add-module, the two spellings of   *)
(*           one append option; the source paths come in the order the     *)
(*           keys are written in the file (_configparser.ValidatorParser   *)
(*           keeps the order of the file).  permute: listing orders other    *)
(*           than the sorted one, and the second-run-of-a-process case,    *)
(*           are explored for this variant                                 *)
Universe == IF Source = "enum" THEN JsonDeserialize(IOEnv.C18_UNIVERSE)
            ELSE [roots |-> <<>>, dirs |-> <<>>, sites |-> <<>>, variants |-> <<>>, extra |-> <<>>]
\* observed runs: <<[reg, u, roots, named, setOrder, listing (seq aligned with u.dirs), outdir]>>
FileRuns == IF Source = "file" THEN JsonDeserialize(IOEnv.C18_RUNS) ELSE <<>>

Rng(s) == {s[i] : i \in DOMAIN s}
InjSeqs(S, n) == UNION {{s \in [1..k -> S] : \A i, j \in 1..k : i # j => s[i] # s[j]} : k \in 1..n}

\* ---------------------------------------------------------------- projects (the inputs)
EnumProjects ==
  LET ids == {Universe.roots[i].id : i \in {j \in DOMAIN Universe.roots : Universe.roots[j].dupof = 0}}
  IN  SetToSeq({x \in [roots : InjSeqs(ids, MaxRoots) \cup Rng(Universe.extra), named : BOOLEAN, var : Rng(Universe.variants)] :
                  Len(x.roots) <= x.var.upto})
NProjects == IF Source = "enum" THEN Len(EnumProjects) ELSE Len(FileRuns)
\* one register per INPUT; observed runs carry the number of their input in `reg`
NRegs == IF Source = "enum" THEN NProjects ELSE NProjects + 1
ASSUME \A p \in 1..NRegs : TLCSet(p, {})

VARIABLES pid,        \* index of the input (register number)
          u,          \* the universe this input lives in
          roots,      \* command line order of the roots
          named,      \* --project-name given
          var,        \* option variant: [order, epochset, epoch]
          clock,      \* environment: what the wall clock shows when the System is created
          phase,      \* "prev" (the run that filled the reused directory) | "cur"
          pc,         \* "add" | "guess" | "write" | "done"
          nroot,      \* number of roots handed to addModule so far
          stack,      \* addPackage frames: <<[dir, rest]>>, innermost last
          mods,       \* modules in the order they entered System.allobjects
          setOrder,   \* environment: iteration order of root_names in this process
          siteOrder,  \* environment: iteration order of every other set of names (aligned with u.sites)
          listing,    \* environment: dir path -> order the file system gave (as taken so far)
          outdir,     \* environment: "fresh" | "reused" | "sameproc" (fresh directory, second run of its process) |
                      \* "reusedaborted" (the directory holds what a run over the same input left when it ABORTED while one of
                      \* its pages was being rendered: the pages written so far, one of them partial, no summary page) |
                      \* "reusedcss" (the directory holds the result of a run that differed only in the bytes - not the
                      \* length - of extra.css in the --template-dir; only with var.tpl) |
                      \* "afterabort" (fresh directory; the process first ran a build that ABORTED part-way through its
                      \* pages - a directory sitting at the path of a page: IsADirectoryError in _writeDocsFor)
          projname,   \* System.projectname as a sequence of root ids (<<0>> = the given name)
          out         \* the output directory: file id -> content
vars == <<pid, u, roots, named, var, clock, phase, pc, nroot, stack, mods, setOrder, siteOrder, listing, outdir, projname, out>>

\* driver.get_system (driver.py:36-45)
EpochFixes(v) == v.epochset /\ (EpochRule = "is_set" \/ v.epoch # 0)
\* number of the first member table of this run (0 = they start at id1)
\* TemplateWriter.writeIndividualFiles resets ChildTable.last_id BEFORE it writes the first page (writer.py:85-89): whatever
\* the process did before - a complete build (outdir = "sameproc") or one that aborted among its pages ("afterabort")
IdBase == 0
\* number of the first expandable sidebar item (only with --sidebar-expand-depth > 1)
\* ... also reset by writeIndividualFiles (fix d031189)
SidebarBase == 0
BuildTime == IF EpochFixes(var) THEN <<0, var.epoch>> ELSE <<1, clock>>     \* <<1, c>>: now()

RootRec(r) == CHOOSE x \in Rng(u.roots) : x.id = r
\* Two roots with the same module name (pydoctor lib build/app src/app): the last one wins, the first leaves the system
\* with everything it contains, the modules still waiting to be processed keep their order
\* (System._handleDuplicateModule, model.py:1310-1326)
SameName(r, s) == RootRec(r).name = RootRec(s).name
RECURSIVE EffFrom(_)
EffFrom(i) == IF i > Len(roots) THEN <<>>
              ELSE (IF \E j \in (i + 1)..Len(roots) : SameName(roots[i], roots[j]) THEN <<>> ELSE <<roots[i]>>) \o EffFrom(i + 1)
Eff == EffFrom(1)         \* System.rootobjects at the end of step 2
DirRec(path) == CHOOSE d \in Rng(u.dirs) : d.path = path
ById(a, b) == a.id < b.id
Identity(ents) == SortSeq(ents, ById)
\* in the "prev" phase the environment is the reference one (bound: see notes/C18.md)
ListChoices(path) == IF phase = "prev" \/ Source = "file" THEN {}
                     ELSE IF Len(roots) <= PermuteUpTo /\ outdir \notin {"sameproc", "afterabort", "reusedaborted", "reusedcss"} /\ var.permute THEN SetToSeqs(Rng(DirRec(path).ents))
                     ELSE {Identity(DirRec(path).ents)}
FileListing(path) ==
  LET k == CHOOSE i \in DOMAIN u.dirs : u.dirs[i].path = path IN FileRuns[pid].listing[k]
Given(path) == IF phase = "prev" THEN Identity(DirRec(path).ents) ELSE FileListing(path)

\* model.System.addPackage (model.py:1351-1360): analyzeModule(__init__) then iterate the listing
OpenDir(path, perm) ==
  [dir |-> path, rest |-> IF Listing = "sorted" THEN SortSeq(perm, ById) ELSE perm]

Init ==
  /\ IF Source = "enum"
     THEN /\ pid \in 1..NProjects
          /\ u = Universe
          /\ roots = EnumProjects[pid].roots /\ named = EnumProjects[pid].named /\ var = EnumProjects[pid].var
          /\ outdir \in {"fresh"} \cup (IF Len(EnumProjects[pid].roots) <= ReuseUpTo THEN {"reused"} ELSE {})
                                   \* the histories of a process / of a directory: single-root inputs without --project-name
                                   \cup (IF Len(EnumProjects[pid].roots) <= SameProcUpTo /\ EnumProjects[pid].var.permute /\ ~EnumProjects[pid].named
                                         THEN {"sameproc", "afterabort", "reusedaborted"} \cup (IF EnumProjects[pid].var.tpl THEN {"reusedcss"} ELSE {})
                                         ELSE {})
     ELSE /\ pid \in 1..NProjects
          /\ u = FileRuns[pid].u
          /\ roots = FileRuns[pid].roots /\ named = FileRuns[pid].named /\ var = FileRuns[pid].var
          /\ outdir = FileRuns[pid].outdir
  /\ clock \in (IF EpochFixes(var) THEN {1} ELSE {1, 2})     \* two runs never start in the same second
  /\ phase = IF outdir \in {"reused", "reusedaborted", "reusedcss"} THEN "prev" ELSE "cur"
  /\ pc = "add" /\ nroot = 0 /\ stack = <<>> /\ mods = <<>>
  /\ setOrder = <<>> /\ siteOrder = <<>> /\ listing = <<>> /\ projname = <<>>
  /\ out = <<>>

\* driver.get_system step 2: for path in options.sourcepath: builder.addModule(path)  (driver.py:63-65)
AddRoot ==
  /\ pc = "add" /\ stack = <<>> /\ nroot < Len(roots)
  /\ LET r == roots[nroot + 1] IN
       /\ nroot' = nroot + 1
       /\ LET replaced == {roots[j] : j \in {k \in 1..nroot : SameName(roots[k], r)}}
          IN mods' = Append(SelectSeq(mods, LAMBDA m : m[1] \notin replaced), <<r>>)
       /\ IF RootRec(r).pkg
          THEN \/ \E perm \in ListChoices(<<r>>) :
                    /\ stack' = <<OpenDir(<<r>>, perm)>>
                    /\ listing' = Append(listing, [dir |-> <<r>>, order |-> perm])
               \/ /\ ListChoices(<<r>>) = {}
                  /\ stack' = <<OpenDir(<<r>>, Given(<<r>>))>>
                  /\ listing' = Append(listing, [dir |-> <<r>>, order |-> Given(<<r>>)])
          ELSE UNCHANGED <<stack, listing>>
  /\ UNCHANGED <<pid, u, roots, named, var, clock, phase, pc, setOrder, siteOrder, outdir, projname, out>>

\* one iteration of the for loop in addPackage (model.py:1355-1360)
StepEntry ==
  /\ pc = "add" /\ stack # <<>>
  /\ LET top == stack[Len(stack)]
         e == Head(top.rest)
         below == SubSeq(stack, 1, Len(stack) - 1)
         here == Append(below, [top EXCEPT !.rest = Tail(top.rest)])
         sub == Append(top.dir, e.id)
     IN /\ top.rest # <<>>
        /\ CASE e.kind = "pkg" ->          \* is_dir() and (path / '__init__.py').exists(): recurse
                  /\ mods' = Append(mods, sub)
                  /\ \/ \E perm \in ListChoices(sub) :
                          /\ stack' = Append(here, OpenDir(sub, perm))
                          /\ listing' = Append(listing, [dir |-> sub, order |-> perm])
                     \/ /\ ListChoices(sub) = {}
                        /\ stack' = Append(here, OpenDir(sub, Given(sub)))
                        /\ listing' = Append(listing, [dir |-> sub, order |-> Given(sub)])
             [] e.kind = "mod" ->          \* addModuleFromPath -> analyzeModule
                  /\ mods' = Append(mods, sub) /\ stack' = here /\ UNCHANGED listing
             [] OTHER ->                   \* __init__.py, dot file, non-python file, plain directory
                  /\ stack' = here /\ UNCHANGED <<mods, listing>>
  /\ UNCHANGED <<pid, u, roots, named, var, clock, phase, pc, nroot, setOrder, siteOrder, outdir, projname, out>>

PopFrame ==
  /\ pc = "add" /\ stack # <<>> /\ stack[Len(stack)].rest = <<>>
  /\ stack' = SubSeq(stack, 1, Len(stack) - 1)
  /\ UNCHANGED <<pid, u, roots, named, var, clock, phase, pc, nroot, mods, setOrder, siteOrder, listing, outdir, projname, out>>

AllAdded ==
  /\ pc = "add" /\ stack = <<>> /\ nroot = Len(roots)
  /\ pc' = "guess"
  /\ UNCHANGED <<pid, u, roots, named, var, clock, phase, nroot, stack, mods, setOrder, siteOrder, listing, outdir, projname, out>>

\* driver.get_system step 3 (driver.py:74-79); root_names is a set (model.py:1020-1022)
SetChoices == IF phase = "prev" THEN {SortSeq(Eff, LAMBDA a, b : a < b)}
              ELSE IF Source = "file" THEN {FileRuns[pid].setOrder}
              ELSE SetToSeqs(Rng(Eff))
\* the other collections of names: what a site shows, given the modules that are part of the run
Lt(a, b) == a < b
SiteRanks(i) == LET el == SelectSeq(u.sites[i].elems, LAMBDA e : e.m \in Rng(mods))
                IN [k \in DOMAIN el |-> el[k].r]
How(i) == u.sites[i].how[var.order]
SiteChoice(i) == IF How(i) = "set" /\ phase = "cur" /\ Source = "enum"
                 THEN SetToSeqs(Rng(SiteRanks(i))) ELSE {SortSeq(SiteRanks(i), Lt)}
RECURSIVE SiteChoices(_)
SiteChoices(i) == IF i > Len(u.sites) THEN {<<>>}
                  ELSE {<<p>> \o rest : p \in SiteChoice(i), rest \in SiteChoices(i + 1)}
SiteOut(i) == CASE How(i) = "list"   -> SiteRanks(i)
                [] How(i) = "sorted" -> SortSeq(SiteRanks(i), Lt)
                [] OTHER                     -> siteOrder[i]
GuessName ==
  /\ pc = "guess"
  /\ \E so \in SetChoices, sp \in SiteChoices(1) :
       /\ setOrder' = so
       /\ siteOrder' = sp
       /\ projname' = IF named THEN <<0>> ELSE Eff        \* '/'.join over system.rootobjects (driver.py:76)
  /\ pc' = "write"
  /\ UNCHANGED <<pid, u, roots, named, var, clock, phase, nroot, stack, mods, listing, outdir, out>>

\* IndexPage.rootkind (summary.py:318): sorted(set(kinds of the roots), key=name); MODULE = 1 < PACKAGE = 2
RootKinds == SortSeq(SetToSeq({IF RootRec(r).pkg THEN 2 ELSE 1 : r \in Rng(Eff)}), Lt)
SitesOf(m) == LET idx == SelectSeq([i \in 1..Len(u.sites) |-> i], LAMBDA i : u.sites[i].mod = m)
              IN [k \in DOMAIN idx |-> SiteOut(idx[k])]
ModuleOfPage(f) == IF f = <<0, 0>> THEN <<Eff[1]>> ELSE Tail(f)

(* The written tree.  File ids are sequences of numbers:                   *)
(*   <<0, k>>       index.html (k=0) and the summary pages                 *)
(*   <<1>> \o path  the page of a module                                   *)
(*   <<2, r>>       the symlink <root>.html -> index.html (writer.py:101;  *)
(*                  not for a root named `index`, 38e26a0 - no such root   *)
(*                  in the universes)                                      *)
Summary == {<<0, k>> : k \in 1..5}    \* moduleIndex classIndex nameIndex undoccedSummary all-documents
Single == Len(Eff) = 1
PageFile(m) == IF Single /\ m = <<Eff[1]>> THEN <<0, 0>> ELSE <<1>> \o m      \* model.py:236-239
Written ==
  LET pages == IF var.pages = "summary" THEN {}            \* --html-summary-pages (driver.py: writeSummaryPages only)
               ELSE {PageFile(mods[i]) : i \in DOMAIN mods}
      \* static templates are written with open('wb') (StaticTemplate.write): <<3, 0>> = extra.css of the --template-dir
      files == pages \cup Summary \cup (IF Single THEN {<<2, Eff[1]>>} ELSE {<<0, 0>>}) \cup (IF var.tpl THEN {<<3, 0>>} ELSE {})
  IN [f \in files |->
        IF f[1] = 2 THEN [pn |-> <<>>, bt |-> <<>>, body |-> <<<<0, 0>>>>]     \* symlink target
        ELSE IF f[1] = 3 THEN [pn |-> <<>>, bt |-> <<>>, body |-> <<<<IF phase = "prev" /\ outdir = "reusedcss" THEN 2 ELSE 1>>>>]
        ELSE IF f = <<0, 5>> THEN [pn |-> projname, bt |-> BuildTime, body |-> mods]             \* allobjects order
        ELSE IF f = <<0, 0>> /\ ~Single THEN [pn |-> projname, bt |-> BuildTime, body |-> <<RootKinds>>]
        ELSE IF f \in pages THEN [pn |-> projname, bt |-> BuildTime, body |-> <<<<IdBase, SidebarBase>>>> \o SitesOf(ModuleOfPage(f))]
        ELSE [pn |-> projname, bt |-> BuildTime, body |-> <<>>]]      \* every page has the footer (footer.html:7)
\* files are opened 'wb', the symlink is unlinked and re-created: new content wins, old files stay
Overlay(old, new) ==
  [f \in (DOMAIN old) \cup (DOMAIN new) |-> IF f \in DOMAIN new THEN new[f] ELSE old[f]]

\* what an aborted run leaves: the object pages (writeIndividualFiles comes first), the last one partial (<<9>>)
Aborted == LET w == Written
               pg == {f \in DOMAIN w : f[1] = 1 \/ (f = <<0, 0>> /\ Single)}
               last == CHOOSE f \in pg : \A g \in pg : Len(g) <= Len(f)
           IN [f \in pg |-> IF f = last THEN [w[f] EXCEPT !.body = <<<<9>>>>] ELSE w[f]]
Write ==
  /\ pc = "write"
  /\ out' = Overlay(out, IF phase = "prev" /\ outdir = "reusedaborted" THEN Aborted ELSE Written)
  /\ IF phase = "prev"
     THEN /\ phase' = "cur" /\ pc' = "add" /\ nroot' = 0 /\ mods' = <<>> /\ listing' = <<>>
          /\ setOrder' = <<>> /\ siteOrder' = <<>> /\ projname' = <<>>
     ELSE /\ pc' = "done" /\ UNCHANGED <<phase, nroot, mods, listing, setOrder, siteOrder, projname>>
  /\ UNCHANGED <<pid, u, roots, named, var, clock, stack, outdir>>

Next == AddRoot \/ StepEntry \/ PopFrame \/ AllAdded \/ GuessName \/ Write
Spec == Init /\ [][Next]_vars

Done == pc = "done"

\* ------------------------------------------------------------------ the property (hyper)
\* Output independent of every environment choice: all terminal `out` of one input are equal.
Reg == IF Source = "enum" THEN pid ELSE FileRuns[pid].reg
Collect == Done => TLCSet(Reg, TLCGet(Reg) \cup {out})
Dependent == {p \in 1..NRegs : Cardinality(TLCGet(p)) > 1}
Post == PrintT(ToJson([dependent |-> SetToSeq(Dependent), projects |-> NProjects]))

FileList(f) == SetToSeq(DOMAIN f)
Emit == Done =>
  PrintT(ToJson([pid |-> pid, reg |-> Reg, roots |-> roots, named |-> named, var |-> var, outdir |-> outdir,
                 eff |-> Eff,
                 footer |-> IF var.tpl THEN "sorted-last" ELSE "default",
                 header |-> IF var.tpl THEN "last-given" ELSE "default",
                 buildtime |-> BuildTime, idbase |-> IdBase, sidebarbase |-> SidebarBase,
                 setOrder |-> setOrder, listing |-> listing,
                 projname |-> projname, mods |-> mods, files |-> FileList(out),
                 alldocs |-> IF <<0, 5>> \in DOMAIN out THEN out[<<0, 5>>].body ELSE <<>>,
                 rootkinds |-> IF Single THEN <<>> ELSE RootKinds,
                 sites |-> IF var.pages = "summary" THEN <<>> ELSE
                           LET idx == SelectSeq([i \in 1..Len(u.sites) |-> i], LAMBDA i : u.sites[i].mod \in Rng(mods))
                           IN [k \in DOMAIN idx |-> [name |-> u.sites[idx[k]].name, order |-> SiteOut(idx[k])]]]))
=============================================================================
