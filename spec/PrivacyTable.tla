--------------------------- MODULE PrivacyTable ---------------------------
(***************************************************************************)
(* C13, pattern R with the table fed from the real code.                   *)
(*                                                                         *)
(* The harness evaluates the REAL functions over a finite space and writes *)
(* the results to IOEnv.TABLE_FILE:                                        *)
(*                                                                         *)
(*  Kind = "match":  names : <<name, ...>>                                 *)
(*                   rows  : <<[p |-> pattern, m |-> <<indices of the      *)
(*                             names qnmatch.qnmatch() accepted>>,         *)
(*                             e |-> qnmatch raised re.error]>>            *)
(*  Kind = "rules":  namesets : <<<<[f |-> qualified name, o |-> the       *)
(*                              object's own name], ...>>, ...>>           *)
(*                   universe : <<[lv, pat], ...>>, maxrules               *)
(*                   rows  : <<[rules |-> <<[lv, pat]>>, ns |-> index of   *)
(*                             the name set, res |-> <<level observed from *)
(*                             System.privacyClass per name>>]>>           *)
(*                                                                         *)
(* TLC recomputes every row with the reference (QnMatch / PrivacyOf) and   *)
(* with the transcription (ImplMatch / ImplPrivacy) and prints every row   *)
(* on which the three do not agree, plus a few sample rows.  When          *)
(* Exhaustive = TRUE it also proves that the rows are exactly the bounded  *)
(* space it enumerates itself (nothing missing, nothing repeated).         *)
(* Rows are spread over `Chunks` first-level states so that the workers    *)
(* share the evaluation.                                                   *)
(***************************************************************************)
EXTENDS Privacy, Json, IOUtils

CONSTANTS Kind,        \* "match" | "rules" | "sets"
          Exhaustive,  \* TRUE: rows must be exactly the enumerated space
          PatAlpha, NameAlpha,  \* Kind = "match": alphabets (sets of one-character strings) ...
          PatK, NameK, \* ... and length bounds of the exhaustive space
          Chunks,      \* number of first-level states
          SampleEvery  \* print every SampleEvery-th row as a sample (0 = none)

File == JsonDeserialize(IOEnv.TABLE_FILE)
Rows == File.rows
N == Len(Rows)

VARIABLES chunk, row
vars == <<chunk, row>>

Init == chunk = 0 /\ row = 0
Next == \/ /\ chunk = 0
           /\ chunk' \in 1..Chunks
           /\ row' = 0
        \/ /\ chunk > 0 /\ row = 0
           /\ row' \in {i \in 1..N : (i % Chunks) + 1 = chunk}
           /\ UNCHANGED chunk
Spec == Init /\ [][Next]_vars

IdxSet(s) == {s[k] : k \in 1..Len(s)}

---------------------------------------------------------------------------
\* Kind = "match"
Names == File.names
MatchReport(i) ==
  LET r    == Rows[i]
      rts  == Tok(r.p, 1)
      its  == ImplTok(r.p, 1)
      amb  == \E k \in 1..Len(rts) : AmbiguousTok(rts[k])
      ierr == \E k \in 1..Len(its) : its[k].t = "reset" /\ ReBad(its[k].b, 1)
      ref  == {k \in 1..Len(Names) : QnMatchT(Names[k], rts)}
      impl == IF ierr THEN {} ELSE {k \in 1..Len(Names) : QnMatchT(Names[k], its)}
      real == IdxSet(r.m)
  IN [i |-> i, p |-> r.p, amb |-> amb, ref |-> ref, impl |-> impl, ierr |-> ierr, real |-> real, rerr |-> r.e,
      real_is_ref  |-> amb \/ (~r.e /\ real = ref),
      real_is_impl |-> r.e = ierr /\ real = impl,
      impl_is_ref  |-> amb \/ (~ierr /\ impl = ref)]

\* Kind = "sets": [seq] and [!seq] over one-character names.  rows: [b |-> seq, pos |-> names [seq] accepted,
\* neg |-> names [!seq] accepted, epos / eneg |-> raised].
\* "[seq] / [!seq] for one character in or not in a set": whatever seq means, [!seq] accepts exactly the characters
\* [seq] refuses.  For a seq with an inner '-' the manual leaves two readings (three literals / a range as in fnmatch
\* and re): the observed pair must be ONE of them, consistently (a reversed range may also be refused by both).
SetsReport(i) ==
  LET r    == Rows[i]
      all  == 1..Len(Names)
      well == /\ Tok(<<"[">> \o r.b \o <<"]">>, 1) = <<[t |-> "set", neg |-> FALSE, b |-> r.b]>>
              /\ Tok(<<"[", "!">> \o r.b \o <<"]">>, 1) = <<[t |-> "set", neg |-> TRUE, b |-> r.b]>>
              /\ \A k \in all : Len(Names[k]) = 1
      amb  == \E x \in 2..(Len(r.b) - 1) : r.b[x] = "-"
      lit  == {k \in all : Names[k][1] \in Members(r.b)}
      bad  == ReBad(r.b, 1)
      rng  == IF bad THEN {} ELSE {k \in all : ReHas(r.b, 1, Names[k][1])}
      pos  == IdxSet(r.pos)
      neg  == IdxSet(r.neg)
      asLit == ~r.epos /\ ~r.eneg /\ pos = lit /\ neg = all \ lit
      asRng == IF bad THEN r.epos /\ r.eneg ELSE ~r.epos /\ ~r.eneg /\ pos = rng /\ neg = all \ rng
  IN [i |-> i, b |-> r.b, amb |-> amb, well |-> well, lit |-> lit, rng |-> rng, pos |-> pos, neg |-> neg,
      epos |-> r.epos, eneg |-> r.eneg,
      real_is_ref  |-> well /\ (asLit \/ (amb /\ asRng)),
      real_is_impl |-> asRng,                                   \* translate() + re: the range reading
      impl_is_ref  |-> amb \/ (~bad /\ rng = lit)]

\* Kind = "rules"
RulesReport(i) ==
  LET r    == Rows[i]
      nms  == File.namesets[r.ns]
      ref  == [k \in 1..Len(nms) |-> PrivacyOfN(nms[k].f, nms[k].o, r.rules)]      \* f: qualified name, o: own name
      impl == [k \in 1..Len(nms) |-> ImplPrivacyN(nms[k].f, nms[k].o, r.rules)]
  IN [i |-> i, rules |-> r.rules, ns |-> r.ns, ref |-> ref, impl |-> impl, real |-> r.res,
      amb |-> FALSE,
      real_is_ref  |-> r.res = ref,
      real_is_impl |-> r.res = impl,
      impl_is_ref  |-> impl = ref]

Report(i) == IF Kind = "match" THEN MatchReport(i) ELSE IF Kind = "sets" THEN SetsReport(i) ELSE RulesReport(i)

\* CONSTRAINT: the export path.  Every disagreeing row is printed; the harness decides (verdict discipline).
Emit == row > 0 =>
          LET rep == Report(row) IN
            IF ~rep.real_is_ref \/ ~rep.real_is_impl \/ ~rep.impl_is_ref
               \/ (SampleEvery > 0 /\ row % SampleEvery = 1)
            THEN PrintT(ToJson(rep)) ELSE TRUE

\* design level: the algorithm pydoctor uses, as transcribed, is the documented matcher / precedence
ImplIsRef == row > 0 => Report(row).impl_is_ref

---------------------------------------------------------------------------
\* completeness of an exhaustive table: the rows are the space TLC enumerates, each exactly once
RuleListsUpTo(U, k) == UNION {[1..m -> U] : m \in 0..k}
Complete ==
  IF ~Exhaustive THEN TRUE
  ELSE IF Kind = "match"
       THEN /\ {Rows[i].p : i \in 1..N} = SeqsUpTo(PatAlpha, PatK)
            /\ N = Cardinality(SeqsUpTo(PatAlpha, PatK))
            /\ {Names[k] : k \in 1..Len(Names)} = SeqsUpTo(NameAlpha, NameK)
       ELSE IF Kind = "sets" THEN TRUE
       ELSE LET U == {File.universe[k] : k \in 1..Len(File.universe)}
                space == RuleListsUpTo(U, File.maxrules) IN
            /\ {Rows[i].rules : i \in 1..N} = space
            /\ N = Cardinality(space)
            /\ \A i \in 1..N : Rows[i].ns = 1
ASSUME Complete
ASSUME PrintT(ToJson([rows |-> N, kind |-> Kind, exhaustive |-> Exhaustive]))
=============================================================================
