-------------------------------- MODULE Roots --------------------------------
(***************************************************************************)
(* Several source paths on one command line: System.addModule(path) for    *)
(* each path in turn (driver.get_system), i.e. addPackage / analyzeModule  *)
(* / _addUnprocessedModule / _handleDuplicateModule / _remove /            *)
(* System.addObject for parent-less modules (model.py 1182-1195,           *)
(* 1237-1305, 1375-1409), one step per module that enters the system.      *)
(*                                                                         *)
(* A path is [name, pkg, kids]: a module file name.py, or a package        *)
(* directory name/ holding __init__.py and the modules kids[1].py ...      *)
(* Two paths may provide the same top-level name: the documented rule is   *)
(* "packages win over modules, otherwise the last one wins", and the loser *)
(* leaves the system with everything it contains.                          *)
(*                                                                         *)
(*   mods   the unprocessed list (what will be analysed, in order)         *)
(*   reg    System.allobjects restricted to modules: qualified name -> src *)
(*   roots  System.rootobjects                                             *)
(* src = index of the path an entry came from.                             *)
(***************************************************************************)
EXTENDS Integers, Sequences, FiniteSets, TLC, Json, SequencesExt

CONSTANTS MaxPaths, RootNames
KidSets == {<<>>, <<"c">>, <<"c", "d">>}          \* child modules of a package directory

Options == [name : RootNames, pkg : {FALSE}, kids : {<<>>}] \cup [name : RootNames, pkg : {TRUE}, kids : KidSets]

VARIABLES paths, adds, i, mods, reg, roots
vars == <<paths, adds, i, mods, reg, roots>>

\* the modules entering the system, in order: each path's own module, then (packages) its children in sorted order
RECURSIVE Flatten(_, _)
Flatten(ps, k) == IF k > Len(ps) THEN <<>>
                  ELSE <<[name |-> <<ps[k].name>>, pkg |-> ps[k].pkg, src |-> k]>>
                       \o [j \in 1..Len(ps[k].kids) |-> [name |-> <<ps[k].name, ps[k].kids[j]>>, pkg |-> FALSE, src |-> k]]
                       \o Flatten(ps, k + 1)

Init == /\ paths \in UNION {[1..n -> Options] : n \in 1..MaxPaths}
        /\ adds = Flatten(paths, 1)
        /\ i = 1 /\ mods = <<>> /\ reg = [x \in {} |-> 0] /\ roots = <<>>

IsPrefixOf(a, b) == Len(a) <= Len(b) /\ SubSeq(b, 1, Len(a)) = a
Put(f, k, v) == [x \in DOMAIN f \cup {k} |-> IF x = k THEN v ELSE f[x]]
\* System._subtree(first) for modules: the keys below first's name that belong to the same source
SubKeys(first) == {k \in DOMAIN reg : IsPrefixOf(first.name, k) /\ reg[k] = first.src}

Register(m, ms, rg, rs) ==      \* unprocessed_modules.append ; addObject (root: rootobjects.append)
   /\ mods' = Append(ms, m)
   /\ reg' = Put(rg, m.name, m.src)
   /\ roots' = IF Len(m.name) = 1 THEN Append(rs, [name |-> m.name[1], src |-> m.src]) ELSE rs

Add == /\ i <= Len(adds)
       /\ LET m == adds[i] IN
          IF m.name \notin DOMAIN reg THEN Register(m, mods, reg, roots)
          ELSE LET first == [name |-> m.name, src |-> reg[m.name],
                             pkg |-> \E j \in 1..Len(mods) : mods[j].name = m.name /\ mods[j].src = reg[m.name] /\ mods[j].pkg]
               IN IF first.pkg /\ ~m.pkg
                    THEN UNCHANGED <<mods, reg, roots>>                                 \* packages win: the duplicate is dropped
                    ELSE LET gone == SubKeys(first)                                      \* the last one wins
                             ms == SelectSeq(mods, LAMBDA x : ~(x.name \in gone /\ x.src = first.src))
                             rg == [k \in DOMAIN reg \ gone |-> reg[k]]
                             rs == SelectSeq(roots, LAMBDA r : ~(r.name = first.name[1] /\ r.src = first.src /\ Len(first.name) = 1))
                         IN Register(m, ms, rg, rs)
       /\ i' = i + 1 /\ UNCHANGED <<paths, adds>>
Done == i > Len(adds)
Next == Add \/ (Done /\ UNCHANGED vars)
Spec == Init /\ [][Next]_vars

\* ---------------------------------------------------------------- properties (C02: reachable from a root, one key per object)
\* the winner of a top-level name according to the documented rule
Winner(n) == LET idx == {k \in 1..Len(paths) : paths[k].name = n}
                 RECURSIVE W(_, _)
                 W(k, cur) == IF k > Len(paths) THEN cur
                              ELSE IF paths[k].name # n THEN W(k + 1, cur)
                              ELSE IF cur = 0 THEN W(k + 1, k)
                              ELSE IF paths[cur].pkg /\ ~paths[k].pkg THEN W(k + 1, cur) ELSE W(k + 1, k)
             IN W(1, 0)
RootsAreWinners == Done => /\ \A n \in {paths[k].name : k \in 1..Len(paths)} :
                                 Cardinality({j \in 1..Len(roots) : roots[j].name = n}) = 1
                                 /\ \E j \in 1..Len(roots) : roots[j].name = n /\ roots[j].src = Winner(n)
                           /\ \A j \in 1..Len(roots) : <<roots[j].name>> \in DOMAIN reg /\ reg[<<roots[j].name>>] = roots[j].src
\* every registered module belongs to the winner of its top-level name, and so does everything that will be analysed
ReachableFromWinner == Done => /\ \A k \in DOMAIN reg : reg[k] = Winner(k[1])
                               /\ \A j \in 1..Len(mods) : mods[j].name \in DOMAIN reg /\ reg[mods[j].name] = mods[j].src
\* nothing of the winner is lost
WinnerComplete == Done => \A k \in 1..Len(paths) : Winner(paths[k].name) = k =>
                             /\ <<paths[k].name>> \in DOMAIN reg
                             /\ \A j \in 1..Len(paths[k].kids) : <<paths[k].name, paths[k].kids[j]>> \in DOMAIN reg

Emit == Done => PrintT(ToJson([paths |-> paths, mods |-> mods, roots |-> roots,
                               reg |-> LET ks == SetToSeq(DOMAIN reg) IN [j \in 1..Len(ks) |-> [k |-> ks[j], src |-> reg[ks[j]]]]]))
=============================================================================
