------------------------------ MODULE DocModel ------------------------------
(***************************************************************************)
(* C09 - rendering a docstring keeps its text.                             *)
(*                                                                         *)
(* A document BUILDER state machine (the structure-aware generator of the  *)
(* property's quantifier) together with the ORACLE operators that say what *)
(* a reader must see:                                                      *)
(*    Text(doc)      the visible word stream of the description, in order  *)
(*    Verbatim(doc)  the blocks that must come out character for character *)
(*    Fields(doc)    per field: kind, argument, the entry it belongs to,   *)
(*                   and the word stream / verbatim blocks expected there  *)
(*                                                                         *)
(* Words are distinct naturals (1, 2, 3, ... in source order), so loss,    *)
(* duplication, alteration and reordering are all visible.  The module is  *)
(* generator + oracle; it does not model the parsers (Epytext.tla models   *)
(* the epytext block structurer).  harness/checks/c09.py serialises every  *)
(* emitted document to every docformat that can express it and runs the    *)
(* real pydoctor pipeline on it.                                           *)
(*                                                                         *)
(* A document is a flat pre-order sequence of nodes:                       *)
(*   [t |-> "para", reg, lv, style, w]        paragraph with inline markup *)
(*   [t |-> "item", reg, lv, lt, n]           start of the n-th item of a  *)
(*                                            "u"/"o" list; lv = depth of  *)
(*                                            the item's content           *)
(*   [t |-> "lit"|"doctest"|"code", reg, lv, var, m]   verbatim block,     *)
(*                                            template var, marker word m  *)
(*   [t |-> "head", reg, lv, level, w]        section heading              *)
(*   [t |-> "field", reg, lv, kind, arg, form, ctag]  start of field reg    *)
(* reg = 0 is the description, reg = k > 0 the body of the k-th field;     *)
(* lv = number of enclosing lists.                                         *)
(*                                                                         *)
(* CloseList is fused with the action that follows it (parameter `up` =    *)
(* number of lists closed first): closing a list at the very end of a      *)
(* document is not observable and would only duplicate documents.          *)
(***************************************************************************)
EXTENDS Naturals, Integers, Sequences, FiniteSets, TLC, Json

CONSTANTS MaxActions,   \* bound on the number of builder actions
          MaxDepth,     \* bound on list nesting
          MaxFields,    \* bound on the number of fields
          Kinds,        \* field kinds enabled in this run (subset of DOMAIN KindTable)
          Blocks,       \* enabled block actions, subset of {"para","list","lit","doctest","code","section","version","poison"};
                        \* "typed" \in Blocks switches the bodies of type fields to structured type expressions
          Hows,         \* histories by which the object gets the docstring, subset of
                        \* {"direct", "assigned", "inherited", "narrowed", "twin", "moved", "afterprop"}
          Forms,        \* ways of writing a field enabled in this run, subset of {"plain", "cbullet", "cdef", "nsee"}
          FreeChoice    \* TRUE: inline style and verbatim template are free choices
                        \* FALSE: they rotate with the word counter (every one occurs, in varying contexts)

\* ------------------------------------------------------------------ inline styles
\* nw = number of words; the serialisers know the shape:
\*   plain  : w1 w2 <newline> w3            (continuation line)
\*   bold   : w1 B{w2} w3                   italic : I{w1 w2} w3
\*   code   : w1 C{w2}                      link   : w1 L{w2} w3  (cross reference that does not resolve)
\*   nest   : B{w1 I{w2}} w3                uri    : w1 U{w2<http://e.org/w2>}
\*   colon  : w1: w2 w3                     (a colon inside running text - napoleon splits lines on colons)
Styles == <<"plain", "bold", "italic", "code", "link", "nest", "uri", "colon">>
\*   word   : w1                            (only used for the body of type fields)
\* items of a numpy-style "See Also" section (form "nsee"); the referenced NAMES are words too, so that a description
\* that is lost, or attached to the wrong name, shows in the stream:
\*   sabare  : w1 <newline> indented: w2 w3 <newline> w4     (bare name, description on the following indented lines)
\*   sacolon : w1 : w2 w3 <newline> indented: w4              (name : text + continuation line)
\*   sacomma : w1, w2                                         (comma separated names, no description)
\*   saname  : w1                                             (bare name without description)
\*   sacommad: w1, w2 <newline> indented: w3 w4              (comma separated names, then their description)
StyleWords == [plain |-> 3, bold |-> 3, italic |-> 3, code |-> 2, link |-> 3, nest |-> 3, uri |-> 2, word |-> 1, colon |-> 3, tparam |-> 1, tbare |-> 0,
               sabare |-> 4, sacolon |-> 4, sacomma |-> 2, saname |-> 1, sacommad |-> 4]
\* STRUCTURED TYPES (enabled by "typed" \in Blocks): the body of a type field is an expression over ONE fixed container
\* name, which does not resolve to anything documented:   tparam : Seq[w1]     tbare : Seq
\* Several typed fields of one docstring (and of docstrings rendered with one linker) then name the same head - what is
\* shown for one of them must not depend on the others.  The expected type text is exactly the expression.
TypeStyles == IF "typed" \in Blocks THEN {"tparam", "tbare"} ELSE {"word"}
SeeStyles == {"sabare", "sacolon", "sacomma", "saname", "sacommad"}

\* ------------------------------------------------------------------ verbatim templates
\* A template is a sequence of lines, a line a sequence of segments; the segment "@M" is replaced by the
\* block's marker word.  Content is chosen to look like markup (braces, bullets, fields, prompts, html).
Templates ==
  [lit |-> <<
       << <<"@M", " = {x}  y">>, <<"    z <b>&amp; B{q}">> >>,
       << <<"- ", "@M", "::">>, <<>>, <<"  @param x: *y* `z`">>, <<"1. ", "@M">> >>,
       << <<">>> ", "@M">>, <<"  :return: ", "@M", " \"\"">> >> >>,
   doctest |-> <<
       << <<">>> ", "@M", " = 1">>, <<">>> print(", "@M", ")  # {c} <i>">>, <<"1">> >>,
       << <<">>> def ", "@M", "(a):">>, <<"...     return 'x' + \"y\"">>, <<">>> ", "@M", "(2)">>, <<"'xy'">> >>,
       << <<">>> raise ", "@M">>, <<"Traceback (most recent call last):">>, <<"    ...">>, <<"NameError: ", "@M">> >> >>,
   code |-> <<
       << <<"def ", "@M", "(a):">>, <<"    return a  # <", "@M", "> & {b}">>, <<>>, <<"x = ", "@M", "('s')">> >>,
       << <<"class ", "@M", ":">>, <<"    y = [1,">>, <<"         2]">> >> >> ]

RECURSIVE SumSeq(_)
SumSeq(s) == IF s = <<>> THEN 0 ELSE Head(s) + SumSeq(Tail(s))
RECURSIVE Flat(_)
Flat(ss) == IF ss = <<>> THEN <<>> ELSE Head(ss) \o Flat(Tail(ss))
\* number of occurrences of the marker word in a template
Markers(tpl) == SumSeq([i \in 1..Len(tpl) |-> Len(SelectSeq(tpl[i], LAMBDA s : s = "@M"))])

\* ------------------------------------------------------------------ field kinds
\* entry : the group of the rendered documentation the field's text belongs to
\* args  : possible arguments ("" = none)
\* hosts : kinds of object whose docstring may carry the field in this model
\* once  : at most one such field per docstring (a second one would redefine the first)
\* var-like kinds (ivar/cvar/var) document an ATTRIBUTE when they stand in a class or module docstring: their text
\* belongs to that attribute's own entry; in a function docstring there is no such entry (row or warning expected).
KR(entry, args, hosts, once) == [entry |-> entry, args |-> args, hosts |-> hosts, once |-> once]
FCM == {"function", "class", "module"}
\* a PROPERTY's docstring is handled apart (astbuilder._handlePropertyDef): a "return" field of a docstring that has no
\* description BECOMES the description; with a description it is an ordinary field
FCMP == FCM \cup {"property"}
\* an ATTRIBUTE's own docstring (the string below the assignment): its "type" field (no argument) gives the type that is
\* shown in the attribute's header, before the docstring itself is rendered
FCMPA == FCMP \cup {"attribute"}
KindTable ==
  ( "param"      :> KR("param",   {"pa", "pb"},        {"function", "class"}, "") @@
    "arg"        :> KR("param",   {"pb"},              {"function", "class"}, "") @@
    "keyword"    :> KR("param",   {"kx"},              {"function", "class"}, "") @@
    "type"       :> KR("param",   {"pa", "pb", ""},    {"function", "attribute"}, "type") @@
    "return"     :> KR("return",  {""},                {"function", "property"}, "return") @@
    "returns"    :> KR("return",  {""},                {"function", "property"}, "return") @@
    "rtype"      :> KR("return",  {""},                {"function", "property"}, "rtype") @@
    "returntype" :> KR("return",  {""},                {"function", "property"}, "rtype") @@
    "yield"      :> KR("yield",   {""},                {"function"},          "yield") @@
    "yields"     :> KR("yield",   {""},                {"function"},          "yield") @@
    "ytype"      :> KR("yield",   {""},                {"function"},          "ytype") @@
    "yieldtype"  :> KR("yield",   {""},                {"function"},          "ytype") @@
    "raise"      :> KR("raise",   {"ValueError"},      {"function", "class"}, "") @@
    "raises"     :> KR("raise",   {"KeyError"},        {"function", "class"}, "") @@
    "except"     :> KR("raise",   {"OSError"},         {"function", "class"}, "") @@
    "warn"       :> KR("warn",    {"", "UserWarning"}, {"function", "class"}, "") @@
    "warns"      :> KR("warn",    {"UserWarning"},     {"function", "class"}, "") @@
    "see"        :> KR("see",     {""},                FCMPA,                   "") @@
    "seealso"    :> KR("see",     {""},                FCMPA,                   "") @@
    "note"       :> KR("note",    {""},                FCMPA,                   "") @@
    "author"     :> KR("author",  {""},                FCMPA,                   "") @@
    "since"      :> KR("since",   {""},                FCMPA,                   "") @@
    "custom"     :> KR("unknown", {"", "ca"},          FCMPA,                   "") @@
    "ivar"       :> KR("attr",    {"xa"},              {"class", "function"}, "") @@
    "cvar"       :> KR("attr",    {"xb"},              {"class", "function"}, "") @@
    "var"        :> KR("attr",    {"xc"},              {"module", "class", "function"}, "") )
\* reStructuredText CONSOLIDATED fields (restructuredtext.py CONSOLIDATED_FIELDS): one field ":Parameters:" whose body is
\* a single list with one entry per documented name; pydoctor splits it into individual fields of the entry kind.
\*   form "cbullet": bullet list,      - `name`: description (any blocks, indented under the item)
\*   form "cdef"   : definition list,  name <newline> indented description (only the kinds in ConsDefKinds)
\* Consecutive fields of the same kind and form are entries of ONE consolidated field.  The oracle does not change:
\* every entry is a field of its kind and argument.
ConsTag == ( "param" :> "Parameters" @@ "arg" :> "Arguments" @@ "keyword" :> "Keywords" @@ "type" :> "Types" @@
             "except" :> "Exceptions" @@ "var" :> "Variables" @@ "ivar" :> "IVariables" @@ "cvar" :> "CVariables" )
ConsDefKinds == {"param", "arg", "keyword", "var", "ivar", "cvar"}
\* numpy-style "See Also" section (napoleon NumpyDocstring._parse_numpydoc_see_also_section): a reference list read line
\* by line; form "nsee" = one item of such a section.  Consecutive nsee fields are the items of ONE section; an item is its
\* paragraph only (no further blocks).  The item styles are always a free choice: every sequence of item shapes occurs.
FormsOf(kind) == {"plain"} \cup (IF kind \in DOMAIN ConsTag THEN {"cbullet"} ELSE {})
                          \cup (IF kind \in ConsDefKinds THEN {"cdef"} ELSE {})
                          \cup (IF kind \in {"see", "seealso"} THEN {"nsee"} ELSE {})
VarLike == {"ivar", "cvar", "var"}
TypeLike == {"type", "rtype", "returntype", "ytype", "yieldtype"}

VARIABLES doc,      \* the document built so far
          lists,    \* open lists, innermost last: [lt, n]
          sect,     \* depth of the current section (0 = none)
          nf,       \* number of fields started (= current region)
          nact,     \* builder actions used
          nw,       \* words used
          last,     \* what the last node of the innermost open container is: "none" | "para" | "verb" | "head";
                    \* "sealed" = the current field takes no further blocks (See Also item)
          hosts,    \* kinds of object that may still carry this docstring
          once      \* `once` classes already used
vars == <<doc, lists, sect, nf, nact, nw, last, hosts, once>>

Init == /\ doc = <<>> /\ lists = <<>> /\ sect = 0 /\ nf = 0 /\ nact = 0 /\ nw = 0
        /\ last = "none" /\ hosts = FCMPA /\ once = {}

Depth == Len(lists)
Pop(k) == SubSeq(lists, 1, Depth - k)
Rot(n) == (nw % n) + 1
StyleChoice == IF FreeChoice THEN {Styles[i] : i \in 1..Len(Styles)} ELSE {Styles[Rot(Len(Styles))]}
VarChoice(kind) == IF FreeChoice THEN 1..Len(Templates[kind]) ELSE {Rot(Len(Templates[kind]))}
WordsFrom(k) == [i \in 1..k |-> nw + i]

Para(lv, st) == [t |-> "para", reg |-> nf, lv |-> lv, style |-> st, w |-> WordsFrom(StyleWords[st])]
Step(n) == /\ nact < MaxActions /\ nact' = nact + 1 /\ nw' = nw + n

\* ---- AddPara: a further paragraph in the container reached after closing `up` lists
AddPara(up, st) ==
    /\ "para" \in Blocks /\ last # "sealed"
    /\ Step(StyleWords[st])
    /\ doc' = Append(doc, Para(Depth - up, st))
    /\ lists' = Pop(up) /\ last' = "para"
    /\ UNCHANGED <<sect, nf, hosts, once>>

\* ---- OpenList + its first AddItem (an empty list is not a document); a list never directly follows a list
\*      that was just closed in the same container (the two could not be told apart in any markup): up = 0
OpenList(lt, st) ==
    /\ "list" \in Blocks /\ Depth < MaxDepth /\ last # "sealed"
    /\ Step(StyleWords[st])
    /\ doc' = doc \o << [t |-> "item", reg |-> nf, lv |-> Depth + 1, lt |-> lt, n |-> 1],
                        Para(Depth + 1, st) >>
    /\ lists' = Append(lists, [lt |-> lt, n |-> 1]) /\ last' = "para"
    /\ UNCHANGED <<sect, nf, hosts, once>>

\* ---- AddItem: next item of the list that is innermost after closing `up` lists
AddItem(up, st) ==
    /\ "list" \in Blocks /\ Depth >= 1 /\ up <= Depth - 1
    /\ Step(StyleWords[st])
    /\ LET d == Depth - up
           l == lists[d]
       IN /\ doc' = doc \o << [t |-> "item", reg |-> nf, lv |-> d, lt |-> l.lt, n |-> l.n + 1],
                              Para(d, st) >>
          /\ lists' = [Pop(up) EXCEPT ![d] = [l EXCEPT !.n = @ + 1]]
    /\ last' = "para"
    /\ UNCHANGED <<sect, nf, hosts, once>>

Verb(kind, lv, v) == [t |-> kind, reg |-> nf, lv |-> lv, var |-> v, m |-> nw + 1]
\* ---- AddLiteral: introduced by the paragraph directly before it in the same container ("::")
AddLiteral(v) ==
    /\ "lit" \in Blocks /\ last = "para"
    /\ Step(1)
    /\ doc' = Append(doc, Verb("lit", Depth, v))
    /\ last' = "verb"
    /\ UNCHANGED <<lists, sect, nf, hosts, once>>
AddDoctest(up, v) ==
    /\ "doctest" \in Blocks /\ last # "sealed"
    /\ Step(1)
    /\ doc' = Append(doc, Verb("doctest", Depth - up, v))
    /\ lists' = Pop(up) /\ last' = "verb"
    /\ UNCHANGED <<sect, nf, hosts, once>>
AddCode(up, v) ==
    /\ "code" \in Blocks /\ last # "sealed"
    /\ Step(1)
    /\ doc' = Append(doc, Verb("code", Depth - up, v))
    /\ lists' = Pop(up) /\ last' = "verb"
    /\ UNCHANGED <<sect, nf, hosts, once>>

\* ---- AddVersion: a versionadded / versionchanged / deprecated directive (reST; also inside google / numpy text)
\*   var 1: explanation on the directive line (2 words)
\*   var 2: explanation on the directive line (2 words), then, after a blank line, two more paragraphs (2 + 1 words)
\*   var 3: no inline explanation, one body paragraph (2 words)
VersionDirs == <<"versionadded", "versionchanged", "deprecated">>
VersionWords == <<2, 5, 2>>
AddVersion(up, var) ==
    /\ "version" \in Blocks /\ last # "sealed"
    /\ Step(VersionWords[var])
    /\ doc' = Append(doc, [t |-> "version", reg |-> nf, lv |-> Depth - up, dir |-> VersionDirs[Rot(3)], var |-> var,
                           w |-> WordsFrom(VersionWords[var])])
    /\ lists' = Pop(up) /\ last' = "verb"
    /\ UNCHANGED <<sect, nf, hosts, once>>

\* ---- AddPoison: a block that parses but cannot be turned into HTML (epytext: a form feed between two words; reST:
\*      ".. raw:: html" with HTML that is not XML).  to_stan() fails at render time and pydoctor falls back on showing the
\*      docstring as plain text.  At most one per document, at the top level of the description - or of the body of an
\*      ivar / cvar / var field of a class / module docstring, which IS the description of the documented variable (a
\*      faulty body of any other field is shown as "Broken description" and reported: C08's subject).
HasPoison == \E i \in 1..Len(doc) : doc[i].t = "poison"
InAttrField == nf > 0 /\ hosts \subseteq {"class", "module"}
               /\ \E i \in 1..Len(doc) : doc[i].t = "field" /\ doc[i].reg = nf /\ doc[i].kind \in {"ivar", "cvar", "var"}
                                          /\ doc[i].form = "plain" /\ doc[i].iw = 0
AddPoison ==
    /\ "poison" \in Blocks /\ last # "sealed" /\ ~HasPoison /\ (nf = 0 \/ InAttrField)
    /\ Step(2)
    /\ doc' = Append(doc, [t |-> "poison", reg |-> nf, lv |-> 0, w |-> WordsFrom(2)])
    /\ lists' = <<>> /\ last' = "verb"
    /\ UNCHANGED <<sect, nf, hosts, once>>

\* ---- OpenSection: description only, top level only (closes every list), levels nest properly
OpenSection(level) ==
    /\ "section" \in Blocks /\ nf = 0 /\ level \in 1..2 /\ level <= sect + 1
    /\ Step(2)
    /\ doc' = Append(doc, [t |-> "head", reg |-> 0, lv |-> 0, level |-> level, w |-> WordsFrom(2)])
    /\ lists' = <<>> /\ sect' = level /\ last' = "head"
    /\ UNCHANGED <<nf, hosts, once>>

\* ---- AddField(kind, arg, host, style, form): fields come last, each starts with a paragraph (a type is one word)
HostChoice(kind) == LET hs == hosts \cap KindTable[kind].hosts
                    IN IF kind \in VarLike \cup {"return", "returns", "type", "rtype", "returntype"} THEN {{x} : x \in hs}
                       ELSE IF hs = {} THEN {} ELSE {hs}
\* inl: the variable that an ivar / cvar / var field of a class / module docstring documents ALSO has a docstring of its own
\* below its assignment (one fresh word, iw); pydoctor presents the field's text, so that docstring must be reported
InlineChoice(kind, arg, h) ==
    {FALSE} \cup (IF kind \in VarLike /\ h \subseteq {"class", "module"}
                      /\ ~\E i \in 1..Len(doc) : doc[i].t = "field" /\ doc[i].kind = kind /\ doc[i].arg = arg
                   THEN {TRUE} ELSE {})
\* one type per parameter name, one return / rtype / yield / ytype per docstring
OnceKey(kind, arg) == IF kind = "type" THEN (IF arg = "pb" THEN "type-pb" ELSE "type") ELSE KindTable[kind].once
AddField(kind, arg, h, st, form, inl) ==
    /\ nf < MaxFields
    /\ OnceKey(kind, arg) \notin once
    /\ (kind = "type" => ((arg = "") <=> (h = {"attribute"})))      \* "@type: T" in an attribute's own docstring
    /\ (form \in {"cbullet", "cdef"} => arg # "")                    \* an entry of a consolidated field names something
    /\ Step(StyleWords[st] + (IF inl THEN 1 ELSE 0))
    /\ doc' = doc \o << [t |-> "field", reg |-> nf + 1, lv |-> 0, kind |-> kind, arg |-> arg, form |-> form,
                         iw |-> IF inl THEN nw + StyleWords[st] + 1 ELSE 0,
                         ctag |-> IF form = "plain" THEN "" ELSE IF form = "nsee" THEN "See Also" ELSE ConsTag[kind]],
                        [Para(0, st) EXCEPT !.reg = nf + 1] >>
    /\ nf' = nf + 1 /\ lists' = <<>> /\ last' = (IF form = "nsee" THEN "sealed" ELSE "para") /\ hosts' = h
    /\ once' = IF OnceKey(kind, arg) = "" THEN once ELSE once \cup {OnceKey(kind, arg)}
    /\ UNCHANGED sect

Next == \/ \E up \in 0..Depth, st \in StyleChoice : AddPara(up, st) \/ AddItem(up, st)
        \/ \E lt \in {"u", "o"}, st \in StyleChoice : OpenList(lt, st)
        \/ \E v \in VarChoice("lit") : AddLiteral(v)
        \/ \E up \in 0..Depth : \/ \E v \in VarChoice("doctest") : AddDoctest(up, v)
                                 \/ \E c \in VarChoice("code") : AddCode(up, c)
        \/ \E level \in 1..2 : OpenSection(level)
        \/ \E up \in 0..Depth, var \in 1..3 : AddVersion(up, var)
        \/ AddPoison
        \/ \E kind \in Kinds : \E arg \in KindTable[kind].args : \E h \in HostChoice(kind) :
               \E form \in FormsOf(kind) \cap Forms :
                 \E st \in (IF form = "nsee" THEN SeeStyles ELSE IF kind \in TypeLike THEN TypeStyles ELSE StyleChoice) :
                   \E inl \in InlineChoice(kind, arg, h) : AddField(kind, arg, h, st, form, inl)
Spec == Init /\ [][Next]_vars

\* ================================================================== the oracle (property C09)
Host == IF "function" \in hosts THEN "function" ELSE IF "class" \in hosts THEN "class"
        ELSE IF "module" \in hosts THEN "module" ELSE IF "property" \in hosts THEN "property" ELSE "attribute"
IsVerb(n) == n.t \in {"lit", "doctest", "code"}
NodeWords(n) == IF n.t \in {"para", "head", "version", "poison"} THEN n.w
                ELSE IF IsVerb(n) THEN [i \in 1..Markers(Templates[n.t][n.var]) |-> n.m]
                ELSE <<>>
\* visible word stream of one region, in source order
RegionWords(d, r) == Flat([i \in 1..Len(d) |-> IF d[i].reg = r THEN NodeWords(d[i]) ELSE <<>>])
\* verbatim blocks of one region, in source order: exact lines (segments; "@M" = word m)
RegionVerb(d, r) == LET idx == SelectSeq([i \in 1..Len(d) |-> i], LAMBDA i : d[i].reg = r /\ IsVerb(d[i]))
                    IN [j \in 1..Len(idx) |-> [kind |-> d[idx[j]].t, m |-> d[idx[j]].m,
                                               lines |-> Templates[d[idx[j]].t][d[idx[j]].var]]]
Text(d) == RegionWords(d, 0)
Verbatim(d) == RegionVerb(d, 0)
FieldNodes(d) == SelectSeq(d, LAMBDA n : n.t = "field")
Fields(d) == [k \in 1..Len(FieldNodes(d)) |->
                LET f == FieldNodes(d)[k] IN
                [kind |-> f.kind, arg |-> f.arg, entry |-> KindTable[f.kind].entry,
                 \* where the text must show: in a row of the object's own field table, or in the entry of the
                 \* attribute that the field documents
                 where |-> IF f.kind \in VarLike /\ Host \in {"class", "module"} THEN "attribute"
                           ELSE IF Host = "property" /\ f.kind = "return" /\ Text(d) = <<>> THEN "description"
                           ELSE IF Host = "attribute" /\ f.kind = "type" THEN "typeline"
                           \* a property's rtype is its type, shown in the header like an attribute's (_handlePropertyDef)
                           ELSE IF Host = "property" /\ f.kind = "rtype" THEN "typeline"
                           ELSE "row",
                 \* word of the documented variable's own docstring (0 = it has none): shown with the variable or reported
                 inline |-> f.iw,
                 words |-> RegionWords(d, k), verb |-> RegionVerb(d, k)]]

\* sanity of the generator itself (design level): every word 1..nw is expected exactly once somewhere,
\* except marker words, which occur as often as their template says; streams are increasing (= source order)
RECURSIVE NonDecreasing(_)
NonDecreasing(s) == Len(s) < 2 \/ (s[1] <= s[2] /\ NonDecreasing(Tail(s)))
AllWords == Flat([r \in 1..(nf + 1) |-> RegionWords(doc, r - 1)])
OracleSane == /\ NonDecreasing(AllWords)
              /\ ({AllWords[i] : i \in 1..Len(AllWords)}
                     \cup ({doc[i].iw : i \in {j \in 1..Len(doc) : doc[j].t = "field"}} \ {0})) = 1..nw
              /\ Len(Fields(doc)) = nf

\* ------------------------------------------------------------------ emission (spec -> code)
ASSUME PrintT(ToJson([templates |-> Templates]))
\* HISTORIES.  The same document reaches the rendered object in one of several ways; what must be shown does not change:
\*   direct    : it is the object's own docstring
\*   assigned  : the object (class, property, function) has some OTHER, stale docstring of its own - parsed while the AST
\*               is built for classes and properties - and gets this one later through  X.__doc__ = "..."  : the words of
\*               the FINAL docstring are shown, none of the stale one (fields that create attributes are only extracted
\*               from the docstring present when the class is visited: not combined with this history)
\*   inherited : it is the docstring of the method that the rendered method overrides; the rendered one has none
\*   narrowed  : inherited, and the overriding method takes fewer parameters: def f(self, pa) - fields about pb, *va, **kw
\*               name parameters the rendered signature lacks (their text is still the documentation of the method)
\*   twin      : the object is the SECOND of two members of one class (two methods, two properties) that carry the same
\*               docstring text; the first one is built and rendered before it
\*   moved     : the docstring belongs to a method of a class written in a module that declares __docformat__ = <format>,
\*               re-exported (from ._impl import C; __all__ = ['C']) by a package of a system whose default docformat is
\*               ANOTHER one: the class is moved before its members' docstrings are parsed
\*   afterprop : direct, in a system that has ALREADY parsed the docstring of a property (which google / numpy read in
\*               "attribute mode": "type: description") - whatever was analysed first must not change how this one is read
ValidHow(hw) == \/ hw = "direct"
                \/ hw \in {"narrowed", "moved", "afterprop"} /\ Host = "function"
                \/ hw = "twin" /\ Host \in {"function", "property"}
                \/ hw = "assigned" /\ Host \in {"class", "property", "function"}
                                   /\ \A k \in 1..Len(Fields(doc)) : Fields(doc)[k].where # "attribute"
                \/ hw = "inherited" /\ Host = "function"
\* where the render-time fault sits: -1 none, 0 the description, k the body of field k (then that field documents an attribute)
FaultReg == IF HasPoison THEN (CHOOSE i \in 1..Len(doc) : doc[i].t = "poison") ELSE 0
Fault == IF HasPoison THEN doc[FaultReg].reg ELSE -1
Emit == nact > 0 => \A hw \in {x \in Hows : ValidHow(x)} :
                      PrintT(ToJson([doc |-> doc, host |-> Host, how |-> hw, nw |-> nw, text |-> Text(doc), fault |-> Fault,
                                     all |-> AllWords, verbatim |-> Verbatim(doc), fields |-> Fields(doc)]))
=============================================================================
