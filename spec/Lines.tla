------------------------------- MODULE Lines -------------------------------
(***************************************************************************)
(* C16, first half: the physical line pydoctor prints for a documentation  *)
(* problem.                                                                *)
(*                                                                         *)
(* A *layout* fixes one generated module: what kind of object carries the  *)
(* docstring, how the string literal is laid out (text on the line of the  *)
(* opening quotes or below, leading blank lines, indentation, raw prefix), *)
(* how many lines precede the definition (k), the docformat, and ONE       *)
(* planted problem (kind and position inside a fixed docstring template).  *)
(*                                                                         *)
(*   geometry        where things ARE in the file (ground truth; the       *)
(*                   harness renders the file from the same numbers and    *)
(*                   cross-checks them against its own rendering)          *)
(*   Acceptable(l)   the property: the set of lines the statement allows   *)
(*   ReportedLine(l) transcription of pydoctor's arithmetic                *)
(*                     astutils.extract_docstring_linenum  (astutils.py:414-445)  *)
(*                     Documentable.setDocstring           (model.py:167-170)     *)
(*                     Documentable.report                 (model.py:390-417)     *)
(*                     epydoc2stan.reportErrors            (epydoc2stan.py:567-581) *)
(*                     epydoc2stan.Field.report            (epydoc2stan.py:201-202) *)
(*                     markup.ParseError.linenum           (markup/__init__.py:352-376) *)
(*                   on top of the parsers' own line attribution (ParserLine, an *)
(*                   environment model bound by the conformance run)       *)
(*                                                                         *)
(* Source = "enum": layouts are the initial states, Emit prints one record *)
(* per layout (spec -> code).  Source = "file": the records observed from  *)
(* real runs (layout + printed line) are the initial states and TLC judges *)
(* them (code -> spec); ShiftPost is the k-shift hyper-property over the   *)
(* whole observation file.                                                 *)
(***************************************************************************)
EXTENDS Naturals, Integers, Sequences, FiniteSets, TLC, Json, IOUtils

CONSTANTS Source,      \* "enum" | "file"
          Kinds, Fmts, Ks, Indents, BlankCounts, Seps,   \* enumeration bounds (cfg); Seps: subset of {"none", "ls", "nel"}
          InlineMovesOrigin,   \* TRUE while the tree has the deviation (known finding ivar-inline-docstring-line): see ReportedLine
          LeadingWsKept,       \* TRUE while the tree has the deviation (known finding leading-ws-line-shift): see CleanLead
          RstLineNotConverted  \* TRUE while the tree has the deviation (known finding rst-markup-line-off-by-one); FALSE once
                               \* proposed_fixes/C16-rst-markup-line-off-by-one.diff is applied, so that model drift stays 0

AllKinds == {"module", "class", "function", "method", "attribute"}
AllFmts  == {"epytext", "restructuredtext", "google", "numpy"}
Probs    == {"xref", "markup", "unkfield", "param", "tfield", "vfield", "consbad", "ambig", "btype", "btype2"}
\* btype / btype2: a MALFORMED TYPE (unbalanced parenthesis, "T(T") in the Returns section of a google / numpy docstring; napoleon
\* tokenises the type of every entry (GoogleDocstring._convert_type -> TypeDocstring) and hands each warning on with the line of
\* the entry.  btype2: a second entry (numpy: second returned value; google: the Yields section) carries THE SAME SPELLING of the
\* type: two problems, two reports
BType(l) == l.prob \in {"btype", "btype2"}
Rep(l)   == IF l.prob = "btype2" THEN 2 ELSE IF l.prob = "btype" THEN 1 ELSE 0
Poss     == {"p1", "p2l2", "item", "field", "own"}

\* ------------------------------------------------------------------ layouts
WellFormed(l) ==
    /\ (l.open => l.blanks = 0)                                   \* text on the opening line: nothing to skip
    /\ (l.prob \in {"xref", "markup", "ambig"} <=> l.pos # "own")         \* field problems are their own construct
    \* ambig: a reference to a name that no scope of the object binds but TWO modules of the package define: the linker says so
    \* ("ambiguous ref to twin, could be ..", linker.look_for_name, twice) and then gives up ("Cannot find link target"): three
    \* messages, all about the same place in the same docstring
    /\ (l.prob = "ambig" => ~l.raw /\ l.k = 0 /\ l.blanks = 0 /\ l.indent = 0 /\ ~l.longws /\ l.lead = "none" /\ l.sep = "none" /\ ~l.tight)
    /\ (l.prob = "param" => l.kind \in {"function", "method", "class"})
    /\ (BType(l) => l.fmt \in {"google", "numpy"} /\ l.kind \in {"function", "method"} /\ ~l.raw /\ ~l.longws /\ l.sep = "none")
    \* typed: the Args / Parameters section documents three parameters with their types (napoleon writes a :type: line for each)
    /\ (l.typed => l.fmt \in {"google", "numpy"} /\ l.prob = "param" /\ ~l.raw /\ l.k = 0)
    \* longws: the (only) leading blank line carries MORE white space than the docstring's indentation
    /\ (l.longws => ~l.open /\ l.blanks = 1 /\ ~l.raw /\ l.k = 0)
    \* lead = "title": the docstring opens with a section title (title, underline, blank line), so that its first paragraph -
    \* the one the summary is made of - is NOT on the first line of the docstring
    /\ (l.lead = "title" => l.pos = "p1" /\ ~l.raw /\ l.k = 0 /\ ~l.longws /\ ~l.typed)
    \* sep: a character that str.splitlines() treats as a line boundary but Python's tokenizer does not (LINE SEPARATOR U+2028,
    \* NEXT LINE U+0085; both are legal XML characters, unlike form feed) stands in the MIDDLE of the second line of the docstring, before the construct at fault.  It is no line
    \* end: nothing moves (no term for it in Mark or ReportedLine)
    /\ (l.sep # "none" => l.pos # "p1" /\ ~l.raw /\ l.k = 0 /\ l.blanks = 0 /\ l.indent = 0 /\ ~l.longws /\ ~l.typed /\ l.lead = "none" /\ ~l.tight)
    \* cons: reST CONSOLIDATED field, definition-list form (":Parameters:" / "    name" / "        description"): every item is a
    \* field of its own, located by the line of its term (restructuredtext.py handle_consolidated_definition_list)
    /\ (l.cons => l.fmt = "restructuredtext" /\ l.prob = "param" /\ ~l.raw /\ l.k = 0 /\ ~l.longws /\ l.lead = "none" /\ l.sep = "none")
    \* vfield: an unresolvable link in the body of the "ivar" / "var" field that documents the attribute y of the class / module.
    \* ann: the class / module also has a callable with ANNOTATIONS (def alpha(x: int) -> str), rendered before the attribute
    \* through the annotation linker, which switches the context of the scope's own linker and back
    /\ (l.prob = "vfield" => l.fmt \in {"epytext", "restructuredtext"} /\ l.kind \in {"class", "module"} /\ ~l.raw /\ l.k = 0
                              /\ ~l.longws /\ l.lead = "none" /\ l.sep = "none" /\ ~l.cons)
    /\ (l.ann => l.prob = "vfield")
    \* inl: the attribute documented by the ivar field ALSO has a docstring of its own after its assignment; pydoctor keeps
    \* the field, says so ("Docstring ignored: ..", at the line of that string) - one more message, about that line
    /\ (l.inl => l.prob = "vfield" /\ ~l.ann)
    \* pt: the layout is run with --process-types (type fields only: the type text is then a bare name, else a link)
    /\ (l.pt => l.prob = "tfield")
    \* consbad: a reST consolidated field that is neither a bullet list nor a definition list (":Parameters: a b c"): the
    \* markup problem "Unable to split consolidated field" (restructuredtext.py visit_field)
    /\ (l.prob = "consbad" => l.fmt = "restructuredtext" /\ ~l.raw /\ l.k = 0 /\ ~l.longws /\ l.lead = "none" /\ l.sep = "none" /\ ~l.cons)
    \* tfield: the docstring of a class / module documents an attribute y with an "ivar" field and
    \* gives its type in a "type" field whose text is an unresolvable name
    /\ (l.prob = "tfield" => l.fmt \in {"epytext", "restructuredtext"} /\ l.kind \in {"class", "module"} /\ ~l.raw /\ l.k = 0
                              /\ ~l.longws /\ l.lead = "none" /\ l.sep = "none" /\ ~l.cons)
    \* tight: the closing quotes stand on the last line of text instead of a line of their own
    /\ (l.tight => l.fmt = "google" /\ l.prob = "xref" /\ l.pos = "field" /\ l.kind \in {"module", "attribute"}
                    /\ ~l.raw /\ l.k = 0 /\ ~l.longws /\ l.lead = "none")

Layouts == {l \in [kind : Kinds, fmt : Fmts, prob : Probs, pos : Poss, open : BOOLEAN,
                   blanks : BlankCounts, indent : Indents, raw : BOOLEAN, k : Ks, typed : BOOLEAN, longws : BOOLEAN,
                   lead : {"none", "title"}, tight : BOOLEAN, sep : Seps, cons : BOOLEAN, pt : BOOLEAN, ann : BOOLEAN, inl : BOOLEAN] : WellFormed(l)}

\* OBS_FILE: {"obs": [[id, lay, lines] ...], "groups": [[index into obs ...] ...]}  (groups: same layout up to k)
ObsFile  == IF Source = "file" THEN JsonDeserialize(IOEnv.OBS_FILE) ELSE [obs |-> <<>>, groups |-> <<>>]
Observed == ObsFile.obs
Groups   == ObsFile.groups

VARIABLES lay, obs     \* obs = 0 in enum mode, else the index into Observed
vars == <<lay, obs>>

Init == \/ Source = "enum" /\ lay \in Layouts /\ obs = 0
        \/ Source = "file" /\ obs \in 1..Len(Observed) /\ lay = Observed[obs].lay
Next == FALSE /\ UNCHANGED vars      \* no transitions: every layout / observation is judged in its initial state
Spec == Init /\ [][Next]_vars

\* ------------------------------------------------------------------ geometry of the generated file
\* wrapper classes around the object (class W0: / """Wrapper.""" : two lines each)
Depth(l) == CASE l.kind \in {"module", "function"} -> 0
              [] l.kind \in {"class", "attribute"}  -> l.indent
              [] l.kind = "method"                  -> l.indent + 1
\* line of the opening quotes = ast lineno of the string constant (Python >= 3.8: start of the token)
QuoteLine(l) == IF l.kind = "module" THEN l.k + 1                  \* k comment lines, then the docstring
                ELSE 1 + l.k + 2 * Depth(l) + 1 + 1                 \* module docstring, k blank lines, wrappers, def/class/assign line
\* line of the def / class / assignment (Documentable.linenumber); module: 0 (never set for modules)
ObjLine(l) == IF l.kind = "module" THEN 0 ELSE QuoteLine(l) - 1
\* ground truth: physical line of the first non-blank line of the docstring
TextLine0(l) == IF l.open THEN QuoteLine(l) ELSE QuoteLine(l) + 1 + l.blanks

\* the docstring template (0-based line indexes inside the cleaned docstring):
\*   0-1 first paragraph, 3-4 second paragraph, 6-7 list item, then the format's own field area
HasArgs(l) == l.kind \in {"function", "method", "class"}
\* [first |-> first line of the construct holding the problem, at |-> line of the problem itself]
Mark0(l) ==
  CASE l.pos = "p1"   -> [first |-> 0, at |-> 0]
    [] l.pos = "p2l2" -> [first |-> 3, at |-> 4]
    [] l.pos = "item" -> [first |-> 6, at |-> 7]
    [] l.pos = "field" -> (CASE l.fmt \in {"epytext", "restructuredtext"} -> [first |-> 9, at |-> 10]   \* @note: / :note:
                             [] l.fmt = "google" -> [first |-> 9, at |-> 11]                              \* Note: / body / body
                             [] l.fmt = "numpy"  -> [first |-> 9, at |-> 12])                             \* Note / ---- / body / body
    [] l.pos = "own" ->
         (CASE l.prob = "tfield" -> [first |-> 12, at |-> 12]     \* :note: (9-10)  ivar y (11)  type y (12)
            [] l.prob = "consbad" -> [first |-> 11, at |-> 11]   \* :note: (9-10)  :Parameters: a b c (11)
            [] l.prob = "vfield" -> [first |-> 11, at |-> 11]     \* :note: (9-10)  ivar y (11): the link is in its body
            [] l.cons -> [first |-> 14, at |-> 14]                \* :note: (9-10)  :Parameters:  a  the arg  nosuch  text
            [] l.fmt \in {"epytext", "restructuredtext"} -> [first |-> 11, at |-> 11]
            [] l.fmt = "google" /\ BType(l) -> [first |-> 17, at |-> 17]     \* Note(9-11) blank Args: a blank Returns: entry [blank Yields: entry]
            [] l.fmt = "numpy"  /\ BType(l) -> [first |-> 21, at |-> 21]     \* Note(9-12) blank Parameters ---- a desc blank Returns ---- entry desc [entry desc]
            [] l.fmt \in {"google", "numpy"} /\ l.prob = "unkfield" -> [first |-> 9, at |-> 9]  \* ':unknownfield: text' + blank before Note
            [] l.fmt = "google" /\ l.prob = "param" /\ ~l.typed -> [first |-> 15, at |-> 15]   \* Note(9-11) blank Args: a nosuch
            [] l.fmt = "numpy"  /\ l.prob = "param" /\ ~l.typed -> [first |-> 18, at |-> 18]   \* Note(9-12) blank Parameters ---- a desc nosuch
            [] l.fmt = "google" /\ l.prob = "param" /\ l.typed  -> [first |-> 17, at |-> 17]   \* ... Args: a b c nosuch
            [] l.fmt = "numpy"  /\ l.prob = "param" /\ l.typed  -> [first |-> 22, at |-> 22])  \* ... Parameters ---- a d b d c d nosuch
LeadLen(l) == IF l.lead = "title" THEN 3 ELSE 0
Mark(l) == [first |-> Mark0(l).first + LeadLen(l), at |-> Mark0(l).at + LeadLen(l)]
\* number of lines of the cleaned docstring
DocLen0(l) ==
  LET shift == IF l.prob = "unkfield" /\ l.fmt \in {"google", "numpy"} THEN 2 ELSE 0 IN
  CASE l.cons -> 16
    [] l.prob = "tfield" -> 13
    [] l.prob = "vfield" -> 12
    [] l.prob = "consbad" -> 12
    [] l.fmt \in {"epytext", "restructuredtext"} -> IF l.pos = "own" THEN 12 ELSE 11
    [] l.fmt = "google" /\ BType(l) -> 18 + 3 * (Rep(l) - 1)
    [] l.fmt = "numpy"  /\ BType(l) -> 23 + 2 * (Rep(l) - 1)
    [] l.fmt = "google" -> shift + 12 + (IF l.typed THEN 6 ELSE IF HasArgs(l) THEN 3 + (IF l.prob = "param" THEN 1 ELSE 0) ELSE 0)
    [] l.fmt = "numpy"  -> shift + 13 + (IF l.typed THEN 11 ELSE IF HasArgs(l) THEN 5 + (IF l.prob = "param" THEN 2 ELSE 0) ELSE 0)
DocLen(l) == LeadLen(l) + DocLen0(l)
CloseLine(l) == TextLine0(l) + DocLen(l) - (IF l.tight THEN 1 ELSE 0)       \* the line of the closing quotes

FirstLine(l) == TextLine0(l) + Mark(l).first
AtLine(l)    == TextLine0(l) + Mark(l).at

\* ------------------------------------------------------------------ the property (written from the statement)
\* epytext / reStructuredText: the first line of the paragraph, list item or field containing the problem.
\* Reading (notes/C16.md): a report that is *more* precise - any line from the first line of the construct down
\* to the line of the problem itself - still "points at the right place"; nothing outside that range does.
\* google / numpy (converted before parsing): some line of that docstring.
\* (inl) the attribute's own docstring: "y = 1" follows the closing quotes, the string follows it
InlineLine(l) == IF l.inl THEN CloseLine(l) + 2 ELSE 0
Acceptable(l) == (IF l.fmt \in {"epytext", "restructuredtext"} THEN FirstLine(l)..AtLine(l)
                  ELSE QuoteLine(l)..CloseLine(l)) \cup (IF l.inl THEN {InlineLine(l)} ELSE {})

\* ------------------------------------------------------------------ what pydoctor computes
\* value of the string constant up to its first non-blank character, as character classes
\*   "nl" newline, "sp" other white space, "ch" anything else
Spaces(n) == [i \in 1..n |-> "sp"]
BodyIndent(l) == 4 * (IF l.kind = "module" THEN 0 ELSE Depth(l) + (IF l.kind = "attribute" THEN 0 ELSE 1))
                 + (IF l.kind \in {"module", "function"} THEN 2 * l.indent ELSE 0)
\* the harness writes the LAST leading blank line with the body indentation on it (white space only; longws: four more), the others empty
Prefix(l) == IF l.open THEN <<"ch">>
             ELSE <<"nl">>
                  \o (IF l.blanks >= 2 THEN <<"nl">> ELSE <<>>)
                  \o (IF l.blanks >= 1 THEN Spaces(BodyIndent(l) + (IF l.longws THEN 4 ELSE 0)) \o <<"nl">> ELSE <<>>)
                  \o Spaces(BodyIndent(l)) \o <<"ch">>
\* astutils.py:439-443   for ch in doc: if ch == '\n': lineno += 1 / elif not ch.isspace(): break
RECURSIVE Scan(_, _, _)
Scan(s, i, n) == IF i > Len(s) THEN n
                 ELSE IF s[i] = "nl" THEN Scan(s, i + 1, n + 1)
                 ELSE IF s[i] = "sp" THEN Scan(s, i + 1, n)
                 ELSE n
\* astutils.py:429 lineno = node.lineno (start of the token on this Python), then the loop; model.py:170
DocstringLine(l) == Scan(Prefix(l), 1, QuoteLine(l))
\* astutils.py:461 inspect.cleandoc(value) (Python 3.12): the margin is removed from every line, then leading lines that are
\* EMPTY are dropped.  A white-space-only line longer than the margin is not empty afterwards: it stays as line 0 of the text
\* the parsers see, although extract_docstring_linenum has skipped it as blank               (deviation LeadingWsKept)
CleanLead(l) == IF l.longws /\ LeadingWsKept THEN 1 ELSE 0

\* napoleon rewrites google / numpy sections into reST before parsing.  For this template the rewritten text keeps
\* lines 0..8 and then:   google "Note:/b1/b2"      -> ".. note::" / "" / b1 / b2        (body moves down by 1)
\*                        numpy  "Note/----/b1/b2"  -> ".. note::" / "" / b1 / b2        (body stays)
\*                        google "Args:/a/nosuch"   -> ":param a:" / ":param nosuch:"    (header dropped: +1 - 1 = 0)
\*                        numpy  "Parameters/----/a/desc/nosuch/text" -> ":param a: desc" / ":param nosuch: text"  (0 - 2 - 1 = -3)
\* Conv(l) = [first, at] in the REWRITTEN text: first line of the innermost block holding the problem (for the Note
\* section: the paragraph inside the directive), and the line of the problem.  Environment fact, bound by conformance.
RstFamily(l) == l.fmt \in {"restructuredtext", "google", "numpy"}
Conv(l) == CASE l.fmt = "google" /\ l.pos = "field" -> [first |-> 11, at |-> 12]
             [] l.fmt = "numpy"  /\ l.pos = "field" -> [first |-> 11, at |-> 12]
             [] l.fmt = "numpy"  /\ l.prob = "param" /\ ~l.typed -> [first |-> Mark(l).first - 3, at |-> Mark(l).at - 3]
             \* typed: every "x (T): d" / "x : T / d" becomes ":param x: d" + ":type x: T": the rewritten text grows past the original
             [] l.fmt = "google" /\ l.typed -> [first |-> 20, at |-> 20]
             [] l.fmt = "numpy"  /\ l.typed -> [first |-> 20, at |-> 20]
             \* btype: the warning carries napoleon's line counter AFTER the entry was consumed (docstring.py _consume_field .. lineno =
             \* self._line_iter.counter): google - the line after the entry; numpy - a single returned value is written as :returns: / :rtype:
             \* and located at the blank line before the section, two values are located two lines below their entries.  (first = the first
             \* report, at = the second one, btype2 only.)  Environment fact, bound by conformance.
             [] l.fmt = "google" /\ BType(l) -> [first |-> 18, at |-> 21]
             [] l.fmt = "numpy"  /\ l.prob = "btype"  -> [first |-> 18, at |-> 18]
             [] l.fmt = "numpy"  /\ l.prob = "btype2" -> [first |-> 23, at |-> 25]
             [] OTHER -> Mark(l)
\* which line of the text it parses (0-based) the parser attaches to the problem
\*   epytext : Token.startline of the paragraph / bullet / field, for errors, links and Field.lineno alike
\*   docutils: system_message['line'] and field.line are the 1-BASED first line of the block;
\*             links: docutils.get_lineno = block line + newlines before the reference = the exact line
ParserFirst(l) == Conv(l).first
ParserAt(l)    == Conv(l).at
\* ParseError(descr, linenum) stores linenum and documents it as 0-BASED; .linenum() returns stored + 1
PE_linenum(stored) == stored + 1
\* reportErrors: lineno_offset = (err.linenum() or 1) - 1
ReportErrorsOffset(stored) == (IF PE_linenum(stored) = 0 THEN 1 ELSE PE_linenum(stored)) - 1
\* the number each path hands to Documentable.report as lineno_offset
Offset(l) ==
  CASE l.prob = "markup" /\ l.fmt = "epytext" -> ReportErrorsOffset(ParserFirst(l))          \* epytext.py: StructuringError/ColorizingError(.., token.startline)
    \* restructuredtext.py:187-191  linenum = error.get('line'); ParseError(msg, linenum, ..): the 1-based docutils
    \* line is stored where a 0-based one is expected                                          (deviation RstLineNotConverted)
    [] l.prob = "markup" /\ RstFamily(l)       -> ReportErrorsOffset(ParserFirst(l) + (IF RstLineNotConverted THEN 1 ELSE 0))
    \* restructuredtext.py:~262  ParseError(estr, node.line, is_fatal=False): the 1-based docutils line of the field stored where
    \* a 0-based one is expected: one line too low (deviation; pinned by pydoctor/test/epydoc/restructuredtext.doctest)
    [] l.prob = "consbad"                       -> ReportErrorsOffset(ParserFirst(l) + 1)
    \* markup/_napoleon.py:84-85  ParseError(warn, lineno, is_fatal=False) for every (warn, lineno) of the converter, then reportErrors
    [] BType(l)                                 -> ReportErrorsOffset(ParserFirst(l))
    [] l.prob \in {"xref", "ambig"} /\ l.fmt = "epytext"    -> ParserFirst(l)                               \* epytext.py to_node: lineno attr of the link = startline
    [] l.prob \in {"xref", "ambig"} /\ RstFamily(l)         -> ParserAt(l)                                  \* epydoc/docutils.py:108-146 get_lineno
    \* (vfield: reported against the attribute: docstring_lineno(attribute) = docstring line of the parent + line of the
    \* field (extract_fields), the link sits on the first line of the field body: offset 0 from there)
    [] l.prob \in {"unkfield", "param", "tfield", "vfield"} /\ l.fmt = "epytext" -> ParserFirst(l)                \* Field(.., lineno) ; Field.report
    [] l.prob \in {"unkfield", "param", "tfield", "vfield"} /\ RstFamily(l)      -> (ParserFirst(l) + 1) - 1      \* restructuredtext.py:282 node.line - 1
\* model.py:403-408   linenumber = self.docstring_lineno or self.linenumber ; linenumber += lineno_offset
\* tfield: the unresolvable type is reported a SECOND time when the attribute itself is rendered: against the attribute, whose
\* docstring_lineno is already the line of its ivar field (extract_fields: obj.docstring_lineno + field.lineno), plus the
\* line of the type field counted from the top of the PARENT's docstring (ParsedTypeDocstring(.., lineno=field.lineno)): the
\* offset of the ivar field is added to a line that is not relative to it          (deviation TypeOffsetAddedTwice)
IvarOffset == 11
\* (only under --process-types: without it the type is rendered once, by the attribute, from the cached tree)
SecondLine(l) == IF l.prob = "tfield" /\ l.pt THEN DocstringLine(l) + IvarOffset + Offset(l)
                 ELSE IF l.inl THEN InlineLine(l)            \* astbuilder.py visit_Expr: "Docstring ignored" at value.lineno
                 \* consbad: the field is kept as a "newfield" + a field of that name: two "Unknown field" messages, at the field's line
                 ELSE IF l.prob = "consbad" THEN FirstLine(l)
                 \* ambig: both messages go through Documentable.report(.., 'resolve_identifier_xref', lineno): the same line
                 ELSE IF l.prob = "ambig" THEN (IF DocstringLine(l) # 0 THEN DocstringLine(l) ELSE ObjLine(l)) + Offset(l)
                 \* btype2: the second entry's type is tokenised and reported like the first one
                 ELSE IF l.prob = "btype2" THEN DocstringLine(l) + ReportErrorsOffset(ParserAt(l))
                 ELSE 0
\* (ambig: the name is looked for among the members of every module of the system and among the modules themselves - two
\* "ambiguous ref" messages - before "Cannot find link target")
ExpectedCount(l) == IF BType(l) THEN Rep(l) ELSE IF l.prob \in {"consbad", "ambig"} THEN 3 ELSE IF (l.prob = "tfield" /\ l.pt) \/ l.inl THEN 2 ELSE 1
\* known finding (findings.d/C16.json  type-field-offset-added-twice)
KF_TypeTwice(l, line) == l.prob = "tfield" /\ line = SecondLine(l) /\ line \notin Acceptable(l)
\* The line does not depend on what was asked of the object before: the summary (made of copies of the first paragraph's
\* nodes, SummaryExtractor, markup/__init__.py:420-480) may or may not have been extracted when the body is rendered.
Histories == {"render", "summary;render"}
\* docutils cuts its input with str.splitlines() (statemachine.string2lines): for the reST family every line after such a
\* character is counted one further down than it is in the file                       (deviation DocutilsSplitsOnSep)
SepShift(l) == IF l.sep # "none" /\ RstFamily(l) THEN 1 ELSE 0
\* inl: visit_Expr still calls attr.setDocstring(the ignored string): the attribute's docstring_lineno becomes the line of that
\* string, while what is rendered (and located) is the body of the field                 (deviation InlineMovesOrigin)
\* known finding (findings.d/C16.json  ivar-inline-docstring-line)
KF_InlineOrigin(l, line) == l.inl /\ line = InlineLine(l) + Offset(l) /\ line \notin Acceptable(l)
ReportedLine(l) == IF l.inl /\ InlineMovesOrigin THEN InlineLine(l) + Offset(l)
                   ELSE (IF DocstringLine(l) # 0 THEN DocstringLine(l) ELSE ObjLine(l)) + Offset(l) + CleanLead(l) + SepShift(l)

\* ------------------------------------------------------------------ invariants
\* known finding (findings.d/C16.json  rst-markup-line-off-by-one)
KF_RstLineNotConverted(l, line) == l.fmt = "restructuredtext" /\ l.prob = "markup" /\ line = FirstLine(l) + 1

\* known finding (findings.d/C16.json  leading-ws-line-shift): everything is reported one line too low
KF_LeadingWs(l, line) == l.longws /\ line \notin Acceptable(l) /\ (line - 1) \in Acceptable(l)
\* known finding (findings.d/C16.json  napoleon-line-beyond-docstring): the line counted in the rewritten text lies past the closing quotes
\* (tight: the "Note:" section of the google template becomes ".. note::" + a blank line, one line more than the source)
KF_Napoleon(l, line) == (l.typed \/ l.tight) /\ line > CloseLine(l) /\ line <= CloseLine(l) + 4
\* known finding (findings.d/C16.json  consolidated-field-error-line)
KF_ConsBad(l, line) == l.prob = "consbad" /\ line = FirstLine(l) + 1
\* known finding (findings.d/C16.json  docutils-extra-line-boundaries)
KF_DocutilsSep(l, line) == l.sep # "none" /\ RstFamily(l) /\ line \notin Acceptable(l) /\ (line - 1) \in Acceptable(l)
DocstringLineRight == DocstringLine(lay) = TextLine0(lay)
\* design level (enum) : the transcription satisfies the property, up to the known deviation
ImplAcceptable == Source = "enum" =>
                    (\/ ReportedLine(lay) \in Acceptable(lay) \/ KF_RstLineNotConverted(lay, ReportedLine(lay))
                     \/ KF_LeadingWs(lay, ReportedLine(lay)) \/ KF_Napoleon(lay, ReportedLine(lay))
                     \/ KF_DocutilsSep(lay, ReportedLine(lay)) \/ KF_InlineOrigin(lay, ReportedLine(lay)) \/ KF_ConsBad(lay, ReportedLine(lay)))
ImplSecondAcceptable == Source = "enum" => (SecondLine(lay) = 0 \/ SecondLine(lay) \in Acceptable(lay) \/ KF_TypeTwice(lay, SecondLine(lay)))
ImplAcceptableStrict == Source = "enum" => ReportedLine(lay) \in Acceptable(lay)
ReportedLineH(l, h) == ReportedLine(l)
HistoryIndependent == \A h1, h2 \in Histories : ReportedLineH(lay, h1) = ReportedLineH(lay, h2)
\* moving the definition down by k moves the report by k
ImplShift == Source = "enum" => ReportedLine(lay) - ReportedLine([lay EXCEPT !.k = 0]) = lay.k

\* code -> spec : judged on OBSERVED lines
ObsLines == Observed[obs].lines
ObsOne        == Source = "file" => Len(ObsLines) = ExpectedCount(lay)      \* exactly the planted problem is reported
ObsAllIn      == Len(ObsLines) = ExpectedCount(lay) /\ \A k \in 1..Len(ObsLines) : ObsLines[k] \in Acceptable(lay)
ObsAcceptable == (Source = "file" /\ Len(ObsLines) = ExpectedCount(lay)) => ObsAllIn
ObsAsModel    == /\ Len(ObsLines) = ExpectedCount(lay)
                 /\ {ObsLines[k] : k \in 1..Len(ObsLines)} = {ReportedLine(lay)} \cup (IF SecondLine(lay) > 0 THEN {SecondLine(lay)} ELSE {})
ObsConforms   == Source = "file" => ObsAsModel
ObsKnown == Len(ObsLines) = ExpectedCount(lay) /\ \A k \in 1..Len(ObsLines) :
               \/ ObsLines[k] \in Acceptable(lay)
               \/ KF_RstLineNotConverted(lay, ObsLines[k]) \/ KF_LeadingWs(lay, ObsLines[k]) \/ KF_Napoleon(lay, ObsLines[k])
               \/ KF_DocutilsSep(lay, ObsLines[k]) \/ KF_TypeTwice(lay, ObsLines[k]) \/ KF_InlineOrigin(lay, ObsLines[k]) \/ KF_ConsBad(lay, ObsLines[k])

\* ------------------------------------------------------------------ emission
Rec(l) == [lay |-> l, quote |-> QuoteLine(l), text0 |-> TextLine0(l), first |-> FirstLine(l), at |-> AtLine(l),
           close |-> CloseLine(l), lo |-> (IF l.fmt \in {"epytext", "restructuredtext"} THEN FirstLine(l) ELSE QuoteLine(l)),
           hi |-> (IF l.fmt \in {"epytext", "restructuredtext"} THEN AtLine(l) ELSE CloseLine(l)),
           docline |-> DocstringLine(l), impl |-> ReportedLine(l), impl2 |-> SecondLine(l), count |-> ExpectedCount(l), also |-> InlineLine(l), doclen |-> DocLen(l)]
Emit == IF Source = "enum" THEN PrintT(ToJson(Rec(lay)))
        ELSE PrintT(ToJson([id |-> Observed[obs].id,
                             one |-> Len(ObsLines) = ExpectedCount(lay),
                             ok |-> ObsAllIn,
                             kf |-> (~ObsAllIn /\ ObsKnown),
                             conforms |-> ObsAsModel,
                             lo |-> Rec(lay).lo, hi |-> Rec(lay).hi, impl |-> ReportedLine(lay)]))

\* the k-shift hyper-property on the observation file: two observations whose layouts differ only in k
\* report lines that differ by exactly the difference of the k's
SameButK(a, b) == [a EXCEPT !.k = 0] = [b EXCEPT !.k = 0]
ShiftBad == UNION {{<<g[i], g[j]>> : i, j \in 1..Len(g)} : g \in {Groups[x] : x \in 1..Len(Groups)}}
BadPair(p) == /\ p[1] < p[2] /\ SameButK(Observed[p[1]].lay, Observed[p[2]].lay)
              /\ Len(Observed[p[1]].lines) \in {1, Rep(Observed[p[1]].lay)} /\ Len(Observed[p[2]].lines) = Len(Observed[p[1]].lines)
              /\ \E i \in 1..Len(Observed[p[1]].lines) :
                    Observed[p[2]].lines[i] - Observed[p[1]].lines[i] # Observed[p[2]].lay.k - Observed[p[1]].lay.k
ShiftPost == IF Source = "file"
             THEN PrintT(ToJson([shift_bad |-> {<<Observed[p[1]].id, Observed[p[2]].id>> : p \in {q \in ShiftBad : BadPair(q)}},
                                 pairs |-> Cardinality({q \in ShiftBad : q[1] < q[2] /\ SameButK(Observed[q[1]].lay, Observed[q[2]].lay)})]))
             ELSE TRUE
ASSUME ShiftPost          \* (a POSTCONDITION may not be constant-level; an ASSUME may, and is evaluated once)
=============================================================================
