--------------------------- MODULE PrivacySystems ---------------------------
(***************************************************************************)
(* C13, several Systems in one process.                                    *)
(*                                                                         *)
(* "The privacy of an object is determined ... by the --privacy rules":    *)
(* the rules of THE System the object lives in - the ones its Options were *)
(* built from plus the ones appended to its own options.privacy list       *)
(* before the first query (pydoctor's tests, the Sphinx extension and      *)
(* custom System classes configure a System that way).  Nothing another    *)
(* System of the same process was given may show through.                  *)
(*                                                                         *)
(* Actions: New(args) builds a System (args = <<>>: model.System() with    *)
(* default options, otherwise Options.from_args of the --privacy           *)
(* arguments); Append(s, r) appends rule r to system s's options.privacy   *)
(* (only before s is queried: the rule list does not change once a System  *)
(* answers); Query(s, n) asks object n of system s.                        *)
(* The code shares nothing between Systems: each Options object owns its   *)
(* list.  Sharing = "defaultList" is the design-level negative control: a  *)
(* cached parser whose default --privacy list is handed out as is, so that *)
(* all Systems built without a rule alias ONE list.  Sharing =             *)
(* "classCache" is a second one: the answer cache is one dict for all      *)
(* Systems, emptied whenever a System is created - harmless for Systems    *)
(* used one after the other, wrong for two Systems alive at once (create   *)
(* A, create B, ask A, ask B).                                             *)
(* Every history is a state of its own (hist is part of the state): the    *)
(* order of creations and queries is what matters here.                    *)
(*                                                                         *)
(* Every history ending in a query is printed and replayed                 *)
(* by harness/checks/c13.py in a forked child process with real Systems.   *)
(***************************************************************************)
EXTENDS Privacy, Json

CONSTANTS MaxSystems, MaxSteps, Sharing    \* Sharing: "none" (the code) | "defaultList" | "classCache"

R(lv, pat) == [lv |-> lv, pat |-> pat]
RuleA == R("HIDDEN", <<"a", ".", "c">>)                 \* hidden:a.c   (exact)
RuleB == R("PRIVATE", <<"a", ".", "*">>)                \* private:a.*  (pattern)
ArgLists == {<< >>, <<RuleB>>}                          \* what a System can be built from
Appendable == {RuleA, RuleB}
Names == {<<"a", ".", "c">>}                              \* the class a.c, present in every System (module a is never decided by these rules)

VARIABLES sys,     \* sequence of [own: rules of this System, alias: does its list alias the shared default list, asked: BOOLEAN]
          shared,  \* the shared default list (control only; stays <<>> in the code's model)
          cache,   \* answers remembered: set of [s, n, v]; a System only ever finds its own (s = 0: the shared dict of the control)
          steps, hist
vars == <<sys, shared, cache, steps, hist>>

\* the list System s consults
Effective(s) == IF Sharing = "defaultList" /\ sys[s].alias THEN shared ELSE sys[s].own

CKey(s) == IF Sharing = "classCache" THEN 0 ELSE s
Cached(s, n) == {e \in cache : e.s = CKey(s) /\ e.n = n}
Answer(s, n) == IF Cached(s, n) # {} THEN (CHOOSE e \in Cached(s, n) : TRUE).v ELSE ImplPrivacy(n, Effective(s))

Init == sys = <<>> /\ shared = <<>> /\ cache = {} /\ steps = 0 /\ hist = <<>>

New(args) ==
  /\ Len(sys) < MaxSystems
  /\ sys' = Append(sys, [own |-> args, alias |-> args = <<>>, asked |-> FALSE])
  /\ hist' = Append(hist, [op |-> "new", s |-> Len(sys) + 1, rules |-> args, name |-> <<>>, got |-> "-", exp |-> "-"])
  /\ cache' = IF Sharing = "classCache" THEN {} ELSE cache          \* (control: __init__ empties the one dict)
  /\ steps' = steps + 1 /\ UNCHANGED shared

Append1(s, r) ==
  /\ ~sys[s].asked
  /\ Len(sys[s].own) < 2
  /\ sys' = [sys EXCEPT ![s].own = Append(@, r)]
  /\ shared' = IF Sharing = "defaultList" /\ sys[s].alias THEN Append(shared, r) ELSE shared
  /\ hist' = Append(hist, [op |-> "append", s |-> s, rules |-> <<r>>, name |-> <<>>, got |-> "-", exp |-> "-"])
  /\ steps' = steps + 1 /\ UNCHANGED cache

Query(s, n) ==
  /\ sys' = [sys EXCEPT ![s].asked = TRUE]
  /\ hist' = Append(hist, [op |-> "query", s |-> s, rules |-> <<>>, name |-> n,
                           got |-> Answer(s, n), exp |-> PrivacyOf(n, sys[s].own)])
  /\ cache' = cache \cup {[s |-> CKey(s), n |-> n, v |-> Answer(s, n)]}
  /\ steps' = steps + 1 /\ UNCHANGED shared

Next == \/ \E args \in ArgLists : New(args)
        \/ \E s \in 1..Len(sys), r \in Appendable : Append1(s, r)
        \/ \E s \in 1..Len(sys), n \in Names : Query(s, n)
Spec == Init /\ [][Next]_vars
Bound == steps <= MaxSteps

\* the property: every System answers from its own rules
\* (for a System that was asked already the rules are final, so a remembered answer must still be the right one)
OwnRulesOnly == \A s \in 1..Len(sys), n \in Names :
                   (sys[s].asked \/ Cached(s, n) = {}) => Answer(s, n) = PrivacyOf(n, sys[s].own)

Emit == (hist # <<>> /\ hist[Len(hist)].op = "query") => PrintT(ToJson([h |-> hist]))
=============================================================================
