--------------------------- MODULE PrivacyHistory ---------------------------
(***************************************************************************)
(* C12 (and C11), pattern S: the privacy an object is RENDERED with must   *)
(* be the one the rules give to its CURRENT full name, whatever was looked *)
(* up before it got that name.                                             *)
(*                                                                         *)
(* System.privacyClass (model.py) caches its answers in                    *)
(* System._privacyClassCache, keyed by full name.  A re-export             *)
(* (`from _impl import Moved; __all__ = ['Moved']`, astbuilder ->          *)
(* Documentable.reparent) renames the class AND every member below it.     *)
(* With an incremental build through the public builder API                *)
(* (addModule('_impl'); buildModules(); addModule('api'); buildModules())  *)
(* any privacy / visibility query made between the two builds fills the    *)
(* cache under the OLD names.                                              *)
(*                                                                         *)
(* Objects: the class K (_impl.Moved -> api.Moved) and its methods F (mm)  *)
(* and G (other).  Actions: BuildImpl, Query(o) (o.privacyClass /          *)
(* o.isVisible on the real object), BuildApi (the move), Render (the page  *)
(* writers look every object up).  The rule list is one of RuleSets; the   *)
(* reference semantics is the manual's for exact names (last exact rule    *)
(* wins, default PUBLIC for these names).                                  *)
(*                                                                         *)
(* CacheKey = "fullName" is what the code does.  "object" is the design-   *)
(* level negative control (a cache keyed by object identity from which     *)
(* reparent drops only the moved object): TLC must find ObservedRight      *)
(* violated.  Every terminal behaviour is printed and replayed by          *)
(* harness/sitecheck.py into a real System: incremental build, the         *)
(* queries, driver.make, crawl; the crawled site is judged with            *)
(* HiddenNoTrace / PrivateMarked / the C11 invariants of Site.tla against  *)
(* the privacy the manual gives to the current names.                      *)
(***************************************************************************)
EXTENDS Naturals, Sequences, FiniteSets, TLC, Json

CONSTANTS CacheKey,     \* "fullName" | "object"
          RuleSetIds    \* subset of DOMAIN RuleSets

Things == {"K", "F", "G"}
Name(o, loc) == CASE o = "K" -> IF loc = "impl" THEN "_impl.Moved" ELSE "api.Moved"
                  [] o = "F" -> IF loc = "impl" THEN "_impl.Moved.mm" ELSE "api.Moved.mm"
                  [] o = "G" -> IF loc = "impl" THEN "_impl.Moved.other" ELSE "api.Moved.other"
R(p, m) == [p |-> p, m |-> m]
RuleSets == <<
  << R("HIDDEN", "api.Moved.mm") >>,                                    \* 1 hidden member under the NEW name
  << R("PRIVATE", "api.Moved.mm"), R("HIDDEN", "api.Moved.other") >>,    \* 2 private + hidden members
  << R("HIDDEN", "_impl.Moved.mm") >>,                                  \* 3 a rule for the OLD name: no effect after the move
  << R("PRIVATE", "_impl.Moved"), R("HIDDEN", "api.Moved.mm") >>,        \* 4
  << R("HIDDEN", "api.Moved") >>,                                       \* 5 the class is hidden where it is exported
  << R("HIDDEN", "_impl.Moved"), R("PRIVATE", "api.Moved.other") >>,     \* 6 hidden where it was defined only
  << R("PRIVATE", "api.Moved.mm"), R("HIDDEN", "api.Moved.mm") >>        \* 7 same name twice: the last rule wins
>>

\* customize.rst: an exact match wins, among exact matches the last one; these names are public by default
RulePriv(rs, nm) == LET ks == {k \in DOMAIN rs : rs[k].m = nm}
                    IN IF ks = {} THEN "PUBLIC" ELSE rs[CHOOSE k \in ks : \A k2 \in ks : k2 <= k].p

VARIABLES rid, phase, loc, cache, asked, hist, obs
vars == <<rid, phase, loc, cache, asked, hist, obs>>
Rules == RuleSets[rid]

Key(o) == IF CacheKey = "fullName" THEN Name(o, loc) ELSE o
\* model.py System.privacyClass: the cached answer if there is one, else computed from the current full name
Lookup(c, o) == IF Key(o) \in DOMAIN c THEN c[Key(o)] ELSE RulePriv(Rules, Name(o, loc))
Store(c, o)  == IF Key(o) \in DOMAIN c THEN c ELSE [k \in DOMAIN c \cup {Key(o)} |-> IF k = Key(o) THEN Lookup(c, o) ELSE c[k]]

Init == /\ rid \in RuleSetIds /\ phase = "start" /\ loc = "impl" /\ cache = <<>> /\ asked = {} /\ hist = <<>> /\ obs = <<>>
BuildImpl == /\ phase = "start" /\ phase' = "impl" /\ hist' = Append(hist, "BuildImpl")
             /\ UNCHANGED <<rid, loc, cache, asked, obs>>
\* queries are made in a fixed order within a phase (K, F, G): the order does not matter for the cache
Rank(o) == CASE o = "K" -> 1 [] o = "F" -> 2 [] o = "G" -> 3
Query(o) == /\ phase = "impl" /\ \A a \in asked : Rank(a) < Rank(o)      \* (after the move Render asks everything anyway)
            /\ cache' = Store(cache, o) /\ asked' = asked \cup {o} /\ hist' = Append(hist, "Query:" \o o)
            /\ UNCHANGED <<rid, phase, loc, obs>>
\* the re-export: reparent() gives K, F and G new full names.  The code's cache is keyed by full name: nothing to drop.
BuildApi == /\ phase = "impl" /\ phase' = "api" /\ loc' = "api" /\ asked' = {}
            /\ cache' = IF CacheKey = "object" THEN [k \in DOMAIN cache \ {"K"} |-> cache[k]] ELSE cache
            /\ hist' = Append(hist, "BuildApi") /\ UNCHANGED <<rid, obs>>
Render == /\ phase = "api" /\ phase' = "rendered" /\ hist' = Append(hist, "Render")
          /\ obs' = [o \in Things |-> Lookup(cache, o)]
          /\ UNCHANGED <<rid, loc, cache, asked>>
Next == BuildImpl \/ (\E o \in Things : Query(o)) \/ BuildApi \/ Render
Spec == Init /\ [][Next]_vars

\* the property: what is rendered is what the rules say about the current names
ObservedRight == phase = "rendered" => \A o \in Things : obs[o] = RulePriv(Rules, Name(o, "api"))
Emit == phase = "rendered" =>
          PrintT(ToJson([rid |-> rid, rules |-> Rules, hist |-> hist,
                         obs |-> [o \in Things |-> [name |-> Name(o, "api"), priv |-> obs[o]]],
                         right |-> \A o \in Things : obs[o] = RulePriv(Rules, Name(o, "api"))]))
=============================================================================
