-------------------------------- MODULE OutDir --------------------------------
(***************************************************************************)
(* The output directory over a HISTORY of runs (driver.make,               *)
(* templatewriter.writer.TemplateWriter): a user runs pydoctor again and   *)
(* again into the same --html-output, with other source paths, with        *)
(* --html-summary-pages or --html-subject, after a run that was            *)
(* interrupted.  Every run must come to its end whatever the earlier runs  *)
(* left behind, and must write ITS pages under THEIR names - not through   *)
(* a link an earlier run left there.                                       *)
(*                                                                         *)
(* The directory is a map  file name -> nothing | file | link:             *)
(*    "index"   index.html : the page of the only root, or the project     *)
(*              index (IndexPage) when there are several roots             *)
(*    "sum"     the other summary pages and the search index               *)
(*    r         r.html for a root r: its page when there are several       *)
(*              roots, a link to index.html when it is the only one        *)
(*    "inv"     objects.inv                                                *)
(* A file remembers what was written (role) and by which run.  Writing     *)
(* (open(..., 'wb')) FOLLOWS a link - the file system's rule, which is     *)
(* what makes an old link dangerous.                                       *)
(*                                                                         *)
(* One action per step of driver.make; a run may be interrupted before     *)
(* any step (abort), the next run finds what was written so far.           *)
(***************************************************************************)
EXTENDS Integers, Sequences, FiniteSets, TLC, Json, SequencesExt

CONSTANTS MaxRuns,          \* length of the history
          RootSets,         \* the sets of roots a run may be given
          Modes,            \* subset of {"full", "summary", "subject"}
          Outputs,          \* subset of {"both", "html", "inv"}: neither option / --make-html / --make-intersphinx
          AbortPoints,      \* steps before which a run may be interrupted (never in the last run)
          UnlinkBeforePage  \* TRUE: a page is never written through a link (the code); FALSE: the defect (kept to show the properties bite)

Roots == UNION RootSets
Names == {"index", "sum", "inv"} \cup Roots
None == [t |-> "none", role |-> "", run |-> 0, to |-> ""]
File(role, k) == [t |-> "file", role |-> role, run |-> k, to |-> ""]
Link(to) == [t |-> "link", role |-> "", run |-> 0, to |-> to]

VARIABLES fs, hist, cur, pc
vars == <<fs, hist, cur, pc>>
Idle == [roots |-> {}, mode |-> "", subject |-> "", abort |-> "", out |-> ""]
RunNo == Len(hist) + 1

Init == fs = [n \in Names |-> None] /\ hist = <<>> /\ cur = Idle /\ pc = "idle"

Target(f, n) == IF f[n].t = "link" THEN f[n].to ELSE n
Write(f, n, c) == [f EXCEPT ![Target(f, n)] = c]           \* open(name, 'wb'): through the link if there is one
Resolve(f, n) == f[Target(f, n)]
PageName(R, r) == IF R = {r} THEN "index" ELSE r           \* Documentable.url of a root
Subjects == CASE cur.mode = "full" -> cur.roots [] cur.mode = "summary" -> {} [] OTHER -> {cur.subject}

Start == /\ pc = "idle" /\ Len(hist) < MaxRuns
         /\ \E R \in RootSets, m \in Modes, a \in AbortPoints \cup {"never"}, o \in Outputs :
               /\ (Len(hist) = MaxRuns - 1 => a = "never")
               /\ (o = "inv" => m = "full")                       \* the html options say nothing without html
               /\ \E s \in (IF m = "subject" THEN R ELSE {""}) :
                     cur' = [roots |-> R, mode |-> m, subject |-> s, abort |-> a, out |-> o]
               /\ pc' = IF o = "inv" THEN "inv" ELSE "prep"
         /\ UNCHANGED <<fs, hist>>

Snapshot(f) == LET ns == SetToSeq(Names) IN [j \in 1..Len(ns) |-> [n |-> ns[j], t |-> f[ns[j]].t, role |-> f[ns[j]].role, run |-> f[ns[j]].run, to |-> f[ns[j]].to]]
End(completed, f) == /\ hist' = Append(hist, [roots |-> SetToSeq(cur.roots), mode |-> cur.mode, subject |-> cur.subject, abort |-> cur.abort,
                                              out |-> cur.out, completed |-> completed, fs |-> Snapshot(f)])
                     /\ cur' = Idle /\ pc' = "idle"

Abort == pc \notin {"idle"} /\ pc = cur.abort /\ End(FALSE, fs) /\ UNCHANGED fs
Live == pc # cur.abort

\* prepOutputDirectory: the directory and the static files
Prep == /\ pc = "prep" /\ Live
        /\ pc' = IF cur.mode = "subject" THEN "pages" ELSE "summ"
        /\ UNCHANGED <<fs, hist, cur>>
\* writeSummaryPages, first part: the summary pages, the project index when there are several roots, the search index
Summ == /\ pc = "summ" /\ Live
        /\ fs' = LET f1 == Write(fs, "sum", File("sum", RunNo))
                 IN IF Cardinality(cur.roots) > 1 THEN Write(f1, "index", File("projindex", RunNo)) ELSE f1
        /\ pc' = "link" /\ UNCHANGED <<hist, cur>>
\* writeSummaryPages, second part: <root>.html -> index.html for a single root not named index (unlink what is there, link)
LinkStep == /\ pc = "link" /\ Live
            /\ fs' = IF Cardinality(cur.roots) = 1 /\ cur.roots # {"index"}
                       THEN LET r == CHOOSE x \in cur.roots : TRUE IN [fs EXCEPT ![r] = Link("index")]
                       ELSE fs
            /\ pc' = "pages" /\ UNCHANGED <<hist, cur>>
\* writeIndividualFiles: the page of every subject under the name its url designates
RECURSIVE WritePages(_, _)
WritePages(f, S) == IF S = {} THEN f
                    ELSE LET r == CHOOSE x \in S : TRUE
                             n == PageName(cur.roots, r)
                             f0 == IF UnlinkBeforePage /\ f[n].t = "link" THEN [f EXCEPT ![n] = None] ELSE f
                         IN WritePages(Write(f0, n, File("page:" \o r, RunNo)), S \ {r})
Pages == /\ pc = "pages" /\ Live
         /\ fs' = WritePages(fs, Subjects)
         /\ pc' = "inv" /\ UNCHANGED <<hist, cur>>          \* also with --make-html alone: driver.make sets makeintersphinx
Inv == /\ pc = "inv" /\ Live
       /\ fs' = Write(fs, "inv", File("inv", RunNo))
       /\ End(TRUE, fs')

Done == pc = "idle" /\ Len(hist) = MaxRuns
Next == Start \/ Abort \/ Prep \/ Summ \/ LinkStep \/ Pages \/ Inv \/ (Done /\ UNCHANGED vars)
Spec == Init /\ [][Next]_vars

\* ------------------------------------------------------------------------------------------ properties
LastRun == hist[Len(hist)]
AfterCompleted == pc = "idle" /\ hist # <<>> /\ LastRun.completed
LastRoots == {LastRun.roots[j] : j \in 1..Len(LastRun.roots)}
\* the module index.html of several roots and the project index want the same file name: the module's page wins (known finding)
Collision(R) == Cardinality(R) > 1 /\ "index" \in R

\* every page of the run is where its url says, written by this run
PagesAtTheirNames == AfterCompleted /\ LastRun.out # "inv" =>
   \A r \in (CASE LastRun.mode = "full" -> LastRoots [] LastRun.mode = "summary" -> {} [] OTHER -> {LastRun.subject}) :
      Resolve(fs, PageName(LastRoots, r)) = File("page:" \o r, Len(hist))
\* with several roots index.html is the project index of this run
IndexIsTheIndex == AfterCompleted /\ LastRun.out # "inv" /\ LastRun.mode # "subject" /\ Cardinality(LastRoots) > 1 /\ ~(Collision(LastRoots) /\ LastRun.mode = "full")
                      => Resolve(fs, "index") = File("projindex", Len(hist))
\* a single root is also reachable under its own name
RootReachableByName == AfterCompleted /\ LastRun.out # "inv" /\ LastRun.mode = "full" /\ Cardinality(LastRoots) = 1
                          => \A r \in LastRoots : Resolve(fs, r) = File("page:" \o r, Len(hist))
\* after a complete run no link dangles
NoDanglingLink == AfterCompleted /\ LastRun.out # "inv" /\ LastRun.mode = "full" => \A n \in Names : fs[n].t = "link" => fs[fs[n].to].t = "file"
InventoryWritten == AfterCompleted => fs["inv"] = File("inv", Len(hist))
\* a step touches the names it is responsible for and no other (a page is not written THROUGH an old link into another page)
Responsible == CASE pc = "summ" -> {"sum"} \cup (IF Cardinality(cur.roots) > 1 THEN {"index"} ELSE {})
                 [] pc = "link" -> cur.roots
                 [] pc = "pages" -> {PageName(cur.roots, r) : r \in Subjects}
                 [] pc = "inv" -> {"inv"}
                 [] OTHER -> {}
StepsWriteTheirOwnNames == [][\A n \in Names \ Responsible : fs'[n] = fs[n]]_vars

Emit == Done => PrintT(ToJson([hist |-> hist]))
=============================================================================
