----------------------------- MODULE Inventory -----------------------------
(***************************************************************************)
(* Property C17 : written inventories read back faithfully; malformed      *)
(* remote ones are survivable.            pydoctor/sphinx.py               *)
(*                                                                         *)
(* A line of objects.inv is a row of tokens separated by single spaces     *)
(* (line.split(' ')).  Tokens are abstracted to classes:                   *)
(*    w   word without colon that int() rejects  (m.C, 0.D, -, x.html)     *)
(*    py  py:<type>          std  <other domain>:<type>                    *)
(*    pyx <domain that merely starts with py>:<type>   (pyramid:view)      *)
(*    int something int() accepts (-1, 0, 1)                               *)
(*    e   the empty token (two spaces in a row, trailing space)            *)
(*    d   a location ending in '$'                                         *)
(* Results name columns by the POSITIONS of their tokens, so they can be   *)
(* compared without knowing the text.                                      *)
(*                                                                         *)
(*   WriteLine  = SphinxInventoryWriter._generateLine (:239-272)           *)
(*   ImplParse  = _parseInventoryLine (:150-180), index arithmetic kept,   *)
(*                an out-of-range access that no handler catches = Crash   *)
(*   RefParse   = the format as Sphinx reads it (sphinx.util.inventory,    *)
(*                validated against that regex by the harness)             *)
(*   Update     = SphinxInventory.update (:58-132) as a staged machine     *)
(*                with one failure branch per stage                        *)
(*                                                                         *)
(* Mode "rows"   : every row up to MaxCols tokens            (pattern R)   *)
(* Mode "objs"   : every qualified-name shape, round trip    (pattern R)   *)
(* Mode "update" : every fault configuration                 (pattern S)   *)
(* Mode "roots"  : every history of up to 5 steps (add a root, read the     *)
(*                 urls, write the inventory) of a system that grows       *)
(* Mode "urls"   : every name path of depth <= 3 whose components may repeat  *)
(*                 the root's own name, in projects with one / two roots:  *)
(*                 the page that documents it                              *)
(* Mode "writes" : every sequence of up to 3 generate() calls (writer x     *)
(*                 project) in one process, each file read back            *)
(* Mode "hist"   : every sequence of up to 4 look-ups / loads on one reader  *)
(* Mode "multi"  : every sequence of up to 3 --intersphinx URLs (host x    *)
(*                 outcome of the fetch), loaded one after the other       *)
(*                 through ONE IntersphinxCache into ONE SphinxInventory   *)
(*                 (System.fetchIntersphinxInventories)      (pattern S)   *)
(* Mode "file"   : rows observed from inventories written by the real      *)
(*                 writer (code -> spec)                                   *)
(***************************************************************************)
EXTENDS Naturals, Sequences, FiniteSets, TLC, Json, IOUtils

CONSTANTS Mode, Classes, MaxCols, MaxDepth, Open, Fixed

FixIndex == "prio-last-column-indexerror" \in Fixed   \* missing location column -> ValueError
FixEmpty == "empty-token-shifts-columns" \in Fixed   \* columns may be separated by more than one space

FileRows == IF Mode = "file" THEN JsonDeserialize(IOEnv.ROWS_FILE) ELSE <<>>

IsInt(c)    == c = "int"
HistEvents == {"L1", "L2", "I1", "I2", "B1"}
NameOf(e) == IF e \in {"L1", "I1", "B1"} THEN "n1" ELSE "n2"
\* ---- where an object is documented (model.Documentable.url :233-249, the target written into objects.inv).
\* A page object (package, module, class) has its own page, named after its FULL name; the one exception is the only
\* root of a single-root project, which is index.html.  Names are sequences of components: "r" = the root's own
\* short name, "x" = any other name - a module or class deeper in the tree may well be called like the root
\* (foo/foo.py, class foo in foo.bar).
RefPage(names, nroots) == IF nroots = 1 /\ Len(names) = 1 THEN <<"index">> ELSE names
UrlCases == {s \in UNION {[1..k -> {"r", "x"}] : k \in 1..3} : s[1] = "r"}
\* different page objects are never documented on the same page
PagesDistinct == \A nroots \in 1..2 : \A s1, s2 \in UrlCases : s1 # s2 => RefPage(s1, nroots) # RefPage(s2, nroots)
Writers  == {"w1", "w2"}          \* SphinxInventoryWriter objects living in one process
Projects == {"p1", "p2"}          \* p1: one root; p2: several roots
Hosts    == {"h1", "h2"}
Outcomes == {"ok", "exception", "junk"}
HasColon(c) == c \in {"py", "std", "pyx"}
Range(s)    == {s[i] : i \in DOMAIN s}

\* ----------------------------------------------------------- _parseInventoryLine
\* parts = line.split(' ');  parts[k] (0-based) = row[k+1]
RECURSIVE FirstInt(_, _)
FirstInt(row, k) ==                    \* the while loop :162-170, prio_idx starts at 2; Len(row) = not found
   IF k >= Len(row) THEN Len(row)
   ELSE IF IsInt(row[k+1]) THEN k
   ELSE FirstInt(row, k + 1)
RECURSIVE TypBack(_, _), NameEnd(_, _)
TypBack(row, j) == IF j > 1 /\ row[j] = "e" THEN TypBack(row, j - 1) ELSE j      \* while typ_idx > 0 and not parts[typ_idx]
NameEnd(row, j) == IF j >= 1 /\ row[j] = "e" THEN NameEnd(row, j - 1) ELSE j       \* .rstrip(' ')
ImplParse(row) ==
   LET n == Len(row)
       k == FirstInt(row, 2)
   IN IF k >= n THEN [kind |-> "ValueError", why |-> "no priority column"]            \* IndexError -> ValueError :171
      ELSE IF k + 1 >= n                                                              \* location = parts[prio_idx + 1] :175
             THEN (IF FixIndex THEN [kind |-> "ValueError", why |-> "no location column"]
                               ELSE [kind |-> "Crash", why |-> "IndexError escapes _parseInventory"])
      ELSE LET disp == [i \in 1..(n - (k + 2)) |-> k + 2 + i]                         \* parts[prio_idx + 2:]
           IN IF disp = <<>> \/ (Len(disp) = 1 /\ row[disp[1]] = "e")                 \* ' '.join(..) == '' :177
                THEN [kind |-> "ValueError", why |-> "empty display name"]
                ELSE IF ~FixEmpty
                       THEN [kind |-> "ok", name |-> [i \in 1..(k - 1) |-> i], typ |-> k, prio |-> k + 1, loc |-> k + 2]
                       \* repaired: the type is the last non-empty token before the priority, the name loses its
                       \* trailing spaces
                       ELSE LET ty == TypBack(row, k)  nm == NameEnd(row, ty - 1)
                            IN [kind |-> "ok", name |-> [i \in 1..nm |-> i], typ |-> ty, prio |-> k + 1, loc |-> k + 2]
\* _parseInventory (:108-132): what one line does to the result
LineEffect(row) ==
   LET res == ImplParse(row) IN
   CASE res.kind = "Crash" -> "raise"
     [] res.kind = "ValueError" -> "error"
     [] res.kind = "ok" /\ row[res.typ] # "py" -> "ignored"               \* not typ.startswith('py:')
     [] OTHER -> "link"

\* ------------------------------------------------ reference: the format as Sphinx reads it
\* re.match(r'(.+?)\s+(\S+)\s+(-?\d+)\s+?(\S*)\s+(.*)', line.rstrip()) on the row
RECURSIVE Strip(_)
Strip(row) == IF row # <<>> /\ row[Len(row)] = "e" THEN Strip(SubSeq(row, 1, Len(row) - 1)) ELSE row
NextFull(r, i) == IF \E j \in (i+1)..Len(r) : r[j] # "e" THEN CHOOSE j \in (i+1)..Len(r) : r[j] # "e" /\ \A m \in (i+1)..(j-1) : r[m] = "e"
                  ELSE 0
\* does the name end with token j ?
RefAt(r, j) ==
   LET ty == NextFull(r, j)
       pr == IF ty = 0 THEN 0 ELSE NextFull(r, ty)
   IN /\ ~(j = 1 /\ r[1] = "e")             \* (.+?) needs a character
      /\ ty # 0 /\ pr # 0 /\ IsInt(r[pr])
      /\ pr + 2 <= Len(r)                   \* a location token and something after it
RefParse(row) ==
   LET r == Strip(row)
       J == {j \in 1..Len(r) : RefAt(r, j)}
   IN IF J = {} THEN [kind |-> "nomatch"]
      ELSE LET j == CHOOSE x \in J : \A y \in J : x <= y          \* non-greedy name
               ty == NextFull(r, j)
               pr == NextFull(r, ty)
           IN [kind |-> "ok", name |-> [i \in 1..j |-> i], typ |-> ty, prio |-> pr, loc |-> pr + 1]
\* a line a consumer of Python references can use: a py: entry whose name is not just white space
Usable(row) == LET m == RefParse(row) IN m.kind = "ok" /\ row[m.typ] = "py" /\ \E i \in DOMAIN m.name : row[m.name[i]] # "e"

\* the property on one line
NoCrash(row) == ImplParse(row).kind # "Crash"
\* "non-Python lines are skipped": an entry of another domain never becomes a link
NonPythonSkipped(row) == LET m == RefParse(row) IN
                            (m.kind = "ok" /\ HasColon(row[m.typ]) /\ row[m.typ] # "py") => LineEffect(row) # "link"
UsableResolves(row) == Usable(row) => LET i == ImplParse(row) m == RefParse(row) IN
                          i.kind = "ok" /\ i.name = m.name /\ i.typ = m.typ /\ i.loc = m.loc
RowClasses(row) ==
   (IF ~NoCrash(row) THEN {"prio-last-column-indexerror"} ELSE {})
   \cup (IF NoCrash(row) /\ ~NonPythonSkipped(row) THEN {"foreign-domain-linked"} ELSE {})
   \cup (IF NoCrash(row) /\ ~UsableResolves(row)
           THEN (IF "e" \in Range(row) THEN {"empty-token-shifts-columns"} ELSE {"usable-line-lost"})
           ELSE {})

\* -------------------------------------------------------------------- the writer
\* (a component that is not an identifier but has no space - the setter `width.setter` of a property, a root module
\* `run-me` - is one word like any other: the harness puts such objects into every project it writes)
\* a qualified name = components, each possibly a renamed duplicate "X 0"; split at spaces it gives
\* 1 + (number of duplicates) tokens, the last one being the bare "0" iff the last component is a duplicate
NameRow(dups) ==
   LET nd == Cardinality({i \in DOMAIN dups : dups[i]})
   IN [i \in 1..(nd + 1) |-> IF i = nd + 1 /\ nd > 0 /\ dups[Len(dups)] THEN "int" ELSE "w"]
\* f'{full_name} py:{domainname} -1 {url} -'  (url is percent-quoted: one token)
WriteLine(dups) == NameRow(dups) \o <<"py", "int", "w", "w">>
RoundTrip(dups) ==
   LET row == WriteLine(dups)  nl == Len(NameRow(dups))  i == ImplParse(row)
   IN i.kind = "ok" /\ i.name = [x \in 1..nl |-> x] /\ i.typ = nl + 1 /\ i.loc = nl + 3
RoundTripSphinx(dups) ==
   LET row == WriteLine(dups)  nl == Len(NameRow(dups))  m == RefParse(row)
   IN m.kind = "ok" /\ m.name = [x \in 1..nl |-> x] /\ m.typ = nl + 1 /\ m.loc = nl + 3

\* ----------------------------------------------------------- SphinxInventory.update
UrlKinds    == {"ok", "noslash"}
FetchKinds  == {"ok", "none", "empty", "raises"}         \* IntersphinxCache.get turns an exception into None
\* "banner" = a long run of comment lines (1 500) before the payload, "manycomments" = as many comment lines and nothing
\* else: the header is skipped by a loop, its length does not matter
HeaderKinds == {"normal", "missing", "onlycomments", "nonewline", "banner", "manycomments"}
ZipKinds    == {"ok", "notzlib", "truncated"}
TextKinds   == {"ok", "badutf8"}
LineKinds   == {"py", "std", "pyx", "noint", "priolast", "nodisplay", "blank"}
LineRow(lk) == CASE lk = "py" -> <<"w", "py", "int", "w", "w">>
                 [] lk = "std" -> <<"w", "w", "std", "int", "w", "w", "w">>
                 [] lk = "noint" -> <<"w", "py", "w", "w">>
                 [] lk = "priolast" -> <<"w", "py", "int">>
                 [] lk = "nodisplay" -> <<"w", "py", "int", "w">>
                 [] lk = "blank" -> <<"e">>
                 [] lk = "pyx" -> <<"w", "pyx", "int", "w", "w">>

VARIABLES row, dups, cfg, pc, li, errors, links,
          answers      \* "hist": what the look-ups made so far have answered (TRUE = a link)
vars == <<row, dups, cfg, pc, li, errors, links, answers>>

RECURSIVE SeqsUpTo(_, _)
SeqsUpTo(S, n) == IF n = 0 THEN {<<>>} ELSE SeqsUpTo(S, n - 1) \cup {Append(s, x) : s \in {t \in SeqsUpTo(S, n - 1) : Len(t) = n - 1}, x \in S}
NoCfg == [url |-> "ok", fetch |-> "ok", header |-> "normal", zip |-> "ok", text |-> "ok", lines |-> <<>>]

Init ==
   /\ li = 1 /\ errors = 0 /\ links = {} /\ answers = <<>>
   /\ \/ /\ Mode = "rows" /\ row \in (SeqsUpTo(Classes, MaxCols) \ {<<>>}) /\ dups = <<>> /\ cfg = NoCfg /\ pc = "done"
      \/ /\ Mode = "file" /\ \E i \in 1..Len(FileRows) : row = FileRows[i]
         /\ dups = <<>> /\ cfg = NoCfg /\ pc = "done"
      \/ /\ Mode = "objs" /\ row = <<>> /\ cfg = NoCfg /\ pc = "done"
         /\ dups \in {d \in (SeqsUpTo(BOOLEAN, MaxDepth) \ {<<>>}) : ~d[1]}          \* a module is never a duplicate
      \/ /\ Mode = "roots" /\ row = <<>> /\ dups = <<>> /\ pc = "roots"
         /\ cfg \in {s \in (SeqsUpTo({"A", "T", "W"}, 5) \ {<<>>}) :
                        /\ s[1] = "A" /\ s[Len(s)] = "W" /\ Cardinality({i \in DOMAIN s : s[i] = "A"}) <= 3}
      \/ /\ Mode = "urls" /\ row = <<>> /\ dups = <<>> /\ pc = "done"
         /\ cfg \in [names : {s \in (SeqsUpTo({"r", "x"}, 3) \ {<<>>}) : s[1] = "r"}, roots : 1..2]
      \/ /\ Mode = "writes" /\ row = <<>> /\ dups = <<>> /\ pc = "writes"
         /\ cfg \in (SeqsUpTo([w : Writers, p : Projects], 3) \ {<<>>})
      \/ /\ Mode = "hist" /\ row = <<>> /\ dups = <<>> /\ pc = "hist"
         /\ cfg \in (SeqsUpTo(HistEvents, 4) \ {<<>>})
      \/ /\ Mode = "multi" /\ row = <<>> /\ dups = <<>> /\ pc = "multi"
         /\ cfg \in (SeqsUpTo([host : Hosts, out : Outcomes], 3) \ {<<>>})
      \/ /\ Mode = "update" /\ row = <<>> /\ dups = <<>> /\ pc = "rsplit"
         /\ cfg \in [url : UrlKinds, fetch : FetchKinds, header : HeaderKinds, zip : ZipKinds, text : TextKinds,
                     lines : SeqsUpTo(LineKinds, 3)]
         \* one fault at a time in the stages before the lines; any mixture of lines
         /\ Cardinality({s \in {"url", "fetch", "header", "zip", "text"} :
                           cfg[s] \notin {"ok", "normal"}}) <= 1
         /\ (cfg.header \in {"banner", "manycomments"} => Len(cfg.lines) <= 2)

Keep == UNCHANGED <<row, dups, cfg, answers>>
Fail(msgs) == /\ errors' = errors + msgs /\ pc' = "done" /\ UNCHANGED <<li, links>> /\ Keep
Go(next)   == /\ pc' = next /\ UNCHANGED <<li, errors, links>> /\ Keep
\* url.rsplit('/', 1) (:62-66)
Rsplit  == pc = "rsplit"  /\ IF cfg.url = "noslash" THEN Fail(1) ELSE Go("fetch")
\* cache.get(url); `if not data` (:70-75)
Fetch   == pc = "fetch"   /\ IF cfg.fetch # "ok" THEN Fail(1) ELSE Go("payload")
\* _getPayload: comment lines are dropped; whatever is left goes to zlib (:84-94)
Payload == pc = "payload" /\ Go("inflate")
\* zlib.decompress (:95-101): nothing left after the comments, not zlib data, truncated stream -> zlib.error
Inflate == pc = "inflate" /\ IF cfg.zip # "ok" \/ cfg.header \in {"onlycomments", "nonewline", "manycomments"} THEN Fail(1) ELSE Go("decode")
\* decompressed.decode('utf-8') (:102-108)
Decode  == pc = "decode"  /\ IF cfg.text = "badutf8" THEN Fail(1) ELSE Go("lines")
\* _parseInventory (:118-131), one line per step
Lines   == /\ pc = "lines" /\ Keep
           /\ IF li > Len(cfg.lines) THEN pc' = "done" /\ UNCHANGED <<li, errors, links>>
              ELSE LET eff == LineEffect(LineRow(cfg.lines[li])) IN
                   CASE eff = "raise" -> pc' = "raised" /\ UNCHANGED <<li, errors, links>>       \* update() is left by an exception
                     [] eff = "error" -> errors' = errors + 1 /\ li' = li + 1 /\ UNCHANGED <<pc, links>>
                     [] eff = "ignored" -> li' = li + 1 /\ UNCHANGED <<pc, errors, links>>
                     [] eff = "link" -> links' = links \cup {li} /\ li' = li + 1 /\ UNCHANGED <<pc, errors>>
\* ---- several inventories: model.System.fetchIntersphinxInventories (model.py: for url in options.intersphinx:
\* self.intersphinx.update(cache, url)) over IntersphinxCache.get (sphinx.py:395-411), which turns ANY exception of the
\* session into None and keeps no memory of it: what one URL did has no influence on the next one
FetchNext == /\ pc = "multi" /\ Keep
             /\ IF li > Len(cfg) THEN pc' = "done" /\ UNCHANGED <<li, errors, links>>
                ELSE /\ li' = li + 1 /\ pc' = pc
                     /\ CASE cfg[li].out = "ok" -> links' = links \cup {li} /\ UNCHANGED errors
                          \* session.get raised -> None -> 'Failed to get object inventory'
                          [] cfg[li].out = "exception" -> errors' = errors + 1 /\ UNCHANGED links
                          \* a body that is not an inventory -> 'Failed to uncompress inventory'
                          [] cfg[li].out = "junk" -> errors' = errors + 1 /\ UNCHANGED links
\* ---- look-ups and loads in any order on ONE SphinxInventory (the linker asks while inventories may still be
\* loaded: get_system runs fetchIntersphinxInventories once, API users call update() whenever they like).
\* L1 / L2 = getLink(name defined by inventory 1 / 2) (:133-147), I1 / I2 = update() with that inventory,
\* B1 = update() with a truncated download of inventory 1.  getLink reads self._links and nothing else: an
\* answer depends on what is loaded at that moment, never on earlier answers.
HistStep == /\ pc = "hist" /\ UNCHANGED <<row, dups, cfg>>
            /\ IF li > Len(cfg) THEN pc' = "done" /\ UNCHANGED <<li, errors, links, answers>>
               ELSE LET e == cfg[li] IN
                    /\ li' = li + 1 /\ pc' = pc
                    /\ CASE e \in {"L1", "L2"} -> answers' = Append(answers, NameOf(e) \in links) /\ UNCHANGED <<errors, links>>
                         [] e \in {"I1", "I2"} -> links' = links \cup {NameOf(e)} /\ UNCHANGED <<errors, answers>>
                         [] e = "B1" -> errors' = errors + 1 /\ UNCHANGED <<links, answers>>
\* ---- several generate() calls in one process, through the same or through different writer objects
\* (SphinxInventoryWriter.generate :202-214: header, then zlib.compress(all lines) - a fresh compression every time,
\* nothing of an earlier call is kept in the writer).  answers[i] = the project whose objects file i holds.
WriteStep == /\ pc = "writes" /\ UNCHANGED <<row, dups, cfg, errors, links>>
             /\ IF li > Len(cfg) THEN pc' = "done" /\ UNCHANGED <<li, answers>>
                ELSE li' = li + 1 /\ pc' = pc /\ answers' = Append(answers, cfg[li].p)
\* ---- a system that grows: A = a root is added and analysed (SystemBuilder.addModule + buildModules), T = the urls of
\* the objects are read (rendering a docstring that links to them does it), W = the inventory is written and read
\* back.  Documentable.url (:233-249) is computed from the roots the system has AT THAT MOMENT; nothing is remembered:
\* answers[k] = the number of roots the k-th written inventory reflects (links = the roots so far).
RootStep == /\ pc = "roots" /\ UNCHANGED <<row, dups, cfg, errors>>
            /\ IF li > Len(cfg) THEN pc' = "done" /\ UNCHANGED <<li, links, answers>>
               ELSE /\ li' = li + 1 /\ pc' = pc
                    /\ CASE cfg[li] = "A" -> links' = links \cup {Cardinality(links) + 1} /\ UNCHANGED answers
                         [] cfg[li] = "T" -> UNCHANGED <<links, answers>>
                         [] cfg[li] = "W" -> answers' = Append(answers, Cardinality(links)) /\ UNCHANGED links
Next == Rsplit \/ Fetch \/ Payload \/ Inflate \/ Decode \/ Lines \/ FetchNext \/ HistStep \/ WriteStep \/ RootStep
Spec == Init /\ [][Next]_vars

\* the contract of update (from the property statement)
StageFault == cfg.url # "ok" \/ cfg.fetch # "ok" \/ cfg.header \in {"onlycomments", "nonewline", "manycomments"} \/ cfg.zip # "ok" \/ cfg.text # "ok"
UsableLines == {i \in DOMAIN cfg.lines : Usable(LineRow(cfg.lines[i]))}
BadLines    == {i \in DOMAIN cfg.lines : RefParse(LineRow(cfg.lines[i])).kind = "nomatch"}
NeverRaises  == pc # "raised"
ReportsOnce  == pc = "done" => errors = (IF StageFault THEN 1 ELSE Cardinality(BadLines))
StillResolve == pc = "done" => (IF StageFault THEN links = {} ELSE links = UsableLines)
UpdateClasses ==
   IF pc = "raised" THEN {"prio-last-column-indexerror"}
   ELSE IF pc = "done" /\ ~(ReportsOnce /\ StillResolve) THEN
        {"update-contract"}
   ELSE {}

\* design-level invariants, relaxed by exactly the open known findings
\* every inventory that could be fetched resolves its names, whatever happened to the others; one message per failure
\* a look-up answers with a link exactly when an inventory defining the name has been loaded BEFORE it
LookupPositions == {i \in DOMAIN cfg : cfg[i] \in {"L1", "L2"}}
NthLookup(k) == CHOOSE i \in LookupPositions : Cardinality({j \in LookupPositions : j <= i}) = k
Loaded(i, nm) == \E j \in 1..(i - 1) : cfg[j] \in {"I1", "I2"} /\ NameOf(cfg[j]) = nm
LookupsFollowLoads == (Mode = "hist" /\ pc = "done") =>
                         /\ Len(answers) = Cardinality(LookupPositions)
                         /\ \A k \in DOMAIN answers : answers[k] = Loaded(NthLookup(k), NameOf(cfg[NthLookup(k)]))
\* every file written reads back as exactly the visible documented objects of the project it was written for
\* every inventory written points where RefPage says for the roots present when it was written
WrittenForCurrentRoots == (Mode = "roots" /\ pc = "done") =>
   \A k \in DOMAIN answers :
      LET wpos == CHOOSE i \in DOMAIN cfg : cfg[i] = "W" /\ Cardinality({j \in 1..i : cfg[j] = "W"}) = k
      IN answers[k] = Cardinality({j \in 1..wpos : cfg[j] = "A"})
EachFileComplete == (Mode = "writes" /\ pc = "done") =>
                       /\ Len(answers) = Len(cfg) /\ \A i \in DOMAIN cfg : answers[i] = cfg[i].p
EachGoodResolves == (Mode = "multi" /\ pc = "done") =>
                       /\ links = {i \in DOMAIN cfg : cfg[i].out = "ok"}
                       /\ errors = Cardinality({i \in DOMAIN cfg : cfg[i].out # "ok"})
Terminal == pc \in {"done", "raised"}
DesignKnown ==
   /\ Mode \in {"rows", "file"} => RowClasses(row) \subseteq Open
   \* names with renamed duplicates are hypothetical: the writer walks `contents`, where a superseded "X 0" no
   \* longer is (the harness checks that on real projects), so only plain names are ever written
   /\ Mode = "objs" => ((\A i \in DOMAIN dups : ~dups[i]) => (RoundTrip(dups) /\ RoundTripSphinx(dups)))
   /\ Mode = "update" => (Terminal => UpdateClasses \subseteq Open)
   /\ EachGoodResolves
   /\ LookupsFollowLoads
   /\ EachFileComplete
   /\ WrittenForCurrentRoots
   /\ (Mode = "urls" => PagesDistinct)

Emit ==
   CASE Mode \in {"rows", "file"} ->
          PrintT(ToJson([row |-> row, impl |-> ImplParse(row), ref |-> RefParse(row), usable |-> Usable(row),
                         effect |-> LineEffect(row), cls |-> RowClasses(row)]))
     [] Mode = "objs" ->
          PrintT(ToJson([dups |-> dups, row |-> WriteLine(dups), impl |-> ImplParse(WriteLine(dups)),
                         roundtrip |-> RoundTrip(dups), sphinx |-> RoundTripSphinx(dups)]))
     [] Mode = "roots" ->
          (Terminal => PrintT(ToJson([cfg |-> cfg, answers |-> answers])))
     [] Mode = "urls" ->
          PrintT(ToJson([names |-> cfg.names, roots |-> cfg.roots, page |-> RefPage(cfg.names, cfg.roots)]))
     [] Mode = "writes" ->
          (Terminal => PrintT(ToJson([cfg |-> cfg, answers |-> answers])))
     [] Mode = "hist" ->
          (Terminal => PrintT(ToJson([cfg |-> cfg, answers |-> answers, links |-> links, errors |-> errors])))
     [] Mode = "multi" ->
          (Terminal => PrintT(ToJson([cfg |-> cfg, errors |-> errors, links |-> links])))
     [] Mode = "update" ->
          (Terminal => PrintT(ToJson([cfg |-> cfg, pc |-> pc, errors |-> errors, links |-> links,
                                      usable |-> UsableLines, bad |-> BadLines, stagefault |-> StageFault,
                                      cls |-> UpdateClasses])))
=============================================================================
