------------------------------ MODULE Privacy ------------------------------
(***************************************************************************)
(* C13 - privacy rules mean what the manual says.                          *)
(*                                                                         *)
(* Pure definitions (no variables), shared by PrivacyTable.tla (tables of  *)
(* results observed from the real code, judged by TLC) and                 *)
(* PrivacyCache.tla (System.privacyClass cache under moves):               *)
(*                                                                         *)
(*   reference   QnMatch, DefaultPrivacy, PrivacyOf, VisibleRef            *)
(*               written from the manual (docs/source/customize.rst 61-103,*)
(*               the docstring of pydoctor/qnmatch.py) and the property    *)
(*               statement;                                                *)
(*   transcription  ImplMatch (qnmatch.translate + re semantics of the     *)
(*               produced expression), ImplPrivacy (model.System.          *)
(*               privacyClass, model.py 1123-1155).                        *)
(*                                                                         *)
(* Text is a sequence of one-character strings.                            *)
(***************************************************************************)
EXTENDS Naturals, Sequences, FiniteSets, TLC

SeqsUpTo(S, k) == UNION {[1..m -> S] : m \in 0..k}

\* code points of every character the harness uses (needed for re's x-y ranges in the transcription only)
Ord(c) == CASE c = " " -> 32 [] c = "!" -> 33 [] c = "*" -> 42 [] c = "-" -> 45 [] c = "." -> 46
            [] c = "0" -> 48 [] c = "1" -> 49 [] c = "?" -> 63
            [] c = "A" -> 65 [] c = "B" -> 66 [] c = "[" -> 91 [] c = "]" -> 93 [] c = "^" -> 94 [] c = "_" -> 95
            [] c = "a" -> 97 [] c = "b" -> 98 [] c = "c" -> 99 [] c = "d" -> 100 [] c = "m" -> 109
            [] c = "x" -> 120 [] c = "z" -> 122

(***************************************************************************)
(* REFERENCE matcher.  Tokens follow the manual:  ** | * | ? | [seq] |     *)
(* [!seq] | literal.  A ']' directly after '[' or '[!' is a member; a '['  *)
(* with no closing ']' is a literal '['.  The pattern must match the WHOLE *)
(* name.                                                                   *)
(***************************************************************************)
RECURSIVE FindClose(_, _)
FindClose(p, j) == IF j > Len(p) THEN 0 ELSE IF p[j] = "]" THEN j ELSE FindClose(p, j + 1)

RECURSIVE Tok(_, _)
Tok(p, i) ==
  IF i > Len(p) THEN <<>>
  ELSE IF p[i] = "*" THEN
         IF i < Len(p) /\ p[i + 1] = "*" THEN <<[t |-> "dstar"]>> \o Tok(p, i + 2)
         ELSE <<[t |-> "star"]>> \o Tok(p, i + 1)
  ELSE IF p[i] = "?" THEN <<[t |-> "any"]>> \o Tok(p, i + 1)
  ELSE IF p[i] = "[" THEN
         LET j0 == i + 1
             j1 == IF j0 <= Len(p) /\ p[j0] = "!" THEN j0 + 1 ELSE j0
             j2 == IF j1 <= Len(p) /\ p[j1] = "]" THEN j1 + 1 ELSE j1
             c  == FindClose(p, j2)
         IN IF c = 0 THEN <<[t |-> "lit", ch |-> "["]>> \o Tok(p, i + 1)
            ELSE LET neg  == p[j0] = "!"
                     body == SubSeq(p, IF neg THEN j0 + 1 ELSE j0, c - 1)
                 IN <<[t |-> "set", neg |-> neg, b |-> body]>> \o Tok(p, c + 1)
  ELSE <<[t |-> "lit", ch |-> p[i]]>> \o Tok(p, i + 1)

Members(b) == {b[x] : x \in 1..Len(b)}

\* C13 reading: the manual does not say whether x-y inside brackets is a range or three literals
AmbiguousTok(t) == t.t = "set" /\ \E x \in 2..(Len(t.b) - 1) : t.b[x] = "-"
Ambiguous(p) == LET ts == Tok(p, 1) IN \E k \in 1..Len(ts) : AmbiguousTok(ts[k])

RECURSIVE ReHas(_, _, _)
RECURSIVE M(_, _, _, _)
M(ts, ti, nm, ni) ==
  IF ti > Len(ts) THEN ni > Len(nm)
  ELSE LET t == ts[ti] IN
    CASE t.t = "lit"   -> ni <= Len(nm) /\ nm[ni] = t.ch /\ M(ts, ti + 1, nm, ni + 1)
      [] t.t = "any"   -> ni <= Len(nm) /\ M(ts, ti + 1, nm, ni + 1)
      [] t.t = "set"   -> ni <= Len(nm) /\ ((nm[ni] \in Members(t.b)) # t.neg) /\ M(ts, ti + 1, nm, ni + 1)
      [] t.t = "reset" -> ni <= Len(nm) /\ (ReHas(t.b, 1, nm[ni]) # t.neg) /\ M(ts, ti + 1, nm, ni + 1)
      [] t.t = "dstar" -> \E k \in ni..(Len(nm) + 1) : M(ts, ti + 1, nm, k)
      [] t.t = "star"  -> \E k \in ni..(Len(nm) + 1) : (\A x \in ni..(k - 1) : nm[x] # ".") /\ M(ts, ti + 1, nm, k)

QnMatch(nm, p) == M(Tok(p, 1), 1, nm, 1)
QnMatchT(nm, ts) == M(ts, 1, nm, 1)

(***************************************************************************)
(* TRANSCRIPTION of qnmatch.translate (qnmatch.py 31-74) together with the *)
(* meaning the `re` module gives to the expression it builds:              *)
(*   '**' -> '.*?' , '*' -> '[^\.]*?' , '?' -> '.' (DOTALL) , other -> the *)
(*   escaped character, '[stuff]' -> a re character class, everything      *)
(*   anchored at the start by match() and at the end by '\Z'.              *)
(* Non-greedy quantifiers under a full anchor accept the same strings as   *)
(* greedy ones, so the matcher M above serves both.                        *)
(* re character class (sre_parse): 'x-y' is the range of code points,      *)
(* y < x is an error ("bad character range"), a '-' directly before the    *)
(* closing bracket is a literal.                                           *)
(***************************************************************************)
ReHas(s, k, c) ==
  IF k > Len(s) THEN FALSE
  ELSE IF k + 1 <= Len(s) /\ s[k + 1] = "-" THEN
         IF k + 2 > Len(s) THEN c = s[k] \/ c = "-"
         ELSE (Ord(s[k]) <= Ord(c) /\ Ord(c) <= Ord(s[k + 2])) \/ ReHas(s, k + 3, c)
  ELSE c = s[k] \/ ReHas(s, k + 1, c)

RECURSIVE ReBad(_, _)
ReBad(s, k) ==
  IF k > Len(s) THEN FALSE
  ELSE IF k + 1 <= Len(s) /\ s[k + 1] = "-" THEN
         IF k + 2 > Len(s) THEN FALSE
         ELSE Ord(s[k + 2]) < Ord(s[k]) \/ ReBad(s, k + 3)
  ELSE ReBad(s, k + 1)

RECURSIVE ImplTok(_, _)
ImplTok(p, i) ==
  IF i > Len(p) THEN <<>>
  ELSE IF p[i] = "*" THEN                                              \* qnmatch.py 41-48
         IF i + 1 <= Len(p) /\ p[i + 1] = "*" THEN <<[t |-> "dstar"]>> \o ImplTok(p, i + 2)
         ELSE <<[t |-> "star"]>> \o ImplTok(p, i + 1)
  ELSE IF p[i] = "?" THEN <<[t |-> "any"]>> \o ImplTok(p, i + 1)       \* 49-50
  ELSE IF p[i] = "[" THEN                                              \* 51-71
         LET i1 == i + 1                                               \* `i` after the increment
             j1 == IF i1 <= Len(p) /\ p[i1] = "!" THEN i1 + 1 ELSE i1
             j2 == IF j1 <= Len(p) /\ p[j1] = "]" THEN j1 + 1 ELSE j1
             j  == FindClose(p, j2)                                    \* while j < n and pat[j] != ']'
         IN IF j = 0 THEN <<[t |-> "lit", ch |-> "["]>> \o ImplTok(p, i1)   \* res + '\\['
            ELSE LET stuff == SubSeq(p, i1, j - 1)
                     neg   == stuff[1] = "!"                           \* '^' + stuff[1:]
                     \* stuff[0] in ('^', '[') is escaped with a backslash: a literal first member
                     body  == IF neg THEN Tail(stuff) ELSE stuff
                 IN <<[t |-> "reset", neg |-> neg, b |-> body]>> \o ImplTok(p, j + 1)
  ELSE <<[t |-> "lit", ch |-> p[i]]>> \o ImplTok(p, i + 1)             \* re.escape(c)

ImplError(p) == LET ts == ImplTok(p, 1) IN \E k \in 1..Len(ts) : ts[k].t = "reset" /\ ReBad(ts[k].b, 1)
ImplMatch(nm, p) == M(ImplTok(p, 1), 1, nm, 1)

(***************************************************************************)
(* REFERENCE privacy.  A rule is [lv, pat]; `rules` is the list in the     *)
(* order the options were given.                                           *)
(***************************************************************************)
Levels == {"PUBLIC", "PRIVATE", "HIDDEN"}

RECURSIVE LastDot(_, _)
LastDot(nm, i) == IF i = 0 THEN 0 ELSE IF nm[i] = "." THEN i ELSE LastDot(nm, i - 1)
LastComponent(nm) == SubSeq(nm, LastDot(nm, Len(nm)) + 1, Len(nm))

StartsWith(s, pre) == Len(s) >= Len(pre) /\ SubSeq(s, 1, Len(pre)) = pre
EndsWith(s, suf)   == Len(s) >= Len(suf) /\ SubSeq(s, Len(s) - Len(suf) + 1, Len(s)) = suf

\* "names with a leading underscore that are not dunders are private, everything else public"
IsDunder(n) == Len(n) > 4 /\ StartsWith(n, <<"_", "_">>) /\ EndsWith(n, <<"_", "_">>)
\* n is the object's OWN name.  It is the last component of the qualified name except for the few objects whose
\* name has a dot in it (the builder calls the setter of property _v "_v.setter": qualified name a.c._v.setter).
DefaultPrivacyOwn(n) == IF StartsWith(n, <<"_">>) /\ ~IsDunder(n) THEN "PRIVATE" ELSE "PUBLIC"
DefaultPrivacy(nm) == DefaultPrivacyOwn(LastComponent(nm))

MaxOf(S) == CHOOSE x \in S : \A y \in S : y <= x

\* "a rule whose pattern equals the qualified name overrides any pattern rule,
\*  and among rules of the same sort the one given last wins"
PrivacyOfN(nm, own, rules) ==                    \* nm: qualified name, own: the object's own name
  LET exact == {i \in 1..Len(rules) : rules[i].pat = nm}
      patt  == {i \in 1..Len(rules) : QnMatch(nm, rules[i].pat)}
  IN IF exact # {} THEN rules[MaxOf(exact)].lv
     ELSE IF patt # {} THEN rules[MaxOf(patt)].lv
     ELSE DefaultPrivacyOwn(own)
PrivacyOf(nm, rules) == PrivacyOfN(nm, LastComponent(nm), rules)

\* "If a module/package/class is hidden, then all its members are hidden as well":
\* chain = the full names of the object and of all its containers
VisibleRef(chain, rules) == \A i \in 1..Len(chain) : PrivacyOf(chain[i], rules) # "HIDDEN"

(***************************************************************************)
(* TRANSCRIPTION of model.System.privacyClass without the cache            *)
(* (model.py 1134-1151): default, then the reversed list scanned for an    *)
(* equal string, then the reversed list scanned with qnmatch.              *)
(***************************************************************************)
ImplDefaultOwn(n) ==                                                   \* 1134-1137, on ob.name
    IF StartsWith(n, <<"_">>) /\ ~(StartsWith(n, <<"_", "_">>) /\ EndsWith(n, <<"_", "_">>))
    THEN "PRIVATE" ELSE "PUBLIC"

RECURSIVE ScanExact(_, _, _)
ScanExact(nm, rules, i) == IF i = 0 THEN "none"                        \* 1142-1146
                           ELSE IF rules[i].pat = nm THEN rules[i].lv ELSE ScanExact(nm, rules, i - 1)
RECURSIVE ScanMatch(_, _, _)
ScanMatch(nm, rules, i) == IF i = 0 THEN "none"                        \* 1147-1151
                           ELSE IF ImplMatch(nm, rules[i].pat) THEN rules[i].lv ELSE ScanMatch(nm, rules, i - 1)
ImplPrivacyN(nm, own, rules) ==
  LET e == ScanExact(nm, rules, Len(rules)) IN
    IF e # "none" THEN e
    ELSE LET m == ScanMatch(nm, rules, Len(rules)) IN IF m # "none" THEN m ELSE ImplDefaultOwn(own)
ImplPrivacy(nm, rules) == ImplPrivacyN(nm, LastComponent(nm), rules)
=============================================================================
