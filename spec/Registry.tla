------------------------------ MODULE Registry ------------------------------
(***************************************************************************)
(* pydoctor.model : the object tree and the name registry, as pure         *)
(* operators over a registry state record                                  *)
(*                                                                         *)
(*   st = [ objs  : Seq([cls, name, par, site, dmod])  object table, id = index *)
(*          cont  : Seq(name :> id)                Documentable.contents    *)
(*          ord   : Seq(Seq(name))                 insertion order of cont  *)
(*          all   : (qualified name) :> id         System.allobjects        *)
(*          alias : Seq(name :> qualified name)    _localNameToFullName_map *)
(*          aord  : Seq(Seq(name))                 insertion order of alias *)
(*          roots : Seq(id)                        System.rootobjects       *)
(*          crash : BOOLEAN ]                      an exception escaped     *)
(*                                                                         *)
(* A qualified name is a sequence of components; the component of a        *)
(* superseded duplicate is the string "name i" exactly as the code builds  *)
(* it.  cls is one of "Package" "Module" "Class" "Function" "Attribute".   *)
(*                                                                         *)
(* Mirrors: System.addObject (model.py:1171), handleDuplicate / _remove    *)
(* / _subtree (1375-1409), Documentable.reparent                           *)
(* (266-291), fullName, Module/Class._localNameToFullName (482, 794),      *)
(* Documentable.expandName / resolveName (326-352), System.find_object     *)
(* (1084-1111), Class.allbases / find (773-792).                           *)
(***************************************************************************)
EXTENDS Integers, Sequences, FiniteSets, TLC

NoObj == 0
Empty == [x \in {} |-> 0]
Put(f, k, v) == [x \in DOMAIN f \cup {k} |-> IF x = k THEN v ELSE f[x]]
Del(f, k) == [x \in DOMAIN f \ {k} |-> f[x]]
Rng(s) == {s[i] : i \in DOMAIN s}
IsModCls(c) == c \in {"Module", "Package"}
Scopes == {"Module", "Package", "Class"}       \* CanContainImportsDocumentable

EmptySt == [objs |-> <<>>, cont |-> <<>>, ord |-> <<>>, all |-> Empty, alias |-> <<>>, aord |-> <<>>, roots |-> <<>>, crash |-> FALSE]

\* a name component: [b |-> base name, d |-> 0] is the plain name, d = i + 1 is the string "name i"
P(n) == [b |-> n, d |-> 0]
DupName(n, i) == [b |-> n, d |-> i + 1]
\* System.allobjects is keyed by STRINGS: a name that contains a dot (astbuilder names the setter of property x "x.setter")
\* contributes several components to the key, so (C, "x.setter") and (C.x, "setter") are the same key.
\* DottedNames: name -> its dot-separated parts; empty unless a configuration overrides it.
DottedNames == [x \in {} |-> <<>>]
Parts(n) == IF n \in DOMAIN DottedNames THEN DottedNames[n] ELSE <<n>>
Comps(c) == LET ps == Parts(c.b) IN [i \in 1..Len(ps) |-> IF i = Len(ps) THEN [b |-> ps[i], d |-> c.d] ELSE P(ps[i])]
RECURSIVE FullNameIn(_, _)
FullNameIn(o, ob) == IF ob[o].par = NoObj THEN Comps(ob[o].name) ELSE FullNameIn(ob[o].par, ob) \o Comps(ob[o].name)
FN(st, o) == FullNameIn(o, st.objs)
Get(st, q) == IF q \in DOMAIN st.all THEN st.all[q] ELSE NoObj
Cls(st, o) == st.objs[o].cls

\* System._subtree(o): o itself and every registered object whose key lies below o's qualified name AND whose parent
\* chain leads to o - this includes the older definitions superseded by duplicates (not in `contents` any more) and
\* excludes objects that took over a name in o's namespace after a name clash
IsPrefixOf(a, b) == Len(a) <= Len(b) /\ SubSeq(b, 1, Len(a)) = a
RECURSIVE Below(_, _, _)
Below(x, o, objs) == objs[x].par # NoObj /\ (objs[x].par = o \/ Below(objs[x].par, o, objs))
SubIn(o, all, objs) == {o} \cup {all[k] : k \in {k \in DOMAIN all : Len(k) > Len(FullNameIn(o, objs)) /\ IsPrefixOf(FullNameIn(o, objs), k)
                                                                       /\ Below(all[k], o, objs)}}
Sub(st, o) == SubIn(o, st.all, st.objs)
\* System._unregister: the keys of these objects are removed unless another object has taken the name over
Unreg(all, objs, S) == [k \in {k \in DOMAIN all : ~(\E x \in S : FullNameIn(x, objs) = k /\ all[k] = x)} |-> all[k]]

OrdPut(s, n) == IF n \in Rng(s) THEN s ELSE Append(s, n)            \* dict: re-assigning keeps the position
OrdDel(s, n) == SelectSeq(s, LAMBDA x : x # n)

SetAlias(st, o, n, v) == [st EXCEPT !.alias[o] = Put(@, n, v), !.aord[o] = OrdPut(@, n)]

\* ---------------------------------------------------------------- System.addObject (+ handleDuplicate)
AddObj(st, cls, name, par, site) ==
  LET o     == Len(st.objs) + 1
      objs1 == Append(st.objs, [cls |-> cls, name |-> P(name), par |-> par, site |-> site, dmod |-> NoObj])
      cont0 == Append(st.cont, Empty)
      ord0  == Append(st.ord, <<>>)
      cont1 == IF par = NoObj THEN cont0 ELSE [cont0 EXCEPT ![par] = Put(@, name, o)]
      ord1  == IF par = NoObj THEN ord0 ELSE [ord0 EXCEPT ![par] = OrdPut(@, name)]
      roots1 == IF par = NoObj THEN Append(st.roots, o) ELSE st.roots
      alias1 == Append(st.alias, Empty)
      key   == FullNameIn(o, objs1)
      base  == [st EXCEPT !.objs = objs1, !.cont = cont1, !.ord = ord1, !.roots = roots1, !.alias = alias1, !.aord = Append(st.aord, <<>>)]
  IN IF key \notin DOMAIN st.all
       THEN [base EXCEPT !.all = Put(st.all, key, o)]
       ELSE \* handleDuplicate(obj): first free "name i", _remove(prev), rename prev, readd(prev), overwrite key
         \* (fullName + ' ' + str(i): the index goes on the last component of the KEY; the previous holder keeps its own
         \*  name + ' i' and, when it is not a sibling - dotted names -, loses the entry its parent still has for it)
         LET WithDup(i) == [key EXCEPT ![Len(key)].d = i + 1]
             i     == CHOOSE i \in 0..Len(st.objs) : WithDup(i) \notin DOMAIN st.all /\ \A j \in 0..(i-1) : WithDup(j) \in DOMAIN st.all
             prev  == st.all[key]
             pn    == objs1[prev].name.b
             pp    == objs1[prev].par
             sub   == SubIn(prev, st.all, objs1)
             objs2 == [objs1 EXCEPT ![prev].name = DupName(pn, i)]
             a1    == Unreg(st.all, objs1, sub)
             newk  == {FullNameIn(x, objs2) : x \in sub}
             a2    == [k \in DOMAIN a1 \cup newk |-> IF k \in newk THEN CHOOSE x \in sub : FullNameIn(x, objs2) = k ELSE a1[k]]
             stray == pp # NoObj /\ pp # par /\ pn \in DOMAIN cont1[pp] /\ cont1[pp][pn] = prev
             cont2 == IF stray THEN [cont1 EXCEPT ![pp] = Del(@, pn)] ELSE cont1
             ord2  == IF stray THEN [ord1 EXCEPT ![pp] = OrdDel(@, pn)] ELSE ord1
         IN [base EXCEPT !.objs = objs2, !.all = Put(a2, key, o), !.cont = cont2, !.ord = ord2]

\* Documentable.parentMod of an object that has not been moved: the nearest enclosing module
RECURSIVE ModOf(_, _)
ModOf(st, o) == IF o = NoObj THEN NoObj ELSE IF IsModCls(Cls(st, o)) THEN o ELSE ModOf(st, st.objs[o].par)

\* ---------------------------------------------------------------- Documentable.reparent(new_parent, new_name)
Reparent(st, ob, np, nn) ==
  LET sub   == Sub(st, ob)
      op    == st.objs[ob].par
      on    == st.objs[ob].name.b
      \* Documentable.definingMod: the module the object is moved out of the FIRST time (where its source is written)
      objs0 == [st.objs EXCEPT ![ob].par = np, ![ob].name = P(nn), ![ob].dmod = IF @ = NoObj THEN ModOf(st, ob) ELSE @]
      a0    == Unreg(st.all, st.objs, sub)
      key   == FullNameIn(ob, objs0)
      \* the name is in use in the new parent: the resident is superseded like by a redefinition (handleDuplicate)
      res   == IF key \in DOMAIN a0 /\ a0[key] # ob THEN a0[key] ELSE NoObj
      WithDup(i) == [key EXCEPT ![Len(key)].d = i + 1]
      di    == CHOOSE i \in 0..Len(st.objs) : WithDup(i) \notin DOMAIN a0 /\ \A j \in 0..(i-1) : WithDup(j) \in DOMAIN a0
      rsub  == IF res = NoObj THEN {} ELSE SubIn(res, a0, objs0)
      rn    == IF res = NoObj THEN nn ELSE objs0[res].name.b
      rp    == IF res = NoObj THEN NoObj ELSE objs0[res].par
      objs1 == IF res = NoObj THEN objs0 ELSE [objs0 EXCEPT ![res].name = DupName(rn, di)]
      a1    == IF res = NoObj THEN a0
               ELSE LET ar == Unreg(a0, objs0, rsub)
                        rk == {FullNameIn(x, objs1) : x \in rsub}
                    IN [k \in DOMAIN ar \cup rk |-> IF k \in rk THEN CHOOSE x \in rsub : FullNameIn(x, objs1) = k ELSE ar[k]]
      newk  == {FullNameIn(x, objs1) : x \in sub}
      all1  == [k \in DOMAIN a1 \cup newk |-> IF k \in newk THEN CHOOSE x \in sub : FullNameIn(x, objs1) = k ELSE a1[k]]
  IN IF \/ op = NoObj \/ Cls(st, op) \notin Scopes              \* assert isinstance(old_parent, CanContainImports..)
        \/ st.objs[ob].name.d # 0 \/ on \notin DOMAIN st.cont[op]  \* del old_parent.contents[old_name]: KeyError
       THEN [st EXCEPT !.crash = TRUE]
       ELSE LET cont0 == [st.cont EXCEPT ![op] = Del(@, on)]
                ord0  == [st.ord EXCEPT ![op] = OrdDel(@, on)]
                \* a superseded resident that is not a sibling (dotted names) loses the entry its parent has for it
                stray == res # NoObj /\ rp # NoObj /\ rp # np /\ rn \in DOMAIN cont0[rp] /\ cont0[rp][rn] = res
                cont1 == IF stray THEN [cont0 EXCEPT ![rp] = Del(@, rn)] ELSE cont0
                ord1  == IF stray THEN [ord0 EXCEPT ![rp] = OrdDel(@, rn)] ELSE ord0
                cont2 == [cont1 EXCEPT ![np] = Put(@, nn, ob)]
                ord2  == [ord1 EXCEPT ![np] = OrdPut(@, nn)]
            IN [st EXCEPT !.objs = objs1, !.all = all1, !.cont = cont2, !.ord = ord2,
                          !.alias = [st.alias EXCEPT ![op] = Put(@, on, FullNameIn(ob, objs1))],
                          !.aord = [st.aord EXCEPT ![op] = OrdPut(@, on)]]

\* ---------------------------------------------------------------- lookups
\* Class.allbases(include_self) over the bases known so far (bo: class id -> Seq of base ids, NoObj = unresolved)
RECURSIVE AllBases(_, _, _)
AllBases(c, bo, fuel) ==
  IF fuel = 0 THEN <<c>> ELSE
  LET bs == IF c \in DOMAIN bo THEN bo[c] ELSE <<>>
      RECURSIVE Cat(_)
      Cat(i) == IF i > Len(bs) THEN <<>> ELSE (IF bs[i] = NoObj THEN <<>> ELSE AllBases(bs[i], bo, fuel - 1)) \o Cat(i + 1)
  IN <<c>> \o Cat(1)
\* list(dict.fromkeys(seq)): each element once, at its first position (the fallback order of Class._init_mro)
RECURSIVE Uniq(_)
Uniq(q) == IF q = <<>> THEN <<>> ELSE <<Head(q)>> \o Uniq(SelectSeq(Tail(q), LAMBDA x : x # Head(q)))
\* Class.find(name): first hit along Class.mro()
\* lin: class id -> the sequence Class.mro() yields for it at this moment (allbases before post-processing, the MRO after)
FindIn(st, c, n, lin) ==
  LET seq == IF c \in DOMAIN lin THEN lin[c] ELSE <<c>>
      hits == {i \in 1..Len(seq) : n \in DOMAIN st.cont[seq[i]]}
  IN IF hits = {} THEN NoObj ELSE st.cont[seq[CHOOSE i \in hits : \A j \in hits : i <= j]][n]

\* the qualified name the body of the first class of lin[c] that binds n gives it (contents first, then the import / alias table)
BoundIn(st, c, n, lin) ==
  LET seq == IF c \in DOMAIN lin THEN lin[c] ELSE <<c>>
      hits == {i \in 1..Len(seq) : n \in DOMAIN st.cont[seq[i]] \/ n \in DOMAIN st.alias[seq[i]]}
  IN IF hits = {} THEN <<>>
     ELSE LET b == seq[CHOOSE i \in hits : \A j \in hits : i <= j]
          IN IF n \in DOMAIN st.cont[b] THEN FN(st, st.cont[b][n]) ELSE st.alias[b][n]

\* the scope enclosing the statement that defines o: its parent - or, for an object that a re-export has moved, the module it
\* is written in (what its body, annotations and docstring name are globals of THAT module)
Outer(st, o) == IF st.objs[o].dmod # NoObj THEN st.objs[o].dmod ELSE st.objs[o].par
\* Module/Class/Inheritable._localNameToFullName
RECURSIVE L2F(_, _, _)
L2F(st, o, n) ==
  IF Cls(st, o) \in Scopes
    THEN IF n \in DOMAIN st.cont[o] THEN FN(st, st.cont[o][n])
         ELSE IF n \in DOMAIN st.alias[o] THEN st.alias[o][n]
         ELSE IF Cls(st, o) = "Class" THEN L2F(st, Outer(st, o), n)
         ELSE <<P(n)>>
    ELSE L2F(st, Outer(st, o), n)

\* Documentable.expandName
RECURSIVE Exp(_, _, _, _, _)
Exp(st, o, parts, i, bo) ==
  LET p    == parts[i]
      \* an attribute of a class (i > 1) is looked up in the class and its bases, never in the scopes enclosing the class
      f0   == IF i # 1 /\ Cls(st, o) = "Class" /\ p \notin DOMAIN st.cont[o] /\ p \notin DOMAIN st.alias[o]
                THEN <<P(p)>> ELSE L2F(st, o, p)
      miss == f0 = <<P(p)>> /\ i # 1
      \* inherited: what the body of the first class along Class.mro() binds to the name - a definition, or an import / alias
      inh  == IF miss /\ Cls(st, o) = "Class" THEN BoundIn(st, o, p, bo) ELSE <<>>
      notfound == miss /\ (inh = <<>> \/ inh = <<P(p)>>)     \* (`import p` in a class body binds p to "p": still "no full name")
      full == IF notfound THEN Append(FN(st, o), P(p)) ELSE IF miss THEN inh ELSE f0
      rest == [j \in 1..(Len(parts) - i) |-> P(parts[i + j])]
      nxt  == Get(st, full)
  IN IF notfound \/ nxt = NoObj \/ i = Len(parts) THEN full \o rest
     ELSE Exp(st, nxt, parts, i + 1, bo)
ExpandName(st, o, parts, bo) == Exp(st, o, parts, 1, bo)

\* System.find_object(q): the object registered under q, else - the object may have been moved, an alias was left
\* at its original location - the root named q[1] expands the rest; NoObj for "external" and for LookupError
FindObject(st, q, bo) ==
  IF q \in DOMAIN st.all THEN st.all[q]
  ELSE LET rs == {i \in 1..Len(st.roots) : st.objs[st.roots[i]].name = q[1]}
       IN IF rs = {} \/ Len(q) < 2 THEN NoObj
          ELSE LET r == st.roots[CHOOSE i \in rs : \A j \in rs : i <= j]
               IN Get(st, ExpandName(st, r, [j \in 1..(Len(q) - 1) |-> q[j + 1].b], bo))
\* Documentable.resolveName: the expanded name looked up in the registry, falling back on find_object
ResolveName(st, o, parts, bo) == FindObject(st, ExpandName(st, o, parts, bo), bo)

\* C3 merge (mro.py / Python's type.mro): `bad` is the marker returned for an inconsistent hierarchy
RECURSIVE MergeM(_, _, _)
MergeM(seqs, fuel, bad) ==
  LET ne == SelectSeq(seqs, LAMBDA s : s # <<>>)
  IN IF ne = <<>> THEN <<>>
     ELSE IF fuel = 0 THEN <<bad>>
     ELSE LET good == {i \in 1..Len(ne) : \A j \in 1..Len(ne) : ne[i][1] \notin Rng(Tail(ne[j]))}
          IN IF good = {} THEN <<bad>>                                  \* inconsistent hierarchy
             ELSE LET h == ne[CHOOSE i \in good : \A j \in good : i <= j][1]
                      rest == [i \in 1..Len(ne) |-> SelectSeq(ne[i], LAMBDA x : x # h)]
                  IN <<h>> \o MergeM(rest, fuel - 1, bad)
Merge(seqs, fuel) == MergeM(seqs, fuel, 0)

\* ---------------------------------------------------------------- C02 : the registry invariants
Live(st) == 1..Len(st.objs)
\* removed duplicates of modules (System._remove without re-adding) are not part of the system any more
Registered(st, o) == \E k \in DOMAIN st.all : st.all[k] = o
\* "name i": the suffix handleDuplicate gives
HasDupSuffix(n) == n.d > 0
KeysAreCurrentNames(st) == \A k \in DOMAIN st.all : FN(st, st.all[k]) = k
OneKeyPerObject(st) == \A k1, k2 \in DOMAIN st.all : st.all[k1] = st.all[k2] => k1 = k2
EntryOfParent(st) == \A k \in DOMAIN st.all : LET o == st.all[k] p == st.objs[o].par n == st.objs[o].name IN
                        p # NoObj => \/ (n.d = 0 /\ n.b \in DOMAIN st.cont[p] /\ st.cont[p][n.b] = o)
                                     \/ HasDupSuffix(n)                      \* superseded older definition
ContentsPointBack(st) == \A p \in Live(st) : Registered(st, p) =>
                            \A n \in DOMAIN st.cont[p] : st.objs[st.cont[p][n]].par = p /\ st.objs[st.cont[p][n]].name = P(n)
ContentsRegistered(st) == \A p \in Live(st) : Registered(st, p) =>
                            \A n \in DOMAIN st.cont[p] : Registered(st, st.cont[p][n])
RECURSIVE RootOf(_, _)
RootOf(st, o) == IF st.objs[o].par = NoObj THEN o ELSE RootOf(st, st.objs[o].par)
ReachableFromRoot(st) == \A k \in DOMAIN st.all : RootOf(st, st.all[k]) \in Rng(st.roots)
                                                   /\ IsModCls(Cls(st, RootOf(st, st.all[k])))
KindFitsPlace(st) == \A k \in DOMAIN st.all : LET o == st.all[k] p == st.objs[o].par IN
     /\ (IsModCls(Cls(st, o)) /\ p # NoObj) => Cls(st, p) = "Package"
     /\ (~IsModCls(Cls(st, o))) => p # NoObj
     /\ (p # NoObj) => Cls(st, p) \in {"Package", "Module", "Class"}          \* functions / attributes have no children
\* the parent of a registered object is registered too (an older definition that lost its key would leave its members orphans)
ParentRegistered(st) == \A k \in DOMAIN st.all : LET p == st.objs[st.all[k]].par IN p # NoObj => Registered(st, p)
NoCrash(st) == ~st.crash
RegistryOK(st) == /\ NoCrash(st) /\ KeysAreCurrentNames(st) /\ OneKeyPerObject(st) /\ EntryOfParent(st)
                  /\ ContentsPointBack(st) /\ ContentsRegistered(st) /\ ReachableFromRoot(st) /\ KindFitsPlace(st)
                  /\ ParentRegistered(st)
FailedRegistryInvs(st) ==
     (IF NoCrash(st) THEN {} ELSE {"NoCrash"})
\cup (IF KeysAreCurrentNames(st) THEN {} ELSE {"KeysAreCurrentNames"})
\cup (IF OneKeyPerObject(st) THEN {} ELSE {"OneKeyPerObject"})
\cup (IF EntryOfParent(st) THEN {} ELSE {"EntryOfParent"})
\cup (IF ContentsPointBack(st) THEN {} ELSE {"ContentsPointBack"})
\cup (IF ContentsRegistered(st) THEN {} ELSE {"ContentsRegistered"})
\cup (IF ReachableFromRoot(st) THEN {} ELSE {"ReachableFromRoot"})
\cup (IF KindFitsPlace(st) THEN {} ELSE {"KindFitsPlace"})
\cup (IF ParentRegistered(st) THEN {} ELSE {"ParentRegistered"})
=============================================================================
