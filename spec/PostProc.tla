------------------------------ MODULE PostProc ------------------------------
(***************************************************************************)
(* The post-processing step (extensions.PriorityProcessor, reached through *)
(* ExtRegistrar.register_post_processor and System.postProcess): what runs *)
(* once no module is left to analyse - defaultPostProcess (MRO, subclass   *)
(* lists, constructors: priority 200), the zope.interface pass (no         *)
(* priority given: 100) and whatever an extension registers.               *)
(*                                                                         *)
(* The manual's reading (docstring of PriorityProcessor): the highest      *)
(* priority runs first, equal priorities run in the order of registration, *)
(* every registered callable runs once per pass.                           *)
(*                                                                         *)
(* The state is implementation-shaped: a registration is [p, c, q] with    *)
(* p the priority (None -> 100), c the counter the code puts in the sort   *)
(* key (it counts DOWN from 256 so that reversing the sorted list keeps    *)
(* registration order among equals), q what the callable does when it      *)
(* runs: 0 nothing, otherwise it registers one more callable with          *)
(* priority q (1: None) - a registration made DURING a pass, which the     *)
(* pass under way does not run (reversed() walks the list from its old     *)
(* end) and the next one does.  A second pass is announced by a warning    *)
(* when the one before ran anything.                                       *)
(*                                                                         *)
(* CodeOrder is what the code computes (sort on (p, c), reversed);         *)
(* Expected is the manual's reading, written without the counter.          *)
(***************************************************************************)
EXTENDS Integers, Sequences, FiniteSets, TLC, Json, SequencesExt

CONSTANTS MaxOps,        \* length of a history (registrations and passes)
          MaxApplies,    \* passes in a history
          Prios,         \* priorities a registration may name; 0 stands for None
          Spawns,        \* what a callable may do: 0 nothing, q > 0 register one more with priority q (1: None); a cfg file cannot hold -1
          PreKind,       \* what is registered before the history starts: "bare" nothing (a PriorityProcessor of its own), "system" what a System
                         \* registers for itself: defaultPostProcess 200, the zope.interface pass 100 (a cfg file cannot hold a tuple)
          CounterDown    \* TRUE: the code.  FALSE: a counter counting up (the variant the properties must reject)

Default == 100
Pre == IF PreKind = "system" THEN <<200, 100>> ELSE <<>>
Eff(p) == IF p = 0 THEN Default ELSE p
EffQ(q) == IF q = 1 THEN Default ELSE q
Key(n) == IF CounterDown THEN 256 - n ELSE 256 + n            \* the counter given to the n-th registration

VARIABLES regs,      \* the registrations, in order; the id of one is its index
          applied,   \* ids in the order the last pass ran them
          napplies, hist
vars == <<regs, applied, napplies, hist>>

Init == /\ regs = [i \in 1..Len(Pre) |-> [p |-> Pre[i], c |-> Key(i), q |-> 0]]
        /\ applied = <<>> /\ napplies = 0 /\ hist = <<>>

Ids(rs) == [i \in 1..Len(rs) |-> i]
Less(a, b) == a.p < b.p \/ (a.p = b.p /\ a.c < b.c)
CodeOrder(rs) == Reverse(SortSeq(Ids(rs), LAMBDA i, j : Less(rs[i], rs[j])))

RECURSIVE ByPrio(_, _)
ByPrio(rs, ps) == IF ps = {} THEN <<>>
                  ELSE LET m == CHOOSE x \in ps : \A y \in ps : y <= x
                       IN SelectSeq(Ids(rs), LAMBDA i : rs[i].p = m) \o ByPrio(rs, ps \ {m})
Expected(rs) == ByPrio(rs, {rs[i].p : i \in 1..Len(rs)})

Add == /\ Len(hist) < MaxOps
       /\ \E p \in Prios, q \in Spawns :
             /\ regs' = Append(regs, [p |-> Eff(p), c |-> Key(Len(regs) + 1), q |-> q])
             /\ hist' = Append(hist, [op |-> "add", p |-> p, q |-> q, order |-> <<>>, warned |-> FALSE])
             /\ UNCHANGED <<applied, napplies>>

Apply == /\ Len(hist) < MaxOps /\ napplies < MaxApplies
         /\ LET order == CodeOrder(regs)
                sp == SelectSeq(order, LAMBDA i : regs[i].q > 0)          \* the callables that register one more, as they run
                new == [j \in 1..Len(sp) |-> [p |-> EffQ(regs[sp[j]].q), c |-> Key(Len(regs) + j), q |-> 0]]
            IN /\ regs' = regs \o new
               /\ applied' = order
               /\ hist' = Append(hist, [op |-> "apply", p |-> 0, q |-> 0, order |-> order, warned |-> (applied # <<>>)])
         /\ napplies' = napplies + 1

Done == Len(hist) = MaxOps
Next == Add \/ Apply \/ (Done /\ UNCHANGED vars)
Spec == Init /\ [][Next]_vars

\* ------------------------------------------------------------------------------------------ properties
Ran == SubSeq(regs, 1, Len(applied))              \* the registrations the last pass saw (later ones were made during or after it)
\* what the code computes is the manual's reading
OrderIsExpected == applied # <<>> => applied = Expected(Ran)
\* every registration the pass saw ran exactly once
EachOnce == {applied[i] : i \in 1..Len(applied)} = 1..Len(applied)
\* the highest priority first
HighestFirst == \A i, j \in 1..Len(applied) : i < j => regs[applied[i]].p >= regs[applied[j]].p
\* equal priorities in the order of registration
FifoAmongEqual == \A i, j \in 1..Len(applied) : i < j /\ regs[applied[i]].p = regs[applied[j]].p => applied[i] < applied[j]
\* a later pass runs what an earlier one ran, in the same relative order
PassesAgree == [][applied # <<>> /\ applied' # applied => SelectSeq(applied', LAMBDA i : i <= Len(applied)) = applied]_vars
\* nothing registered is ever forgotten
NothingForgotten == [][IsPrefix(regs, regs')]_vars

Emit == Done => PrintT(ToJson([hist |-> hist]))
=============================================================================
