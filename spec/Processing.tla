---------------------------- MODULE Processing ----------------------------
(***************************************************************************)
(* The analysis of a project as a transition system:                       *)
(*   discover (System.addPackage, sorted traversal = the schedule)         *)
(*   -> process (System.process / processModule / getProcessedModule:      *)
(*      the unprocessed list is drained from its head, imports process     *)
(*      their target on demand, statement by statement)                    *)
(*   -> post-process (second base-resolution pass, MRO, subclasses).       *)
(*                                                                         *)
(* Mirrors model.py:1249-1291,1412-1465 and astbuilder.ModuleVistor        *)
(* visit_ImportFrom/_importNames/_importAll/_handleReExport/visit_Import/  *)
(* visit_ClassDef/_handleFunctionDef/_handleAssignment*, _handleAliasing,  *)
(* model.compute_mro.init_finalbaseobjects, mro.mro, defaultPostProcess.   *)
(*                                                                         *)
(* A project (from the harness, JSON) is                                   *)
(*   [mods : Seq([name, par, pkg, hasAll, all, allform, allsplit, ops, broken]), priv : Seq(name)] *)
(* with mods[i].par the index of the containing package (0 = root) and     *)
(* ops the flattened module body:                                          *)
(*   [k |-> "from",  lvl, m, orig, as]     from <lvl dots><m> import orig as as      *)
(*   [k |-> "star",  lvl, m]               from <lvl dots><m> import *               *)
(*   [k |-> "import", m, as]               import m [as as]  (as = "" : none)        *)
(*   [k |-> "class", n, bases] ... [k |-> "endclass"]                                *)
(*   [k |-> "def", n]   [k |-> "var", n]   [k |-> "alias", n, v]   (n = v.dotted)    *)
(* Init chooses the project and any ADMISSIBLE SCHEDULE: a package before  *)
(* its contents, each sub-tree contiguous, siblings and roots in any order *)
(* - the orders reachable by renaming modules / reordering the command     *)
(* line.                                                                   *)
(***************************************************************************)
EXTENDS PyBind, Linker, Json, IOUtils, SequencesExt

CONSTANTS Source              \* "file": projects from IOEnv.PROJECT_FILE
Projects == JsonDeserialize(IOEnv.PROJECT_FILE)

VARIABLES pid, sched, st, mobj, mstate, unproc, stack, classes, phase, log, post
vars == <<pid, sched, st, mobj, mstate, unproc, stack, classes, phase, log, post>>

Prj == Projects[pid]
NMods == Len(Prj.mods)
Mod(i) == Prj.mods[i]
Priv == Rng(Prj.priv)
SeqRange(s) == {s[i] : i \in 1..Len(s)}

\* ---------------------------------------------------------------- admissible schedules
Perms(S) == {f \in [1..Cardinality(S) -> S] : \A a, b \in 1..Cardinality(S) : a # b => f[a] # f[b]}
KidsOf(pr, m) == {i \in 1..Len(pr.mods) : pr.mods[i].par = m}
RECURSIVE Orders(_, _)
Orders(pr, m) ==
  LET RECURSIVE Cat(_, _)
      Cat(pm, i) == IF i > Len(pm) THEN {<<>>} ELSE {a \o b : a \in Orders(pr, pm[i]), b \in Cat(pm, i + 1)}
      tails == UNION {Cat(pm, 1) : pm \in Perms(KidsOf(pr, m))}
  IN IF m = 0 THEN tails ELSE {<<m>> \o t : t \in tails}

\* ---------------------------------------------------------------- discover: System.addPackage / analyzeModule
RECURSIVE Discover(_, _, _, _, _)
Discover(pr, sc, i, s, mo) ==       \* fold over the schedule; returns <<st, mobj>>
  IF i > Len(sc) THEN <<s, mo>>
  ELSE LET m == sc[i]
           par == IF pr.mods[m].par = 0 THEN NoObj ELSE mo[pr.mods[m].par]
           s1 == AddObj(s, IF pr.mods[m].pkg THEN "Package" ELSE "Module", pr.mods[m].name, par, [m |-> m, pc |-> 0])
       IN Discover(pr, sc, i + 1, s1, [mo EXCEPT ![m] = Len(s1.objs)])

Init == /\ pid \in 1..Len(Projects)
        /\ sched \in Orders(Projects[pid], 0)
        /\ LET d == Discover(Projects[pid], sched, 1, EmptySt, [i \in 1..Len(Projects[pid].mods) |-> NoObj])
           IN st = d[1] /\ mobj = d[2]
        /\ mstate = [i \in 1..Len(Projects[pid].mods) |-> "UNPROCESSED"]
        /\ unproc = sched
        /\ stack = <<>> /\ classes = Empty /\ phase = "process" /\ log = <<>> /\ post = Empty

Top == stack[Len(stack)]
Cur == Top.scope[Len(Top.scope)]                         \* builder.current
Ops(m) == Mod(m).ops
Op == Ops(Top.mod)[Top.pc]
InBody == phase = "process" /\ stack # <<>> /\ Top.pc <= Len(Ops(Top.mod)) /\ ~st.crash
Advance == stack' = [stack EXCEPT ![Len(stack)].pc = @ + 1]
RECURSIVE Lin(_, _, _)
Lin(c, fb, fuel) ==
  IF fuel = 0 THEN <<0>> ELSE
  LET bs == SelectSeq(IF c \in DOMAIN fb THEN fb[c] ELSE <<>>, LAMBDA x : x # NoObj)
  IN <<c>> \o Merge([i \in 1..Len(bs) |-> Lin(bs[i], fb, fuel - 1)] \o <<bs>>, 12)

InitBases == [c \in DOMAIN classes |-> classes[c].inito]   \* bases known so far (Class.baseobjects before post)
\* what Class.mro() yields while modules are still being analysed: the C3 linearisation of the bases known so far,
\* or the depth-first list(self.allbases(include_self=True)) when those cannot be linearised
BO == [c \in DOMAIN classes |-> LET l == Lin(c, InitBases, 8) IN IF 0 \in SeqRange(l) THEN AllBases(c, InitBases, 6) ELSE l]
\* ... and once post-processing has computed the linearisations
MO == [c \in DOMAIN post |-> post[c].mro]
ModIdx(o) == st.objs[o].site.m                           \* project module of a module object
IsMod(o) == o # NoObj /\ IsModCls(Cls(st, o))

\* ---------------------------------------------------------------- System.process : head of the list
Pick == /\ phase = "process" /\ stack = <<>> /\ unproc # <<>> /\ ~st.crash
        /\ LET m == Head(unproc) IN
             /\ unproc' = Tail(unproc)
             /\ mstate' = [mstate EXCEPT ![m] = IF Mod(m).broken THEN "PROCESSING" ELSE "PROCESSING"]
             /\ IF Mod(m).broken              \* parseFile reported an error: nothing to walk, stays PROCESSING
                  THEN stack' = stack /\ log' = Append(log, <<"broken", m>>)
                  ELSE stack' = <<[mod |-> m, pc |-> 1, scope |-> <<mobj[m]>>]>> /\ log' = Append(log, <<"start", m>>)
        /\ UNCHANGED <<st, mobj, classes, phase, post>>

\* ---------------------------------------------------------------- relative import arithmetic (visit_ImportFrom)
RECURSIVE Up(_, _)
Up(o, k) == IF k = 0 \/ o = NoObj THEN o ELSE Up(st.objs[o].par, k - 1)
\* the module name an ImportFrom refers to; <<>> when the level is too high
ImportTarget(lvl, m) ==
  IF lvl = 0 THEN [j \in 1..Len(m) |-> P(m[j])]
  ELSE LET cm == mobj[Top.mod]                                       \* ctx.parentMod
           l1 == IF Mod(Top.mod).pkg THEN lvl - 1 ELSE lvl            \* isinstance(ctx.module, Package): level -= 1
           p  == Up(cm, l1)
       IN IF p = NoObj THEN <<>> ELSE FN(st, p) \o [j \in 1..Len(m) |-> P(m[j])]

\* What pydoctor READS as __all__ (astbuilder.processModuleAST: findModuleLevelAssign + parseAll, before the module is walked):
\* the last statement of the module body of the form `__all__ = <list or tuple literal>`.  Mod(m).all is the value __all__ has
\* when the module is imported; Mod(m).allform says how the source writes it, allsplit how many names the first statement has
\* for the forms written in two parts.  An augmented assignment, .extend() / .append(), a concatenation or an assignment
\* nested in an `if` are not read.
ReadsAll(m) == Mod(m).hasAll /\ Mod(m).allform \notin {"concat", "conditional"}
AllRead(m) == IF Mod(m).allform \in {"augmented", "extend", "append"} THEN SubSeq(Mod(m).all, 1, Mod(m).allsplit) ELSE Mod(m).all
\* names a star import brings in: __all__ or the public names of contents then of the alias table, in dict order
StarNames(s, m) == LET mi == s.objs[m].site.m IN
                   IF ~Mod(mi).broken /\ mstate[mi] # "UNPROCESSED" /\ ReadsAll(mi) THEN AllRead(mi)
                   ELSE SelectSeq(s.ord[m] \o s.aord[m], LAMBDA x : x \notin Priv)
\* getProcessedModule(q) would process q now
NeedEnsure(q) == LET t == Get(st, q) IN IsMod(t) /\ mstate[ModIdx(t)] = "UNPROCESSED"
\* (a star import of a PACKAGE also analyses the sub-modules among the names it is about to bring in)
EnsureTargets == IF Op.k = "star"
                   THEN LET q == ImportTarget(Op.lvl, Op.m)
                            t == IF q = <<>> THEN NoObj ELSE Get(st, q)
                        IN <<q>> \o (IF IsMod(t) /\ Cls(st, t) = "Package" /\ mstate[ModIdx(t)] # "UNPROCESSED"
                                       THEN LET ns == StarNames(st, t) IN [i \in 1..Len(ns) |-> Append(q, P(ns[i]))] ELSE <<>>)
                 ELSE IF Op.k = "import" THEN <<[j \in 1..Len(Op.m) |-> P(Op.m[j])]>>      \* visit_Import looks at the module too
                 ELSE LET q == ImportTarget(Op.lvl, Op.m) IN
                      <<q>> \o (IF IsMod(Get(st, q)) /\ Cls(st, Get(st, q)) = "Package" THEN <<Append(q, P(Op.orig))>> ELSE <<>>)
FirstNeeded == LET ts == EnsureTargets
                   idx == {k \in 1..Len(ts) : ts[k] # <<>> /\ NeedEnsure(ts[k])}
               IN IF idx = {} THEN <<>> ELSE ts[CHOOSE k \in idx : \A j \in idx : k <= j]

\* getProcessedModule on an UNPROCESSED module: like the interpreter, the __init__ of its enclosing packages runs first
\* (outermost unprocessed one), then processModule(mod) right now, inside the import statement
RECURSIVE Outermost(_)
Outermost(t) == LET pp == Mod(t).par IN
                IF pp # 0 /\ mstate[pp] = "UNPROCESSED" THEN Outermost(pp) ELSE t
OnDemand == /\ InBody /\ Op.k \in {"from", "star", "import"} /\ FirstNeeded # <<>>
            /\ LET t == Outermost(ModIdx(Get(st, FirstNeeded))) IN
                 /\ unproc' = SelectSeq(unproc, LAMBDA x : x # t)
                 /\ mstate' = [mstate EXCEPT ![t] = "PROCESSING"]
                 /\ IF Mod(t).broken
                      THEN stack' = stack /\ log' = Append(log, <<"broken", t>>)
                      ELSE stack' = Append(stack, [mod |-> t, pc |-> 1, scope |-> <<mobj[t]>>]) /\ log' = Append(log, <<"start", t>>)
            /\ UNCHANGED <<st, mobj, classes, phase, post>>

\* ---------------------------------------------------------------- _handleReExport / alias binding of one name
CurExports(s) == IF IsModCls(Cls(s, Cur)) /\ ReadsAll(Top.mod) THEN SeqRange(AllRead(Top.mod)) ELSE {}
\* returns the new registry state
\* the object that `from <m> import orig as as` MOVES into the current module (NoObj: the name is only bound)
Moved(s, m, orig, as) ==
  LET isM == m # NoObj /\ IsModCls(Cls(s, m))
      ob  == IF ~isM THEN NoObj
             ELSE IF orig \in DOMAIN s.cont[m] THEN s.cont[m][orig] ELSE ResolveName(s, m, <<orig>>, BO)
      omi == IF isM THEN s.objs[m].site.m ELSE 0
      originListsIt == isM /\ mstate[omi] # "UNPROCESSED" /\ ~Mod(omi).broken /\ ReadsAll(omi) /\ orig \in SeqRange(AllRead(omi))
      RECURSIVE AncestorsOf(_)
      AncestorsOf(x) == IF x = NoObj THEN {} ELSE {x} \cup AncestorsOf(s.objs[x].par)
      \* an object is not moved into itself or one of its members, a root stays where it is, modules live in packages only
      movable == ob # NoObj /\ ob \notin AncestorsOf(Cur) /\ s.objs[ob].par # NoObj
                 /\ ~(IsModCls(Cls(s, ob)) /\ Cls(s, Cur) # "Package")
                 /\ IsModCls(Cls(s, s.objs[ob].par))                  \* an alias of a class member (run = K.run): the member stays
  IN IF isM /\ as \in CurExports(s) /\ movable /\ ~originListsIt THEN ob ELSE NoObj
BindOne(s, modq, m, orig, as, fallback) ==
  LET ob == Moved(s, m, orig, as)
  IN IF ob # NoObj THEN Reparent(s, ob, Cur, as)
     ELSE SetAlias(s, Cur, as, fallback)

\* a PACKAGE about to be moved is analysed where it was written, with every module it holds (their relative imports start from
\* there): the modules below it that are still waiting, outermost first
ParOf(o) == IF o = NoObj THEN NoObj ELSE st.objs[o].par
\* (packages nest at most five deep in the projects handed to this spec; no recursion here: TLC's coverage pass does not survive it)
LiesBelow(o, anc) == LET p1 == ParOf(o)  p2 == ParOf(p1)  p3 == ParOf(p2)  p4 == ParOf(p3)  p5 == ParOf(p4)
                     IN anc # NoObj /\ anc \in {p1, p2, p3, p4, p5}
WaitingBelow(ob) == {o \in DOMAIN st.objs : IsMod(o) /\ LiesBelow(o, ob) /\ mstate[ModIdx(o)] = "UNPROCESSED"}
MovedPackage == IF Op.k # "from" THEN NoObj
                ELSE LET q == ImportTarget(Op.lvl, Op.m)
                         ob == IF q = <<>> THEN NoObj ELSE Moved(st, Get(st, q), Op.orig, Op.as)
                     IN IF ob # NoObj /\ Cls(st, ob) = "Package" /\ WaitingBelow(ob) # {} THEN ob ELSE NoObj
BeforeMove == /\ InBody /\ Op.k = "from" /\ FirstNeeded = <<>> /\ MovedPackage # NoObj
              /\ LET w == WaitingBelow(MovedPackage)
                     \* the order of System._subtree: registration order of the objects
                     o == CHOOSE x \in w : \A y \in w : x <= y
                     t == Outermost(ModIdx(o)) IN
                   /\ unproc' = SelectSeq(unproc, LAMBDA x : x # t)
                   /\ mstate' = [mstate EXCEPT ![t] = "PROCESSING"]
                   /\ IF Mod(t).broken
                        THEN stack' = stack /\ log' = Append(log, <<"broken", t>>)
                        ELSE stack' = Append(stack, [mod |-> t, pc |-> 1, scope |-> <<mobj[t]>>]) /\ log' = Append(log, <<"start", t>>)
              /\ UNCHANGED <<st, mobj, classes, phase, post>>
ExecFrom == /\ InBody /\ Op.k = "from" /\ FirstNeeded = <<>> /\ MovedPackage = NoObj
            /\ LET q == ImportTarget(Op.lvl, Op.m) IN
                 IF q = <<>> THEN UNCHANGED st                         \* "relative import level too high"
                 ELSE st' = BindOne(st, q, Get(st, q), Op.orig, Op.as, Append(q, P(Op.orig)))
            /\ Advance /\ UNCHANGED <<mobj, mstate, unproc, classes, phase, log, post>>

RECURSIVE BindStar(_, _, _, _, _)
BindStar(s, q, m, names, i) ==
  IF i > Len(names) \/ s.crash THEN s
  ELSE BindStar(BindOne(s, q, m, names[i], names[i], ExpandName(s, m, <<names[i]>>, BO)), q, m, names, i + 1)
ExecStar == /\ InBody /\ Op.k = "star" /\ FirstNeeded = <<>>
            /\ LET q == ImportTarget(Op.lvl, Op.m)
                   m == IF q = <<>> THEN NoObj ELSE Get(st, q)
               IN IF ~IsMod(m) THEN UNCHANGED st                       \* "import * from unknown"
                  ELSE st' = BindStar(st, q, m, StarNames(st, m), 1)
            /\ Advance /\ UNCHANGED <<mobj, mstate, unproc, classes, phase, log, post>>

\* visit_Import: the imported module is analysed first (getProcessedModule); `import a.b.c` binds a -> a ;
\* `import a.b.c as x` binds x -> a.b.c
ExecImport == /\ InBody /\ Op.k = "import" /\ FirstNeeded = <<>>
              /\ st' = IF Op.as = "" THEN SetAlias(st, Cur, Op.m[1], <<P(Op.m[1])>>)
                       ELSE SetAlias(st, Cur, Op.as, [j \in 1..Len(Op.m) |-> P(Op.m[j])])
              /\ Advance /\ UNCHANGED <<mobj, mstate, unproc, classes, phase, log, post>>

\* visit_ClassDef: first-pass base resolution in the enclosing scope, then pushClass (addObject)
ExecClass == /\ InBody /\ Op.k = "class"
             /\ LET initb == [b \in 1..Len(Op.bases) |-> ExpandName(st, Cur, Op.bases[b], BO)]
                    inito == [b \in 1..Len(Op.bases) |->
                                 \* registered under the expanded name, else reached through the alias a re-export left behind
                                 LET r == FindObject(st, initb[b], BO) IN IF r # NoObj /\ Cls(st, r) = "Class" THEN r ELSE NoObj]
                    s1 == AddObj(st, "Class", Op.n, Cur, [m |-> Top.mod, pc |-> Top.pc])
                    o  == Len(s1.objs)
                IN /\ st' = s1
                   /\ classes' = Put(classes, o, [raw |-> Op.bases, scope |-> Cur, initb |-> initb, inito |-> inito])
                   /\ stack' = [stack EXCEPT ![Len(stack)].pc = @ + 1, ![Len(stack)].scope = Append(@, o)]
             /\ UNCHANGED <<mobj, mstate, unproc, phase, log, post>>
ExecEndClass == /\ InBody /\ Op.k = "endclass"
                /\ stack' = [stack EXCEPT ![Len(stack)].pc = @ + 1, ![Len(stack)].scope = SubSeq(@, 1, Len(@) - 1)]
                /\ UNCHANGED <<st, mobj, mstate, unproc, classes, phase, log, post>>
\* _handleFunctionDef: a new Function object (bodies are not walked for definitions)
ExecDef == /\ InBody /\ Op.k = "def"
           /\ st' = AddObj(st, "Function", Op.n, Cur, [m |-> Top.mod, pc |-> Top.pc])
           /\ Advance /\ UNCHANGED <<mobj, mstate, unproc, classes, phase, log, post>>
\* x = <literal> : _handleModuleVar / _handleClassVar reuse an existing entry, else addAttribute
ExecVar == /\ InBody /\ Op.k = "var"
           /\ LET inCls == Cls(st, Cur) = "Class"
                  found == IF inCls THEN FindIn(st, Cur, Op.n, BO) ELSE NoObj
                  maybeAttr == ~inCls \/ found = NoObj \/ Cls(st, found) = "Attribute"      \* _maybeAttribute
              IN st' = IF Op.n \in DOMAIN st.cont[Cur] \/ ~maybeAttr THEN st
                       ELSE AddObj(st, "Attribute", Op.n, Cur, [m |-> Top.mod, pc |-> Top.pc])
           /\ Advance /\ UNCHANGED <<mobj, mstate, unproc, classes, phase, log, post>>
\* a bare string statement (attribute docstring): no effect on the registry
ExecStr == /\ InBody /\ Op.k = "str"
           /\ Advance /\ UNCHANGED <<st, mobj, mstate, unproc, classes, phase, log, post>>
\* def __init__(self): self.n = <value>  : a Function __init__, then _handleInstanceVar adds the attribute to the class
ExecIvar == /\ InBody /\ Op.k = "ivar"
            /\ LET s1 == AddObj(st, "Function", "__init__", Cur, [m |-> Top.mod, pc |-> Top.pc])
                   found == FindIn(s1, Cur, Op.n, BO)
                   maybeAttr == found = NoObj \/ Cls(s1, found) = "Attribute"
               IN st' = IF Op.n \in DOMAIN s1.cont[Cur] \/ ~maybeAttr THEN s1
                        ELSE AddObj(s1, "Attribute", Op.n, Cur, [m |-> Top.mod, pc |-> 0 - Top.pc])
            /\ Advance /\ UNCHANGED <<mobj, mstate, unproc, classes, phase, log, post>>
\* x = a.b : _handleAliasing when x is not yet in contents (expandName always yields a string)
ExecAlias == /\ InBody /\ Op.k = "alias"
             /\ st' = IF Op.n \in DOMAIN st.cont[Cur] THEN st
                      ELSE SetAlias(st, Cur, Op.n, ExpandName(st, Cur, Op.v, BO))
             /\ Advance /\ UNCHANGED <<mobj, mstate, unproc, classes, phase, log, post>>

FinishMod == /\ phase = "process" /\ stack # <<>> /\ Top.pc > Len(Ops(Top.mod)) /\ ~st.crash
             /\ mstate' = [mstate EXCEPT ![Top.mod] = "PROCESSED"]
             /\ stack' = SubSeq(stack, 1, Len(stack) - 1)
             /\ log' = Append(log, <<"finish", Top.mod>>)
             /\ UNCHANGED <<st, mobj, unproc, classes, phase, post>>

\* ---------------------------------------------------------------- post-processing
\* second pass: only bases that were None are re-resolved (model.compute_mro.init_finalbaseobjects): first the name as
\* expanded when the class statement was visited (it still designates the base when that object was moved since, or when
\* the raw name was bound to something else afterwards - class H(H)), then the raw name in the class's parent scope; the
\* class itself is never its own base
FinalBases(c) == [b \in 1..Len(classes[c].raw) |->
                    IF classes[c].inito[b] # NoObj THEN classes[c].inito[b]
                    ELSE LET r1 == FindObject(st, classes[c].initb[b], BO)
                             r2 == IF r1 # NoObj /\ Cls(st, r1) = "Class" /\ r1 # c THEN r1
                                   ELSE ResolveName(st, Outer(st, c), classes[c].raw[b], BO)
                         IN IF r2 # NoObj /\ Cls(st, r2) = "Class" /\ r2 # c THEN r2 ELSE NoObj]
PostProcess == /\ phase = "process" /\ stack = <<>> /\ unproc = <<>> /\ ~st.crash
               /\ LET fb == [c \in DOMAIN classes |-> FinalBases(c)] IN
                    \* Class._init_mro: an inconsistent hierarchy (ValueError) falls back on allbases(include_self), each class once
                    post' = [c \in DOMAIN classes |-> [final |-> fb[c],
                                 mro |-> LET l == Lin(c, fb, 8) IN IF 0 \in SeqRange(l) THEN Uniq(AllBases(c, fb, 8)) ELSE l,
                                 consistent |-> 0 \notin SeqRange(Lin(c, fb, 8))]]
               /\ phase' = "done"
               /\ UNCHANGED <<st, mobj, mstate, unproc, stack, classes, log>>
Crashed == /\ phase = "process" /\ st.crash
           /\ phase' = "crashed"
           /\ UNCHANGED <<st, mobj, mstate, unproc, stack, classes, log, post>>

Next == /\ \/ Pick \/ OnDemand \/ BeforeMove \/ ExecFrom \/ ExecStar \/ ExecImport \/ ExecClass \/ ExecEndClass
           \/ ExecDef \/ ExecVar \/ ExecAlias \/ ExecStr \/ ExecIvar \/ FinishMod \/ PostProcess \/ Crashed
        /\ UNCHANGED <<pid, sched>>
Spec == Init /\ [][Next]_vars /\ WF_vars(Next)

\* ------------------------------------------------------------------ properties
Done == phase \in {"done", "crashed"}
\* C01 (design level): the module list drains, whatever the imports do
Drains == <>(Done)
NoModuleLeftBehind == phase = "done" => \A i \in 1..NMods : mstate[i] # "UNPROCESSED"
\* C02: the registry invariants hold after EVERY step of every analysis (evaluated by TLC in every state)
RegistryInv == RegistryOK(st)
\* C07 (design level): every base written in source resolves to a class
BasesResolve == phase = "done" => \A c \in DOMAIN post : \A b \in 1..Len(post[c].final) : post[c].final[b] # NoObj

\* ------------------------------------------------------------------ emission (spec -> code)
NameOf(o) == FN(st, o)
KeyRec(k) == LET o == st.all[k] IN
   [k |-> k, cls |-> Cls(st, o), site |-> st.objs[o].site,
    bases |-> IF o \in DOMAIN post THEN [b \in 1..Len(post[o].final) |-> IF post[o].final[b] = NoObj THEN <<>> ELSE NameOf(post[o].final[b])] ELSE <<>>,
    mro |-> IF o \in DOMAIN post THEN [i \in 1..Len(post[o].mro) |-> IF post[o].mro[i] = 0 THEN <<>> ELSE NameOf(post[o].mro[i])] ELSE <<>>]
Dump == LET ks == SetToSeq(DOMAIN st.all) IN [i \in 1..Len(ks) |-> KeyRec(ks[i])]
AliasDump == [o \in 1..Len(st.objs) |-> [n |-> NameOf(o), a |-> LET ns == SetToSeq(DOMAIN st.alias[o]) IN [i \in 1..Len(ns) |-> <<ns[i], st.alias[o][ns[i]]>>]]]
EmitDone == Done => PrintT(ToJson([pid |-> pid, sched |-> sched, phase |-> phase, keys |-> Dump, alias |-> AliasDump,
                                   log |-> log, failed |-> SetToSeq(FailedRegistryInvs(st)),
                                   mstate |-> mstate]))

\* ------------------------------------------------------------------ C04 : names resolve to what Python binds, or not at all
\* entry orders: how the project is imported.  Acyclic projects: any order binds the same (one order is evaluated); projects
\* with import cycles: the harness lists the orders to consider (Prj.entries), those in which the interpreter raises are not
\* ways to import the project (PBs[e].err)
EntryOrders == IF "entries" \in DOMAIN Prj THEN Prj.entries ELSE <<[i \in 1..NMods |-> i]>>
PBs == [e \in 1..Len(EntryOrders) |-> PyBindOrder(Prj, EntryOrders[e])]
\* (a single order, i.e. an acyclic project, is always kept: the generated acyclic projects are importable)
ValidEntries == IF Len(EntryOrders) = 1 THEN {1} ELSE {e \in 1..Len(EntryOrders) : ~PBs[e].err}
SiteObjs(i, pc) == {o \in 1..Len(st.objs) : st.objs[o].site = [m |-> i, pc |-> pc] /\ Registered(st, o)}
ObjAt(i, pc) == LET c == SiteObjs(i, pc) IN IF c = {} THEN NoObj ELSE CHOOSE o \in c : \A o2 \in c : st.objs[o].name.d <= st.objs[o2].name.d
SiteOfObj(o) == IF o = NoObj THEN <<>> ELSE <<st.objs[o].site.m, st.objs[o].site.pc>>
RowG(e, key, parts, v, g) == [e |-> e, scope |-> key, name |-> parts, py |-> <<v.i, v.pc>>, g |-> g,
                          res |-> IF ObjAt(key[1], key[2]) = NoObj THEN <<>>
                                  ELSE SiteOfObj(ResolveName(st, ObjAt(key[1], key[2]), parts, MO))]
Row(e, key, parts, v) == RowG(e, key, parts, v, FALSE)       \* g: the name is a module global read from inside a class
RowsOf(e, PB) == UNION {
   {Row(e, key, <<n>>, PB.ns[key][n]) : n \in DOMAIN PB.ns[key]}
   \cup UNION {{Row(e, key, <<n, a>>, PB.ns[ModKey(PB.ns[key][n].i)][a]) : a \in DOMAIN NsOf(PB, ModKey(PB.ns[key][n].i))}
               : n \in {x \in DOMAIN PB.ns[key] : PB.ns[key][x].t = "mod"}}
   \cup UNION {UNION {{Row(e, key, <<n, a, b>>, PB.ns[ModKey(PB.ns[ModKey(PB.ns[key][n].i)][a].i)][b])
                         : b \in DOMAIN NsOf(PB, ModKey(PB.ns[ModKey(PB.ns[key][n].i)][a].i))}
                      : a \in {y \in DOMAIN NsOf(PB, ModKey(PB.ns[key][n].i)) : PB.ns[ModKey(PB.ns[key][n].i)][y].t = "mod"}}
               : n \in {x \in DOMAIN PB.ns[key] : PB.ns[key][x].t = "mod"}}
   \* names reached through a class value: C.member for every member bound in C or inherited along Python's MRO
   \cup UNION {UNION {{Row(e, key, <<n, a>>, Attr(PB, PB.ns[key][n], a, 8))
                         : a \in DOMAIN NsOf(PB, <<PyMro(PB, PB.ns[key][n], 8)[k].i, PyMro(PB, PB.ns[key][n], 8)[k].pc>>)}
                      : k \in {j \in 1..Len(PyMro(PB, PB.ns[key][n], 8)) : PyMro(PB, PB.ns[key][n], 8)[j].t = "obj"}}
               : n \in {x \in DOMAIN PB.ns[key] : IsClassVal(PB, PB.ns[key][x])}}
   \* a bare name read inside a class (annotations, bases of nested classes, docstrings) that the class body does not bind is a
   \* global of the module the class statement is WRITTEN in (Python never looks in enclosing classes, nor - for a class that a
   \* re-export moved - in the module it is documented in now)
   \cup (IF key[2] # 0 THEN {RowG(e, key, <<n>>, PB.ns[ModKey(key[1])][n], TRUE) : n \in DOMAIN NsOf(PB, ModKey(key[1])) \ DOMAIN PB.ns[key]} ELSE {})
   : key \in DOMAIN PB.ns}
NameRows == UNION {RowsOf(e, PBs[e]) : e \in ValidEntries}
\* a name resolves to what it denotes under SOME way of importing the project, or not at all
ResolvesRightOrNot == phase = "done" => \A r \in NameRows : r.res = <<>> \/ \E r2 \in NameRows : r2.scope = r.scope /\ r2.name = r.name /\ r2.py = r.res
EmitNames == phase = "done" => PrintT(ToJson([pid |-> pid, sched |-> sched, rows |-> SetToSeq(NameRows)]))

\* ------------------------------------------------------------------ cross-references in docstrings (Linker.tla)
\* contexts: every registered module, package and class; identifiers: every base name in the
\* system, every alias name, every "owner.member" pair, every registered full name of two or three plain components
\* (a function or attribute has no members and expands names in its parent: its rows equal its parent's, so scopes suffice)
XCtx == {o \in 1..Len(st.objs) : Registered(st, o) /\ Cls(st, o) \in Scopes}
XReg == {o \in 1..Len(st.objs) : Registered(st, o)}
XNames == {<<st.objs[o].name.b>> : o \in XReg}
          \cup UNION {{<<n>> : n \in DOMAIN st.alias[p]} : p \in XReg}
          \cup UNION {{<<st.objs[p].name.b, n>> : n \in DOMAIN st.cont[p]} : p \in XReg}
          \cup {[i \in 1..Len(k) |-> k[i].b] : k \in {k \in DOMAIN st.all : Len(k) \in 2..3 /\ \A i \in 1..Len(k) : k[i].d = 0}}
XRow(o, parts) == LET x == XRef(st, o, parts, MO)
                  IN [ctx |-> FN(st, o), name |-> parts, t |-> IF x.t = NoObj THEN <<>> ELSE FN(st, x.t), amb |-> x.amb, step |-> x.step]
XRefRows == {XRow(o, parts) : o \in XCtx, parts \in XNames}
XRefDesign == phase = "done" => \A o \in XCtx, parts \in XNames :
                 FullNameWins(st, o, parts, MO) /\ LocalFirst(st, o, parts, MO) /\ AnswerRegistered(st, o, parts, MO)
EmitNamesX == phase = "done" => PrintT(ToJson([pid |-> pid, sched |-> sched, rows |-> SetToSeq(NameRows), xrefs |-> SetToSeq(XRefRows),
                                                invalid |-> SetToSeq({e \in 1..Len(EntryOrders) : PBs[e].err})]))
=============================================================================
