--------------------------- MODULE RegistryTrace ---------------------------
(***************************************************************************)
(* code -> spec: validation of registry traces recorded from REAL builds   *)
(* (run-time wrappers around System.addObject / Documentable.reparent,     *)
(* full projected registry logged after every action) against the          *)
(* operators of Registry.tla.                                              *)
(*                                                                         *)
(* A trace is accepted when every logged action is exactly the spec's      *)
(* AddObj / Reparent applied to the previous state (compared on objs, cont,*)
(* all, roots).  The C02 invariants are evaluated by TLC on every OBSERVED *)
(* state; violations are collected in a register and printed.              *)
(* Batch validation: tid ranges over the traces of the file.               *)
(***************************************************************************)
EXTENDS Registry, Json, IOUtils, SequencesExt

Traces == JsonDeserialize(IOEnv.TRACE_FILE)
\* names with dots in them that occur in the traces -> their parts (written by the harness; cfg: DottedNames <- TraceDotted)
\* (read once into register 4: a definition substituted by the configuration is re-evaluated at every use)
TraceDotted == TLCGet(4)
ASSUME TLCSet(1, {}) /\ TLCSet(2, {}) /\ TLCSet(3, {}) /\ TLCSet(4, JsonDeserialize(IOEnv.DOTTED_FILE))

VARIABLES tid, l, st
vars == <<tid, l, st>>

Ev(t, i) == Traces[t].ev[i]

\* the logged projection -> the comparable part of a registry state
ObsObjs(s) == [i \in 1..Len(s.objs) |-> [cls |-> s.objs[i].cls, name |-> s.objs[i].nm, par |-> s.objs[i].par]]
ObsCont(s) == [i \in 1..Len(s.cont) |-> {<<s.cont[i][j][1], s.cont[i][j][2]>> : j \in 1..Len(s.cont[i])}]
ObsAll(s)  == {<<s.all[j][1], s.all[j][2]>> : j \in 1..Len(s.all)}
SpecObjs(x) == [i \in 1..Len(x.objs) |-> [cls |-> x.objs[i].cls, name |-> x.objs[i].name, par |-> x.objs[i].par]]
SpecCont(x) == [i \in 1..Len(x.cont) |-> {<<n, x.cont[i][n]>> : n \in DOMAIN x.cont[i]}]
SpecAll(x)  == {<<k, x.all[k]>> : k \in DOMAIN x.all}
Matches(x, s) == /\ SpecObjs(x) = ObsObjs(s)
                 /\ SpecCont(x) = ObsCont(s)
                 /\ SpecAll(x) = ObsAll(s)
                 /\ x.roots = s.roots

\* an observed state as a registry record (for the invariants)
FromObs(s) == [objs |-> [i \in 1..Len(s.objs) |-> [cls |-> s.objs[i].cls, name |-> s.objs[i].nm, par |-> s.objs[i].par, site |-> 0]],
               cont |-> [i \in 1..Len(s.cont) |-> [n \in {s.cont[i][j][1] : j \in 1..Len(s.cont[i])} |->
                                                     (CHOOSE j \in 1..Len(s.cont[i]) : s.cont[i][j][1] = n) ]],
               ord |-> <<>>, aord |-> <<>>, alias |-> <<>>,
               all |-> [k \in {s.all[j][1] : j \in 1..Len(s.all)} |-> s.all[CHOOSE j \in 1..Len(s.all) : s.all[j][1] = k][2]],
               roots |-> s.roots, crash |-> FALSE]
\* (cont above maps name -> index j; fix it to map name -> object id)
FromObs2(s) == LET r == FromObs(s) IN
   [r EXCEPT !.cont = [i \in 1..Len(s.cont) |-> [n \in DOMAIN r.cont[i] |-> s.cont[i][r.cont[i][n]][2]]]]

Init == tid \in 1..Len(Traces) /\ l = 0 /\ st = EmptySt

Step == /\ l < Len(Traces[tid].ev)
        /\ LET e == Ev(tid, l + 1)
               x == IF e.a = "AddObject"
                      THEN LET ob == e.s.objs[e.o] IN AddObj(st, ob.cls, e.nm, ob.par, 0)
                      ELSE Reparent(st, e.o, e.m, e.n)
           IN /\ (e.exc # "") = x.crash
              /\ (~x.crash) => Matches(x, e.s)
              /\ st' = x
        /\ l' = l + 1 /\ UNCHANGED tid
Next == Step
Spec == Init /\ [][Next]_vars

\* ---- verdict registers: 1 = accepted traces, 2 = <<tid, event, failed invariants>> on observed states
Monitor == /\ (l > 0 /\ Ev(tid, l).exc = "" /\ FailedRegistryInvs(FromObs2(Ev(tid, l).s)) # {})
                => TLCSet(2, TLCGet(2) \cup {<<tid, l, FailedRegistryInvs(FromObs2(Ev(tid, l).s))>>})
           /\ (l = Len(Traces[tid].ev)) => TLCSet(1, TLCGet(1) \cup {tid})
           /\ TLCSet(3, TLCGet(3) \cup {<<tid, l>>})
Post == /\ PrintT(ToJson([accepted |-> SetToSeq(TLCGet(1)),
                          violations |-> SetToSeq({[tid |-> v[1], ev |-> v[2], failed |-> SetToSeq(v[3])] : v \in TLCGet(2)}),
                          progress |-> SetToSeq({[tid |-> t, l |-> CHOOSE m \in {p[2] : p \in {q \in TLCGet(3) : q[1] = t}} :
                                                        \A p \in {q \in TLCGet(3) : q[1] = t} : p[2] <= m] : t \in {p[1] : p \in TLCGet(3)}})]))
=============================================================================
