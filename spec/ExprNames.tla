------------------------------ MODULE ExprNames ------------------------------
(***************************************************************************)
(* Property C15, names: what is displayed for a name is the spelling that  *)
(* was written.  One module refers to the SAME class under two spellings   *)
(* (`Base`, imported directly, and `base.Base`, through its module) at     *)
(* three sites: the annotations of a function, the annotation and default  *)
(* of another function, the bases of a class.  The pieces are rendered one *)
(* after the other (templatewriter.pages.format_signature /                *)
(* format_class_signature), all through the ONE docstring linker of the    *)
(* module (linker._EpydocLinker.link_to -> taglink(target, page_url,       *)
(* label)): a link is built for each call from the label it is given and   *)
(* keeps nothing of earlier calls, so the order of rendering cannot matter.*)
(*                                                                         *)
(* A configuration = the spelling used at each site + the order in which   *)
(* the sites are rendered.  Action Render appends what the site shows.     *)
(***************************************************************************)
EXTENDS Naturals, Sequences, FiniteSets, TLC, Json

Sites     == {"f", "g", "B"}          \* def f(x: S) -> S;  def g(y: S = S.DEFAULT);  class B(S)
Spellings == {"short", "dotted"}      \* Base | base.Base
Orders    == {<<"f", "g", "B">>, <<"f", "B", "g">>, <<"g", "f", "B">>, <<"g", "B", "f">>, <<"B", "f", "g">>, <<"B", "g", "f">>}

CONSTANT Mode        \* "spell" (above) | "bases"

\* ---- Mode "bases": the list of bases of `class Handler(...)` (pages.format_class_signature :68-: the written bases,
\* Class.rawbases, are paired with what they resolve to, Class.baseobjects - one entry per written base, None when
\* nothing is found - so the two lists have the same length and every base written is shown).  Kinds of bases:
\*   own     a third-party class imported under the very name of the class being defined
\*           (from thirdparty.handlers import Handler; class Handler(Handler, ...))
\*   local / mixin   classes of the project      foreign   another third-party name
BaseKinds == {"own", "local", "mixin", "foreign"}
RECURSIVE Perms(_, _)
Perms(S, k) == IF k = 0 THEN {<<>>} ELSE {Append(p, x) : p \in Perms(S, k - 1), x \in S}
BaseLists == {p \in UNION {Perms(BaseKinds, k) : k \in 1..3} : \A i, j \in DOMAIN p : i # j => p[i] # p[j]}

VARIABLES spell, order, li, shown
vars == <<spell, order, li, shown>>
Init == \/ /\ Mode = "spell" /\ spell \in [Sites -> Spellings] /\ order \in Orders /\ li = 1 /\ shown = <<>>
        \* "bases": order = the bases as written, shown = the bases displayed (one rendering, done at once)
        \/ /\ Mode = "bases" /\ spell = <<>> /\ order \in BaseLists /\ li = 4 /\ shown = order
\* link_to(identifier, label): the tag is made from this call's label
Render == /\ Mode = "spell" /\ li <= Len(order) /\ li' = li + 1
          /\ shown' = Append(shown, [site |-> order[li], as |-> spell[order[li]]])
          /\ UNCHANGED <<spell, order>>
Next == Render
Spec == Init /\ [][Next]_vars

Done == li > Len(order)
\* every site shows the spelling written at that site, whatever was rendered before it
ShownAsWritten == IF Mode = "bases" THEN shown = order
                  ELSE \A i \in DOMAIN shown : shown[i].as = spell[shown[i].site]
Emit == Done => PrintT(ToJson([spell |-> spell, order |-> order, shown |-> shown]))
=============================================================================
