-------------------------------- MODULE MRO --------------------------------
(***************************************************************************)
(* Property C05: inheritance is computed as Python computes it.            *)
(*                                                                         *)
(* REFERENCE (written from the property statement / Python's semantics):   *)
(*   C3(c)            the C3 linearisation (Python's __mro__), Bad when    *)
(*                    Python rejects the hierarchy                         *)
(*   RefFind, RefSources, RefDocOwner : attribute lookup along C3          *)
(*   order laws HeadIsSelf / EachAncestorOnce / LocalPrecedence / Monotonic*)
(*                                                                         *)
(* MODEL of what pydoctor does (transcriptions, file:line in comments):    *)
(*   PdMergeLoop, PdMro     pydoctor/mro.py  _merge / mro, DependencyList  *)
(*   Dfs / DfsKids          model.compute_mro.init_finalbaseobjects (second*)
(*                          pass of base resolution, `path` cycle check)   *)
(*   AllBases               model.Class.allbases (fallback of _init_mro)   *)
(*   InitMro                model.Class._init_mro, one action PostStep per *)
(*                          class in the order of defaultPostProcess       *)
(*   FindAlong, SourcesAlong, DocAlong : Class.find, Inheritable.docsources*)
(*                          model.get_docstring                            *)
(*                                                                         *)
(* A hierarchy is: classes 1..n, bases[c] a sequence of classes, born[c]   *)
(* the rank at which pydoctor creates the Class object (a base is resolved *)
(* in the FIRST pass iff the base was born before the class,               *)
(* astbuilder.py:243-250), member[c] the state of one member `f` in c.     *)
(*                                                                         *)
(* Source = "enum"    every hierarchy with bases[i] a repetition-free      *)
(*                    sequence over 1..i-1 (input builder AddClass)        *)
(*          "members" the same, then every placement of the member         *)
(*          "late"    the same with one class per module, the modules added  *)
(*                    in every order and at most one TYPE_CHECKING import  *)
(*                    closing an import cycle: bases resolved only in the  *)
(*                    second pass, early lookups before they are known     *)
(*          "zope"    member placements x every set of classes declared      *)
(*                    @implementer of an interface documenting the member  *)
(*          "split"   5 classes in two modules importing each other: the   *)
(*                    last class is post-processed before some of its bases*)
(*          "graph"   every base graph over MaxN classes incl. cycles (one  *)
(*                    class per module, plain `import`): conformance of the*)
(*                    cycle fallback; Python rejects these programs        *)
(*          "file"    cases written by the harness (random larger ones)    *)
(***************************************************************************)
EXTENDS Naturals, Sequences, FiniteSets, TLC, Json, IOUtils

CONSTANTS MaxN, Source, DocStates,
          SplitSample,   \* "all" | "quick": Source = "split" enumerates every case / a fixed stratified third of the cases
                         \* with at least two second-pass bases
          LateBacks,     \* "upto1" | "two": how many TYPE_CHECKING imports Source = "late" places (none or one / exactly two)
          LateOrders,    \* "all" | "two": module orders enumerated by Source = "late" (every order / as written and reversed)
          EarlyOrder     \* "allbases" | "c3": what Class.mro() answers BEFORE post-processing (see EarlyMro)

Bad    == <<0>>        \* Python: TypeError "Cannot create a consistent method resolution order"
Cyclic == <<0, 0>>     \* not a Python program at all (a class cannot be its own ancestor)

Range(s) == {s[i] : i \in 1..Len(s)}
Inj(s) == \A i, j \in 1..Len(s) : i # j => s[i] # s[j]
PermSeqs(S) == UNION {{s \in [1..k -> S] : Inj(s)} : k \in 0..Cardinality(S)}
Min(S) == CHOOSE x \in S : \A y \in S : x <= y
RECURSIVE Flatten(_)
Flatten(ss) == IF Len(ss) = 0 THEN <<>> ELSE Head(ss) \o Flatten(Tail(ss))
PosIn(s, x) == Min({i \in 1..Len(s) : s[i] = x})

FileCases == IF Source = "file" THEN JsonDeserialize(IOEnv.CASE_FILE) ELSE <<>>

VARIABLES cid, n, bases, born, member, phase, fin, k, mro, warn,
          lay      \* one class per module: [order |-> modules as added to the system, back |-> sequence of <<c, x>>: module c
                   \* imports module x under `if TYPE_CHECKING:` before anything else (in this order within one module)]
vars == <<cid, n, bases, born, member, phase, fin, k, mro, warn, lay>>

\* ===================================================================== REFERENCE
InTail(x, l) == \E i \in 2..Len(l) : l[i] = x
NonEmpty(ls) == SelectSeq(ls, LAMBDA l : Len(l) > 0)
\* indices of lists whose first element appears in no tail
GoodHeads(ls) == {i \in 1..Len(ls) : \A j \in 1..Len(ls) : ~InTail(ls[i][1], ls[j])}
Strip(ls, x) == [i \in 1..Len(ls) |-> IF ls[i][1] = x THEN Tail(ls[i]) ELSE ls[i]]
RECURSIVE RefMerge(_)
RefMerge(ls0) == LET ls == NonEmpty(ls0) IN
    IF Len(ls) = 0 THEN <<>>
    ELSE IF GoodHeads(ls) = {} THEN Bad
    ELSE LET x == ls[Min(GoodHeads(ls))][1]
             r == RefMerge(Strip(ls, x))
         IN IF r = Bad THEN Bad ELSE <<x>> \o r
\* L[C] = C + merge(L[B1], ..., L[Bn], B1..Bn)      (only evaluated on acyclic hierarchies)
\* (the linearisations of the bases are built as an explicit tuple: TLC evaluates a function constructor again at every
\*  application, which made the recursion exponential)
RECURSIVE C3(_), C3List(_, _)
C3List(bs, i) == IF i > Len(bs) THEN <<>> ELSE <<C3(bs[i])>> \o C3List(bs, i + 1)
C3(c) == LET ps == C3List(bases[c], 1) IN
    IF \E i \in 1..Len(ps) : ps[i] = Bad THEN Bad
    ELSE LET m == RefMerge(ps \o <<bases[c]>>) IN IF m = Bad THEN Bad ELSE <<c>> \o m

RECURSIVE ReachIn(_, _)
ReachIn(S, i) == IF i = 0 THEN S ELSE ReachIn(S \cup UNION {Range(bases[x]) : x \in S}, i - 1)
Anc(c) == ReachIn(Range(bases[c]), n)                   \* proper ancestors
CycleFrom(c) == Source \in {"graph", "file"} /\ \E x \in Anc(c) \cup {c} : x \in Anc(x)   \* the builder sources are acyclic by construction
RefMro(c) == IF CycleFrom(c) THEN Cyclic ELSE C3(c)
Consistent(c) == RefMro(c) \notin {Bad, Cyclic}
\* Python rejects exactly this class statement (all its bases exist)
OwnInconsistent(c) == RefMro(c) = Bad /\ \A b \in Range(bases[c]) : C3(b) # Bad

Defines(c) == member[c] # "absent"
FirstDefining(m) == IF \E i \in 1..Len(m) : Defines(m[i]) THEN m[Min({i \in 1..Len(m) : Defines(m[i])})] ELSE 0
\* attribute lookup `c.f`
RefFind(c) == FirstDefining(C3(c))
\* the definitions of f that c.f overrides, nearest first
RefSources(c) == <<c>> \o SelectSeq(Tail(C3(c)), Defines)
\* whose docstring documents c.f: the first definition along the order that has a docstring at all;
\* an empty docstring documents nothing (0)
IFACE == 99       \* the member as declared (with a docstring) by the interface I; not a class of the hierarchy
DocState(x) == IF x = IFACE THEN "doc" ELSE member[x]
\* "hidden": defined and documented like "doc", but excluded from the documentation (privacy HIDDEN): Python still finds
\* it, the documentation shows neither it nor what it overrides as if it were inherited
HasDoc(x) == DocState(x) \in {"doc", "empty", "hidden"}
Documents(x) == DocState(x) \in {"doc", "hidden"}
Visible(x) == x = IFACE \/ member[x] # "hidden"
RefDocOwner(c) == LET s == SelectSeq(RefSources(c), HasDoc) IN
    IF Len(s) = 0 THEN 0 ELSE IF Documents(s[1]) THEN s[1] ELSE 0

\* the class page of c lists the member as inherited from the class lookup finds it in - unless that definition is
\* hidden: then nothing is listed (the hidden definition still masks everything behind it)
RefInherited(c) == IF RefFind(c) # 0 /\ Visible(RefFind(c)) THEN <<RefFind(c)>> ELSE <<>>
\* ... and the "Inherited from X" tables of the page are those listings except the class's own members (main table)
RefPageTables(c) == SelectSeq(RefInherited(c), LAMBDA x : x # c)
\* "overrides X.f": the definition c.f overrides, when it is part of the documentation
RefOverrides(c) == LET s == RefSources(c) IN IF Len(s) > 1 /\ Visible(s[2]) THEN s[2] ELSE 0

\* Names and the hierarchy (harness variant "names": the member is a nested class ("nodoc") or an alias written in the
\* class body, `f = A_c` ("doc")).  Either way the class BINDS the name:
\*   `C.f` written anywhere      = the binding of the first class along the MRO of C that binds f   (RefFind)
\*   bare `f` inside the body of C = the binding of C itself when it has one, else the MODULE's f (0): the scope of a
\*                                 class body does not include what the class inherits               (RefBodyLookup)
RefBodyLookup(c) == IF Defines(c) THEN c ELSE 0

\* the laws a method resolution order obeys (evaluated on the reference here, on the REAL mro by the harness)
HeadIsSelf(c, L) == Len(L) > 0 /\ L[1] = c
EachAncestorOnce(c, L) == Inj(L) /\ Range(L) = {c} \cup Anc(c)
LocalPrecedence(c, L) == \A i, j \in 1..Len(bases[c]) : i < j => PosIn(L, bases[c][i]) < PosIn(L, bases[c][j])
Monotonic(c, L) == \A b \in Range(bases[c]) : LET Lb == C3(b) IN
    \A i, j \in 1..Len(Lb) : i < j => PosIn(L, Lb[i]) < PosIn(L, Lb[j])

\* ===================================================================== MODEL of pydoctor
\* ---- mro.py  (0 stands for None)
PdHead(l) == IF Len(l) = 0 THEN 0 ELSE l[1]                                  \* Dependency.head        mro.py:36-41
PdInTails(x, ls) == \E j \in 1..Len(ls) : \E i \in 2..Len(ls[j]) : ls[j][i] = x   \* DependencyList.__contains__ :65-69
PdExhausted(ls) == \A j \in 1..Len(ls) : Len(ls[j]) = 0                       \* .exhausted             :91-96
PdRemove(ls, x) == [j \in 1..Len(ls) |->                                      \* .remove                :98-106
                      IF Len(ls[j]) > 0 /\ PdHead(ls[j]) = x THEN Tail(ls[j]) ELSE ls[j]]
RECURSIVE PdMergeLoop(_, _)
PdMergeLoop(ls, result) ==                                                    \* _merge                 :109-127
    IF PdExhausted(ls) THEN result
    ELSE LET cand == {j \in 1..Len(ls) : PdHead(ls[j]) # 0 /\ ~PdInTails(PdHead(ls[j]), ls)} IN
         IF cand = {} THEN Bad                                                \* for ... else: raise ValueError
         ELSE LET h == PdHead(ls[Min(cand)]) IN PdMergeLoop(PdRemove(ls, h), Append(result, h))
GetBases(c) == bases[c]         \* compute_mro.getbases: the final base objects (every base resolves in pass 2)
RECURSIVE PdMro(_), PdMroList(_, _)
PdMroList(bs, i) == IF i > Len(bs) THEN <<>> ELSE <<PdMro(bs[i])>> \o PdMroList(bs, i + 1)
PdMro(c) ==                                                                   \* mro.mro                :130-139
    IF Len(GetBases(c)) = 0 THEN <<c>>
    ELSE LET ps == PdMroList(GetBases(c), 1) IN
         IF \E i \in 1..Len(ps) : ps[i] = Bad THEN Bad                        \* ValueError propagates
         ELSE LET m == PdMergeLoop(ps \o <<GetBases(c)>>, <<>>) IN IF m = Bad THEN Bad ELSE <<c>> \o m

\* ---- model.compute_mro.init_finalbaseobjects (model.py:563-594): depth-first, `path` copied per branch,
\*      _finalbaseobjects assigned only when the whole subtree was walked without ValueError
RECURSIVE Dfs(_, _, _), DfsKids(_, _, _, _)
Dfs(o, path, f) ==
    IF o \in Range(path) THEN [raised |-> TRUE, fin |-> f]                    \* :566-568
    ELSE IF o \in f THEN [raised |-> FALSE, fin |-> f]                         \* :570-571
    ELSE IF Len(bases[o]) = 0 THEN [raised |-> FALSE, fin |-> f]               \* :572  (nothing assigned)
    ELSE LET r == DfsKids(o, 1, Append(path, o), f) IN
         IF r.raised THEN r ELSE [raised |-> FALSE, fin |-> r.fin \cup {o}]    \* :593-594
DfsKids(o, i, path, f) ==
    IF i > Len(bases[o]) THEN [raised |-> FALSE, fin |-> f]
    ELSE LET r == Dfs(bases[o][i], path, f) IN
         IF r.raised THEN r ELSE DfsKids(o, i + 1, path, r.fin)
\* ---- Class.baseobjects / Class.allbases (model.py:735-745, 773-781): the final objects when assigned, else the
\*      objects resolved in the first pass (None entries skipped)
BaseObjs(c, f) == IF c \in f THEN bases[c] ELSE SelectSeq(bases[c], LAMBDA b : born[b] < born[c])
RECURSIVE AllBases(_, _)
AllBases(c, f) == <<c>> \o Flatten([i \in 1..Len(BaseObjs(c, f)) |-> AllBases(BaseObjs(c, f)[i], f)])
\* ---- Class._init_mro (model.py:657-665); the fallback for an inconsistent hierarchy lists each class once, at its first position
RECURSIVE Uniq(_)
Uniq(q) == IF q = <<>> THEN <<>> ELSE <<Head(q)>> \o Uniq(SelectSeq(Tail(q), LAMBDA x : x # Head(q)))
InitMro(c) == LET r == Dfs(c, <<>>, fin) IN
    IF r.raised THEN [mro |-> Uniq(AllBases(c, r.fin)), warn |-> "cycle", fin |-> r.fin]
    ELSE LET m == PdMro(c) IN
         IF m = Bad THEN [mro |-> Uniq(AllBases(c, r.fin)), warn |-> "linearization", fin |-> r.fin]
                    ELSE [mro |-> m, warn |-> "none", fin |-> r.fin]
\* ---- Class.find (model.py:783-792), Inheritable.docsources (:825-831), get_docstring (:1519-1538)
PdFind(c) == FirstDefining(mro[c])
\* templatewriter/util.py nested_bases + unmasked_attrs: chain i = mro[1..i] reversed; the member of mro[i] is listed when
\* it is visible and no class before it in the order has a member of that name (visible or not)
PdInherited(c) == SelectSeq(mro[c], LAMBDA b : /\ Defines(b) /\ Visible(b)
                                                /\ \A j \in 1..Len(mro[c]) : (j < PosIn(mro[c], b)) => ~Defines(mro[c][j]))
\* pages.ClassPage.baseTables: util.class_members keeps the chains that list something; the first one is dropped when it
\* is the class itself (a class without visible members of its own has no such entry)
PdPageTables(c) == LET l == PdInherited(c) IN IF Len(l) > 0 /\ l[1] = c THEN Tail(l) ELSE l
\* pages.get_override_info: the first definition after c along the order, mentioned when it is visible
PdOverrides(c) == LET d == FirstDefining(Tail(mro[c])) IN IF d # 0 /\ Visible(d) THEN d ELSE 0
\* extensions/zopeinterface.py:41-76: ZopeInterfaceFunction.docsources = the regular sources, THEN what the interfaces
\* implemented by the class or by any of its bases (allImplementedInterfaces walks baseobjects) declare under the name
HasIface(c) == \E x \in {c} \cup Anc(c) : x \in lay.impl
PdSources(c) == <<c>> \o SelectSeq(Tail(mro[c]), Defines) \o (IF HasIface(c) THEN <<IFACE>> ELSE <<>>)
\* epydoc2stan.ensure_parsed_docstring parses get_docstring(obj) for every object separately: what is rendered for c.f
\* does not depend on which members were rendered before (PdRendered = PdDocOwner whatever the history)
PdDocOwner(c) == LET s == SelectSeq(PdSources(c), HasDoc) IN
    IF Len(s) = 0 THEN 0 ELSE IF Documents(s[1]) THEN s[1] ELSE 0      \* "" stops the search, (None, source)

\* ---- names: Documentable.expandName('C.f') walks C.mro() and takes the first class with f in its contents or in its
\*      alias / import map (model.py expandName); a bare name in a class body is looked up in that class's own contents
\*      and map, then in the enclosing scope (Class._localNameToFullName): never in the bases.
\*      In the second pass a base is the object its name designated when the class statement was visited
\*      (compute_mro: system.find_object(_initialbases[i]) first), whatever the module binds to that name later
\*      (harness variant "shadow": `from m import B ; class C(B) ; class B(B)`): GetBases is unaffected.
PdBodyLookup(c) == IF Defines(c) THEN c ELSE 0

\* ---- a dotted lookup `C.f` made WHILE the modules are analysed (an alias statement `a = C.f`, a base `class X(C.f)`
\*      placed right after the class statement): expandName -> Class.find -> Class.mro() with _mro still None
\*      (model.py:707-730).  Only the bases resolved in the first pass are known then (EB).
\*      EarlyOrder "allbases" = depth-first over them, duplicates and all (the code before commit d15584e);
\*                 "c3"       = linearise what is known so far, depth-first only when that fails (since d15584e).
EB(c) == BaseObjs(c, {})
RECURSIVE PdMroE(_), PdMroEList(_, _)
PdMroEList(bs, i) == IF i > Len(bs) THEN <<>> ELSE <<PdMroE(bs[i])>> \o PdMroEList(bs, i + 1)
PdMroE(c) ==
    IF Len(EB(c)) = 0 THEN <<c>>
    ELSE LET ps == PdMroEList(EB(c), 1) IN
         IF \E i \in 1..Len(ps) : ps[i] = Bad THEN Bad
         ELSE LET m == PdMergeLoop(ps \o <<EB(c)>>, <<>>) IN IF m = Bad THEN Bad ELSE <<c>> \o m
EarlyMro(c) == IF EarlyOrder = "c3" THEN (LET m == PdMroE(c) IN IF m = Bad THEN AllBases(c, {}) ELSE m)
                                     ELSE AllBases(c, {})
PdEarlyFind(c) == IF Source \in {"members", "late"} THEN FirstDefining(EarlyMro(c)) ELSE 0
\* `class X(C.f)` right after class C: a base that could not be resolved in the first pass (nothing found) is resolved
\* again by compute_mro (model.py:583-590) when X is post-processed, i.e. after C: along C's final order
PdEarlyBase(c) == IF PdEarlyFind(c) = 0 THEN PdFind(c) ELSE PdEarlyFind(c)
\* some class on the way up from c has a base that is resolved only in the second pass
LateAbove(c) == \E x \in {c} \cup Anc(c) : \E b \in Range(bases[x]) : born[b] > born[x]
\* known finding early-lookup-depth-first (fixed by d15584e): the first definition in depth-first order, not along C3
KF_EarlyLookupDepthFirst(c) == /\ EarlyOrder = "allbases"
                               /\ PdEarlyFind(c) # RefFind(c)
                               /\ PdEarlyFind(c) = FirstDefining(AllBases(c, {}))
\* known finding early-lookup-before-base-resolved (open): a base on the way up is not known yet when the lookup is made
KF_EarlyLookupBeforeBaseResolved(c) == /\ EarlyOrder = "c3"
                                       /\ (PdEarlyFind(c) # RefFind(c) \/ PdEarlyBase(c) # RefFind(c))
                                       /\ LateAbove(c)

\* ---- the order in which Class objects are created when every class lives in its own module
\*      (System.process model.py:1461-1465: modules in the order added; visit_Import / visit_ImportFrom ->
\*      getProcessedModule: a module that is still UNPROCESSED is analysed on the spot, one that is PROCESSING (import
\*      cycle) or PROCESSED is not).  Module m = [TYPE_CHECKING import of lay.back] ; imports of the bases' modules in
\*      ascending order ; class m ; early lookups.
RECURSIVE SortedSeq(_)
SortedSeq(S) == IF S = {} THEN <<>> ELSE <<Min(S)>> \o SortedSeq(S \ {Min(S)})
BackOf(m, bk) == LET sel == SelectSeq(bk, LAMBDA p : p[1] = m) IN [i \in 1..Len(sel) |-> sel[i][2]]
ImportsOf(m, bk) == BackOf(m, bk) \o SortedSeq(Range(bases[m]))
RECURSIVE Proc(_, _, _), ProcImports(_, _, _, _)
Proc(m, st, bk) == IF m \in st.started THEN st
                   ELSE LET st1 == ProcImports(m, 1, [st EXCEPT !.started = @ \cup {m}], bk)
                        IN [st1 EXCEPT !.created = Append(@, m)]
ProcImports(m, i, st, bk) == IF i > Len(ImportsOf(m, bk)) THEN st
                             ELSE ProcImports(m, i + 1, Proc(ImportsOf(m, bk)[i], st, bk), bk)
RECURSIVE ProcAll(_, _, _)
ProcAll(order, st, bk) == IF Len(order) = 0 THEN st ELSE ProcAll(Tail(order), Proc(Head(order), st, bk), bk)
CreatedSeq(order, bk) == ProcAll(order, [started |-> {}, created |-> <<>>], bk).created
BornOf(order, bk) == [c \in 1..Len(order) |-> PosIn(CreatedSeq(order, bk), c)]
\* a fixed hash of the hierarchy, only used to pick the stratified sample of Source = "split" in the quick tier
RECURSIVE WSum(_, _), HSum(_)
WSum(sq, j) == IF j > Len(sq) THEN 0 ELSE j * sq[j] + WSum(sq, j + 1)
HSum(i) == IF i = 0 THEN 0 ELSE i * WSum(bases[i], 1) + HSum(i - 1)
NoLay == [order |-> <<>>, back |-> <<>>, impl |-> {}, split |-> 0]
BackPairs(m) == {<<c, x>> : c \in 1..m, x \in 1..m} \ {<<c, c>> : c \in 1..m}
BackChoices(m) == IF LateBacks = "two"
                    THEN {<<p, q>> : p \in BackPairs(m), q \in BackPairs(m)} \ {<<p, q>> \in BackPairs(m) \X BackPairs(m) :
                                                                                   p = q \/ (p[1] # q[1] /\ ~(p[1] < q[1]))}
                    ELSE {<<>>} \cup {<<p>> : p \in BackPairs(m)}

\* ===================================================================== behaviours
Ident(m) == [i \in 1..m |-> i]
InitBuild == /\ Source \in {"enum", "members", "late", "zope", "split"} /\ cid = 0 /\ n = 0 /\ lay = NoLay
             /\ bases = <<>> /\ born = <<>> /\ member = <<>> /\ phase = "build"
InitGraph == /\ Source = "graph" /\ cid = 0 /\ n = MaxN
             /\ bases \in [1..MaxN -> PermSeqs(1..MaxN)]
             /\ \A c \in 1..MaxN : c \notin Range(bases[c])
             /\ lay = [NoLay EXCEPT !.order = Ident(MaxN)]
             /\ born = BornOf(lay.order, lay.back) /\ member = [i \in 1..MaxN |-> "absent"] /\ phase = "post"
InitFile == /\ Source = "file" /\ cid \in 1..Len(FileCases)
            /\ n = Len(FileCases[cid].bases)
            /\ bases = FileCases[cid].bases /\ member = FileCases[cid].member
            \* born = <<>> in the file: one class per module, modules added in the order 1..n
            /\ lay = IF Len(FileCases[cid].born) = 0 THEN [NoLay EXCEPT !.order = Ident(n)] ELSE NoLay
            /\ born = IF Len(FileCases[cid].born) = 0 THEN BornOf(Ident(n), <<>>) ELSE FileCases[cid].born
            /\ phase = "post"
Init == /\ (InitBuild \/ InitGraph \/ InitFile)
        /\ fin = {} /\ k = 0 /\ mro = [i \in 1..n |-> <<>>] /\ warn = [i \in 1..n |-> "none"]

\* input builder: one more class statement, bases among the classes that exist
AddClass == /\ phase = "build" /\ n < MaxN
            /\ \E b \in PermSeqs(1..n) : bases' = Append(bases, b)
            /\ n' = n + 1 /\ born' = Append(born, n + 1) /\ member' = Append(member, "absent")
            /\ mro' = Append(mro, <<>>) /\ warn' = Append(warn, "none")
            /\ UNCHANGED <<cid, phase, fin, k, lay>>
Built == /\ phase = "build" /\ n = MaxN
         /\ IF Source \in {"members", "late", "zope"} THEN member' \in [1..n -> DocStates] ELSE UNCHANGED member
         \* "late": one class per module, the modules added in any order, up to two TYPE_CHECKING imports (which may
         \* close import cycles: the only way a base is still unknown when its subclass is analysed)
         /\ IF Source = "late"
              THEN /\ \E o \in {p \in [1..n -> 1..n] : Inj(p)}, b \in BackChoices(n) :
                        /\ (LateOrders = "two" => (o = Ident(n) \/ o = [i \in 1..n |-> n + 1 - i]))
                        /\ lay' = [NoLay EXCEPT !.order = o, !.back = b]
                   /\ born' = BornOf(lay'.order, lay'.back)
              ELSE IF Source = "zope"
              \* any set of classes is declared @implementer(I), I an interface that documents the member
              THEN /\ \E S \in SUBSET (1..n) : lay' = [NoLay EXCEPT !.impl = S]
                   /\ UNCHANGED born
              ELSE IF Source = "split"
              \* two modules importing each other: A = classes 1..sp ; `import B` ; classes sp+1..n-1 and
              \* B = `import A` ; class n.  A is added first, so B is analysed at A's import statement (B's own import of A
              \* finds A being analysed): creation order 1..sp, n, sp+1..n-1.  Class n is post-processed BEFORE its bases
              \* beyond sp, which are resolved only in the second pass, while the classes up to sp are finalised already.
              \* Legal Python when B is imported first.  (sp = n-1 is the plain order: Source "enum".)
              THEN /\ \E sp \in 0..(n - 2) : /\ \E b \in Range(bases[n]) : b > sp
                                              /\ (SplitSample = "quick" =>
                                                     /\ Cardinality({bb \in Range(bases[n]) : bb > sp}) >= 2
                                                     /\ (HSum(n) + sp) % 3 = 0)
                                              /\ lay' = [NoLay EXCEPT !.split = sp]
                   /\ born' = [c \in 1..n |-> IF c <= lay'.split THEN c ELSE IF c = n THEN lay'.split + 1 ELSE c + 1]
              ELSE UNCHANGED <<born, lay>>
         /\ phase' = "post"
         /\ UNCHANGED <<cid, n, bases, fin, k, mro, warn>>
\* defaultPostProcess (model.py:1486-1489): classes in creation order, cls._init_mro()
PostStep == /\ phase = "post" /\ k < n
            /\ LET c == CHOOSE x \in 1..n : born[x] = k + 1
                   r == InitMro(c)
               IN /\ mro' = [mro EXCEPT ![c] = r.mro]
                  /\ warn' = [warn EXCEPT ![c] = r.warn]
                  /\ fin' = r.fin
            /\ k' = k + 1
            /\ UNCHANGED <<cid, n, bases, born, member, phase, lay>>
PostDone == /\ phase = "post" /\ k = n /\ phase' = "done"
            /\ UNCHANGED <<cid, n, bases, born, member, fin, k, mro, warn, lay>>
Next == AddClass \/ Built \/ PostStep \/ PostDone
Spec == Init /\ [][Next]_vars

\* ===================================================================== property C05 (design level)
Done == phase = "done"
Classes == 1..n
\* the linearisation used is Python's
MroIsC3 == Done => \A c \in Classes : Consistent(c) => (mro[c] = C3(c) /\ warn[c] = "none")
\* an inconsistent hierarchy is reported for that class, and the class keeps a usable order starting with itself
InconsistentReported == Done => \A c \in Classes : RefMro(c) = Bad => (warn[c] # "none" /\ HeadIsSelf(c, mro[c]))
\* the reference itself obeys the laws of a method resolution order
RefLaws == Done => \A c \in Classes : Consistent(c) =>
              /\ HeadIsSelf(c, C3(c)) /\ EachAncestorOnce(c, C3(c)) /\ LocalPrecedence(c, C3(c)) /\ Monotonic(c, C3(c))
\* members are attributed / documented as attribute lookup along Python's order yields
FindIsLookup == Done => \A c \in Classes : Consistent(c) => PdFind(c) = RefFind(c)
BodyLookupIsLexical == Done => \A c \in Classes : PdBodyLookup(c) = RefBodyLookup(c)
InheritedTable == Done => \A c \in Classes : Consistent(c) => PdInherited(c) = RefInherited(c)
PageTables == Done => \A c \in Classes : Consistent(c) => PdPageTables(c) = RefPageTables(c)
OverridesNote == Done => \A c \in Classes : (Consistent(c) /\ Defines(c)) => PdOverrides(c) = RefOverrides(c)
\* ... anything that is not on the MRO (an interface declaration) can only come after every definition along it, and can
\* only document the member when nothing along the MRO does
SourcesAreOverridden == Done => \A c \in Classes : (Consistent(c) /\ Defines(c)) =>
    /\ SelectSeq(PdSources(c), LAMBDA x : x # IFACE) = RefSources(c)
    /\ \A i \in 1..Len(PdSources(c)) : PdSources(c)[i] = IFACE => i = Len(PdSources(c))
DocIsInherited == Done => \A c \in Classes : (Consistent(c) /\ Defines(c)) =>
    (PdDocOwner(c) = RefDocOwner(c) \/ (RefDocOwner(c) = 0 /\ PdDocOwner(c) = IFACE))

\* a lookup through the class gives the same definition whenever it is made
EarlyIsLookupAt(c) == PdEarlyFind(c) = RefFind(c) /\ PdEarlyBase(c) = RefFind(c)
EarlyIsLookup == (Done /\ Source \in {"members", "late"}) => \A c \in Classes : Consistent(c) => EarlyIsLookupAt(c)
\* ... checked modulo the known finding, so that TLC still reports any OTHER deviation
EarlyIsLookupOrKF == (Done /\ Source \in {"members", "late"}) => \A c \in Classes : Consistent(c) =>
                         (EarlyIsLookupAt(c) \/ KF_EarlyLookupDepthFirst(c) \/ KF_EarlyLookupBeforeBaseResolved(c))

\* ===================================================================== emission
PerClass(F(_)) == [c \in 1..n |-> F(c)]
RefFindE(c) == IF Consistent(c) THEN RefFind(c) ELSE 0
RefSourcesE(c) == IF Consistent(c) /\ Defines(c) THEN RefSources(c) ELSE <<>>
RefDocE(c) == IF Consistent(c) /\ Defines(c) THEN RefDocOwner(c) ELSE 0
PdSourcesE(c) == IF Defines(c) THEN PdSources(c) ELSE <<>>
PdDocE(c) == IF Defines(c) THEN PdDocOwner(c) ELSE 0
RefInhE(c) == IF Consistent(c) THEN RefInherited(c) ELSE <<>>
RefOvrE(c) == IF Consistent(c) /\ Defines(c) THEN RefOverrides(c) ELSE 0
RefPageE(c) == IF Consistent(c) THEN RefPageTables(c) ELSE <<>>
PdOvrE(c) == IF Defines(c) THEN PdOverrides(c) ELSE 0
Emit == Done => PrintT(ToJson([cid |-> cid, n |-> n, bases |-> bases, born |-> born, member |-> member, lay |-> lay,
                               c3 |-> PerClass(RefMro), own |-> PerClass(OwnInconsistent),
                               mro |-> mro, warn |-> warn,
                               find_ref |-> PerClass(RefFindE), find_pd |-> PerClass(PdFind),
                               src_ref |-> PerClass(RefSourcesE), src_pd |-> PerClass(PdSourcesE),
                               doc_ref |-> PerClass(RefDocE), doc_pd |-> PerClass(PdDocE),
                               inh_ref |-> PerClass(RefInhE), inh_pd |-> PerClass(PdInherited),
                               ovr_ref |-> PerClass(RefOvrE), ovr_pd |-> PerClass(PdOvrE),
                               page_ref |-> PerClass(RefPageE), page_pd |-> PerClass(PdPageTables),
                               body_ref |-> PerClass(RefBodyLookup), body_pd |-> PerClass(PdBodyLookup),
                               early_pd |-> PerClass(PdEarlyFind), early_base_pd |-> PerClass(PdEarlyBase), late |-> PerClass(LateAbove)]))
=============================================================================
