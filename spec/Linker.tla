------------------------------- MODULE Linker -------------------------------
(***************************************************************************)
(* pydoctor.linker._EpydocLinker._resolve_identifier_xref : where a        *)
(* cross-reference L{name} / `name` written in the docstring of object o   *)
(* leads, as a pure operator over the registry record of Registry.tla.     *)
(*                                                                         *)
(* This is deliberately NOT Python's name resolution ("a lot of DWIM",     *)
(* linker.py:186): the steps, in the order of the code, are                *)
(*   1. the identifier is the full name of a registered object             *)
(*      (System.objForFullName = allobjects.get), or the full name it had  *)
(*      before it was moved by a re-export (System.find_object);           *)
(*   2. intersphinx inventories (none in the model: no inventory loaded);  *)
(*   3. Python-like resolution in o, then in each enclosing object         *)
(*      (resolveName walking up .parent);                                  *)
(*   4. "uncles": at each level of the same chain, look_for_name among the *)
(*      members of that level - the unique object the identifier resolves  *)
(*      to from a member that itself contains the first component;         *)
(*      several candidates = an "ambiguous ref" report, and the search     *)
(*      goes on one level up;                                              *)
(*   5. the same among all modules and packages of the system;             *)
(*   6. not found: "Cannot find link target" is reported.                  *)
(* The result is [t |-> target object or NoObj, amb |-> number of          *)
(* ambiguity reports, step |-> the step that answered].                    *)
(*                                                                         *)
(* No listed property speaks about WHICH object a cross-reference leads    *)
(* to (C11 only asks that the link is not dead, C16 that the report is     *)
(* located); this module extends the specification to that behaviour and   *)
(* its conformance with the code is reported in the evidence of C04 as     *)
(* `xref_rows` / `xref_drift`, without a verdict.                          *)
(***************************************************************************)
EXTENDS Registry

RECURSIVE Chain(_, _)
Chain(st, o) == IF o = NoObj THEN <<>> ELSE <<o>> \o Chain(st, st.objs[o].par)

Plain(parts) == [i \in 1..Len(parts) |-> P(parts[i])]
ByFullName(st, parts, lin) == FindObject(st, Plain(parts), lin)

\* linker.look_for_name(name, candidates): candidates that contain the first component resolve the name; the set of
\* distinct results decides (order of the candidates is irrelevant)
Targets(st, cands, parts, lin) ==
   {ResolveName(st, c, parts, lin) : c \in {c \in cands : parts[1] \in DOMAIN st.cont[c]}} \ {NoObj}
Members(st, o) == {st.cont[o][n] : n \in DOMAIN st.cont[o]}
AllModules(st) == {st.all[k] : k \in {k \in DOMAIN st.all : IsModCls(Cls(st, st.all[k]))}}

\* step 3
RECURSIVE UpResolve(_, _, _, _, _)
UpResolve(st, ch, i, parts, lin) ==
   IF i > Len(ch) THEN NoObj
   ELSE LET t == ResolveName(st, ch[i], parts, lin) IN IF t # NoObj THEN t ELSE UpResolve(st, ch, i + 1, parts, lin)
\* step 4: <<target, ambiguity reports>>
RECURSIVE Uncles(_, _, _, _, _, _)
Uncles(st, ch, i, parts, lin, amb) ==
   IF i > Len(ch) THEN <<NoObj, amb>>
   ELSE LET ts == Targets(st, Members(st, ch[i]), parts, lin)
        IN IF Cardinality(ts) = 1 THEN <<CHOOSE t \in ts : TRUE, amb>>
           ELSE Uncles(st, ch, i + 1, parts, lin, IF Cardinality(ts) > 1 THEN amb + 1 ELSE amb)

XRef(st, o, parts, lin) ==
   LET ch == Chain(st, o)
       g  == ByFullName(st, parts, lin)
   IN IF g # NoObj THEN [t |-> g, amb |-> 0, step |-> 1]
      ELSE LET u == UpResolve(st, ch, 1, parts, lin)
           IN IF u # NoObj THEN [t |-> u, amb |-> 0, step |-> 3]
              ELSE LET un == Uncles(st, ch, 1, parts, lin, 0)
                   IN IF un[1] # NoObj THEN [t |-> un[1], amb |-> un[2], step |-> 4]
                      ELSE LET ts == Targets(st, AllModules(st), parts, lin)
                           IN IF Cardinality(ts) = 1 THEN [t |-> CHOOSE t \in ts : TRUE, amb |-> un[2], step |-> 5]
                              ELSE [t |-> NoObj, amb |-> (IF Cardinality(ts) > 1 THEN un[2] + 1 ELSE un[2]), step |-> 6]

\* ---- design-level facts about the search (checked by TLC on every terminal state of Processing)
\* a full name always wins, whatever the context
FullNameWins(st, o, parts, lin) == ByFullName(st, parts, lin) # NoObj => XRef(st, o, parts, lin).t = ByFullName(st, parts, lin)
\* what Python-like resolution finds in the context itself is what the cross-reference leads to, unless a full name wins
LocalFirst(st, o, parts, lin) == (ByFullName(st, parts, lin) = NoObj /\ ResolveName(st, o, parts, lin) # NoObj)
                                    => XRef(st, o, parts, lin).t = ResolveName(st, o, parts, lin)
\* the answer is a registered object or nothing
AnswerRegistered(st, o, parts, lin) == LET x == XRef(st, o, parts, lin) IN x.t = NoObj \/ Registered(st, x.t)
=============================================================================
