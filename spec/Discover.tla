------------------------------- MODULE Discover -------------------------------
(***************************************************************************)
(* Discovery of modules: System.addPackage / addModuleFromPath /           *)
(* analyzeModule / _addUnprocessedModule / _handleDuplicateModule          *)
(* (model.py 1237-1291, 1351-1373) as a transition system over a directory *)
(* tree.                                                                   *)
(*                                                                         *)
(* A tree is  entries : Seq([par, name, kind, rank])  with par the index   *)
(* of the containing directory entry (0 = the root package directory),     *)
(*   kind = "pkg"   directory holding an __init__.py                       *)
(*          "dir"   directory without __init__.py (not a package)          *)
(*          "py"    file <name>.py      "dot"  file .<name>.py (hidden)    *)
(*          "txt"   any other file                                         *)
(* and rank the position of the entry among its siblings in sorted() order *)
(* of the path names (computed by the harness with the real sort).         *)
(*                                                                         *)
(* The machine walks exactly as the code does (a stack of directory        *)
(* iterators); what it yields is the list of modules in the order they     *)
(* enter System.unprocessed_modules - the schedule that Processing.tla     *)
(* takes as its (admissible) starting point.                               *)
(***************************************************************************)
EXTENDS Integers, Sequences, FiniteSets, TLC, Json, IOUtils, SequencesExt

Trees == JsonDeserialize(IOEnv.TREE_FILE)

VARIABLES tid, stack, mods, dropped, done
vars == <<tid, stack, mods, dropped, done>>
\* mods : Seq([name (qualified, Seq of strings), pkg (BOOLEAN), entry]) in unprocessed order

T == Trees[tid]
E(i) == T.entries[i]
Kids(d) == {i \in 1..Len(T.entries) : E(i).par = d}
\* sorted(package_path.iterdir()): the children of d by rank
Sorted(d) == SetToSortSeq(Kids(d), LAMBDA a, b : E(a).rank < E(b).rank)

Init == /\ tid \in 1..Len(Trees)
        /\ stack = <<[dir |-> 0, q |-> <<Trees[tid].root>>, k |-> 1]>>       \* addPackage(root): analyzeModule(__init__) first
        /\ mods = <<[name |-> <<Trees[tid].root>>, pkg |-> TRUE, entry |-> 0]>>
        /\ dropped = <<>>
        /\ done = FALSE

Top == stack[Len(stack)]
Names == {mods[j].name : j \in 1..Len(mods)}
\* _addUnprocessedModule / _handleDuplicateModule: packages win over modules, otherwise the last one wins
AddModule(m) ==
  IF m.name \notin Names THEN mods' = Append(mods, m) /\ UNCHANGED dropped
  ELSE LET j == CHOOSE x \in 1..Len(mods) : mods[x].name = m.name IN
       IF mods[j].pkg /\ ~m.pkg
         THEN UNCHANGED mods /\ dropped' = Append(dropped, m.entry)                    \* the package wins
         ELSE /\ mods' = Append(SelectSeq(mods, LAMBDA x : x.name # m.name), m)       \* the last one wins
              /\ dropped' = Append(dropped, mods[j].entry)

Step == /\ ~done /\ stack # <<>>
        /\ LET ch == Sorted(Top.dir) IN
           IF Top.k > Len(ch)
             THEN /\ stack' = SubSeq(stack, 1, Len(stack) - 1)                          \* directory exhausted
                  /\ UNCHANGED <<mods, dropped>>
             ELSE LET i == ch[Top.k]
                      adv == [stack EXCEPT ![Len(stack)].k = @ + 1]
                  IN CASE E(i).kind = "pkg" ->                                           \* path.is_dir() and __init__.py exists
                            /\ AddModule([name |-> Append(Top.q, E(i).name), pkg |-> TRUE, entry |-> i])
                            /\ stack' = Append(adv, [dir |-> i, q |-> Append(Top.q, E(i).name), k |-> 1])
                       [] E(i).kind = "py" ->                                            \* addModuleFromPath, SOURCE_SUFFIXES
                            /\ AddModule([name |-> Append(Top.q, E(i).name), pkg |-> FALSE, entry |-> i])
                            /\ stack' = adv
                       [] OTHER ->                                                       \* plain directory, hidden file, other file
                            /\ stack' = adv /\ UNCHANGED <<mods, dropped>>
        /\ UNCHANGED <<tid, done>>
Finish == /\ ~done /\ stack = <<>> /\ done' = TRUE /\ UNCHANGED <<tid, stack, mods, dropped>>
Next == Step \/ Finish
Spec == Init /\ [][Next]_vars /\ WF_vars(Next)

\* ---------------------------------------------------------------- properties
RECURSIVE Reach(_)
\* an entry is inside the package tree iff every directory above it is a package directory
Reach(i) == IF E(i).par = 0 THEN TRUE ELSE E(E(i).par).kind = "pkg" /\ Reach(E(i).par)
Expected == {i \in 1..Len(T.entries) : E(i).kind \in {"pkg", "py"} /\ Reach(i)}
Found == {mods[j].entry : j \in 1..Len(mods)} \ {0}
\* every source file of the package tree is discovered exactly once (or dropped as the loser of a name clash)
EveryModuleOnce == done => /\ Found \cup {dropped[j] : j \in 1..Len(dropped)} = Expected
                           /\ \A a, b \in 1..Len(mods) : mods[a].name = mods[b].name => a = b
\* the schedule is admissible for Processing.tla: a package precedes its contents and sub-trees are contiguous
IsPrefixOf(a, b) == Len(a) <= Len(b) /\ SubSeq(b, 1, Len(a)) = a
PackageFirst == done => \A a, b \in 1..Len(mods) :
                   (mods[a].pkg /\ a # b /\ IsPrefixOf(mods[a].name, mods[b].name)) => a < b
Contiguous == done => \A a, b, c \in 1..Len(mods) :
                   (a < b /\ b < c /\ mods[a].pkg /\ IsPrefixOf(mods[a].name, mods[c].name)) => IsPrefixOf(mods[a].name, mods[b].name)
Terminates == <>done

Emit == done => PrintT(ToJson([tid |-> tid, mods |-> [j \in 1..Len(mods) |-> [name |-> mods[j].name, pkg |-> mods[j].pkg]]]))
=============================================================================
