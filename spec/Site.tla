-------------------------------- MODULE Site --------------------------------
(***************************************************************************)
(* The output tree of one pydoctor run ("site") as a function of an        *)
(* abstract object model: C11 (every internal link resolves, every visible *)
(* object has its page / anchor) and C12 (hidden objects leave no trace,   *)
(* private objects are always marked private).                             *)
(*                                                                         *)
(* Object model  M = [objs, roots, depth]: objs maps a full name to        *)
(*   [id, qid, name, cls, parent, priv, incontents, inall, bases, mro,     *)
(*    subclasses, doc, docsrc, xrefs, sumrefs, annrefs, initial, dupname,  *)
(*    dupfull]   (qid = the percent-encoded full name, urllib.parse.quote) *)
(*   incontents = FALSE for a superseded duplicate (System.handleDuplicate *)
(*   keeps it in allobjects as "name 0" but parent.contents holds the new  *)
(*   definition); inall = registered in System.allobjects under its full   *)
(*   name (FALSE when the two registries of the System disagree, C02);     *)
(*   xrefs / sumrefs / annrefs are the RESOLVED targets of                 *)
(*   the cross references in the docstring / its summary / annotations;    *)
(*   docsrc is the object whose docstring is shown (inherited docstrings). *)
(*                                                                         *)
(* Site  S = [files, subjects, anchors, links, entries, inv, docs, search] *)
(*   a file is named by its percent-decoded path without ".html", a link   *)
(*   is [page, file, frag, prod, member] (prod = the producer in           *)
(*   templatewriter/* that wrote it), a listing entry is                   *)
(*   [page, kind, file, frag, private].                                    *)
(*                                                                         *)
(* One operator per producer, transcribed from the code (file:line in the  *)
(* comments) - including what the code does wrong.  The invariants are     *)
(* written from the property statements over (object view, site) and are   *)
(* evaluated (a) on the site the model predicts, for every object model    *)
(* of the skeleton family x privacy assignment (Source = "enum", design    *)
(* level), and (b) on sites CRAWLED from real runs together with the       *)
(* projection of the real System (Source = "file"), where the predicted    *)
(* site is also compared with the crawled one (conformance).               *)
(***************************************************************************)
EXTENDS Naturals, Sequences, FiniteSets, TLC, Json, IOUtils

CONSTANTS Source,         \* "enum" | "file"
          Fixed,          \* known findings whose fix is in the tree (known_findings.json status "fixed"): the
                          \* producers below then follow the repaired code instead of the deviation
          MaxNonDefault,  \* enum: at most this many objects get a non-default privacy
          Depths,         \* enum: values of --sidebar-expand-depth
          FeatCounts      \* enum: how many of the optional features (dup, move, multi, nested) a model may combine

None == "none"
Fx(f) == f \in Fixed
Range(s) == {s[i] : i \in DOMAIN s}
Cases == IF Source = "file" THEN JsonDeserialize(IOEnv.SITE_FILE) ELSE <<>>

VARIABLES cid, feat, depth, nd,    \* the configuration (chosen in Init)
          mdl,                       \* the object model (built by action Build)
          out,                       \* the judgement (made by action Judge), printed by Emit
          phase                      \* "init" -> "built" -> "done"
vars == <<cid, feat, depth, nd, mdl, out, phase>>

(***************************************************************************)
(* 1. The skeleton family (Source = "enum"); harness/checks/c11.py writes  *)
(*    the same family as Python source files (realise()).                  *)
(***************************************************************************)
Feats == [dup : BOOLEAN, move : BOOLEAN, multi : BOOLEAN, nested : BOOLEAN]

B(id, name, cls, parent, initial) ==
  [id |-> id, qid |-> id, name |-> name, cls |-> cls, parent |-> parent, priv |-> "PUBLIC", incontents |-> TRUE, inall |-> TRUE,
   bases |-> <<>>, mro |-> IF cls = "Class" THEN <<id>> ELSE <<>>, subclasses |-> {}, doc |-> TRUE, docsrc |-> id,
   module |-> "auto", locals |-> {}, xrefs |-> {}, sumrefs |-> {}, annrefs |-> {}, sigrefs |-> {}, initial |-> initial, dupname |-> FALSE, dupfull |-> FALSE]

SkelObjs(f) ==
  {  B("pk", "pk", "Package", None, "P"),
     \* (the EPYTEXT docstring of pk.mod has a section heading "Overview": no reference from the text, an entry in the sidebar)
     [B("pk.mod", "mod", "Module", "pk", "M") EXCEPT !.xrefs = {"pk.mod.Hid"}, !.sumrefs = {"pk.mod.Hid"},
          !.locals = {[id |-> "overview", pre |-> FALSE, sec |-> TRUE, ref |-> FALSE]}],
     [B("pk.mod.Base", "Base", "Class", "pk.mod", "B") EXCEPT
          !.subclasses = {"pk.mod.Sub"} \cup (IF f.multi THEN {"m2.K"} ELSE {})],
     [B("pk.mod.Base.meth", "meth", "Function", "pk.mod.Base", "M") EXCEPT
          !.xrefs = {"pk.mod.Base.other", "pk.mod.Base.attr"}, !.sumrefs = {"pk.mod.Base.other"}],
     \* other's summary refers to attr: Sub and K show it in their "Inherited from Base" tables
     [B("pk.mod.Base.other", "other", "Function", "pk.mod.Base", "O") EXCEPT !.xrefs = {"pk.mod.Base.attr"}, !.sumrefs = {"pk.mod.Base.attr"}],
     [B("pk.mod.Base.attr", "attr", "Attribute", "pk.mod.Base", "A") EXCEPT !.annrefs = {"pk.mod.Hid"}],
     [B("pk.mod.Hid", "Hid", "Class", "pk.mod", "H") EXCEPT !.subclasses = {"pk.mod.Sub"}],
     B("pk.mod.Hid.hm", "hm", "Function", "pk.mod.Hid", "H"),
     [B("pk.mod.Sub", "Sub", "Class", "pk.mod", "S") EXCEPT
          !.bases = <<"pk.mod.Base", "pk.mod.Hid">>, !.mro = <<"pk.mod.Sub", "pk.mod.Base", "pk.mod.Hid">>,
          !.xrefs = {"pk.mod.Hid.hm"}, !.sumrefs = {"pk.mod.Hid.hm"}],
     \* Sub.meth has no docstring of its own: it shows Base.meth's (Inheritable.docsources, model.py:825); the
     \* reference to other is in the body, the one to attr in a FIELD (@return) of that docstring
     [B("pk.mod.Sub.meth", "meth", "Function", "pk.mod.Sub", "M") EXCEPT !.docsrc = "pk.mod.Base.meth",
          !.xrefs = {"pk.mod.Base.other", "pk.mod.Base.attr"}, !.sumrefs = {"pk.mod.Base.other"}],
     B("pk.mod.Sub.hm", "hm", "Function", "pk.mod.Sub", "H"),
     \* two modules importing each other: pk/cyca.py starts with "from pk.cycb import Impl", so while cycb is analysed
     \* its "from pk.cyca import CBase" finds nothing yet and the base of Impl is resolved only in post-processing
     \* (model.py defaultPostProcess: _init_mro, then subclasses).  keep is inherited over two levels.
     \* the docstring of pk.cyca is reStructuredText with targets INSIDE the docstring that its own text refers to: a
     \* section "Other notes" (docutils id other-notes), a section "RST markup" and an explicit target "rst-cheatsheet",
     \* whose ids already start with the prefix node2stan gives to every id of a docstring
     [B("pk.cyca", "cyca", "Module", "pk", "C") EXCEPT
          \* sec: a section title (listed in the sidebar's "Contents"), ref: the docstring's own text refers to it
          !.locals = {[id |-> "other-notes", pre |-> FALSE, sec |-> TRUE, ref |-> TRUE], [id |-> "rst-markup", pre |-> TRUE, sec |-> TRUE, ref |-> TRUE],
                      [id |-> "rst-cheatsheet", pre |-> TRUE, sec |-> FALSE, ref |-> TRUE]}],
     [B("pk.cyca.CBase", "CBase", "Class", "pk.cyca", "C") EXCEPT !.subclasses = {"pk.cycb.Impl"}],
     B("pk.cyca.CBase.run", "run", "Function", "pk.cyca.CBase", "R"),
     B("pk.cyca.CBase.keep", "keep", "Function", "pk.cyca.CBase", "K"),
     \* a property with setter and deleter: functions named "side.setter" / "side.deleter" (astbuilder), documented under
     \* the anchors #side.setter / #side.deleter; Impl overrides the setter with @CBase.side.setter
     B("pk.cyca.CBase.side", "side", "Attribute", "pk.cyca.CBase", "S"),
     \* (the decorator lines "@side.setter" / "@CBase.side.setter" are colorized: the dotted name resolves to the function
     \* object of that name and is linked from the function header, like an annotation)
     [B("pk.cyca.CBase.side.setter", "side.setter", "Function", "pk.cyca.CBase", "S") EXCEPT !.annrefs = {"pk.cyca.CBase.side.setter"}],
     [B("pk.cyca.CBase.side.deleter", "side.deleter", "Function", "pk.cyca.CBase", "S") EXCEPT !.annrefs = {"pk.cyca.CBase.side.deleter"}],
     [B("pk.cycb.Impl.side.setter", "side.setter", "Function", "pk.cycb.Impl", "S") EXCEPT !.annrefs = {"pk.cyca.CBase.side.setter"}],
     B("pk.cycb", "cycb", "Module", "pk", "C"),
     [B("pk.cycb.Impl", "Impl", "Class", "pk.cycb", "I") EXCEPT !.bases = <<"pk.cyca.CBase">>,
          !.mro = <<"pk.cycb.Impl", "pk.cyca.CBase">>, !.subclasses = {"pk.cycb.Special"}],
     B("pk.cycb.Impl.run", "run", "Function", "pk.cycb.Impl", "R"),
     [B("pk.cycb.Special", "Special", "Class", "pk.cycb", "S") EXCEPT !.bases = <<"pk.cycb.Impl">>,
          !.mro = <<"pk.cycb.Special", "pk.cycb.Impl", "pk.cyca.CBase">>],
     [B("pk.mod.func", "func", "Function", "pk.mod", "F") EXCEPT
          !.annrefs = {"pk.mod.Hid", "pk.mod.Base"},
          !.xrefs = {"pk.mod.Sub"} \cup (IF f.move THEN {"pk.Moved"} ELSE {}),
          !.sumrefs = {"pk.mod.Sub"} \cup (IF f.move THEN {"pk.Moved"} ELSE {})] }
  \cup (IF f.nested THEN
     \* class Sub: Tag = TypeVar("Tag"); class Inner(Generic[Tag]): the base is external, its argument Tag is a class-level
     \* attribute of the ENCLOSING class, linked from the class header of Inner (sigrefs)
     { B("pk.mod.Sub.Tag", "Tag", "Attribute", "pk.mod.Sub", "T"),
       [B("pk.mod.Sub.Inner", "Inner", "Class", "pk.mod.Sub", "I") EXCEPT !.bases = <<None>>, !.sigrefs = {"pk.mod.Sub.Tag"}],
       [B("pk.mod.Sub.Inner.im", "im", "Function", "pk.mod.Sub.Inner", "I") EXCEPT !.doc = FALSE] } ELSE {})
  \cup (IF f.dup THEN      \* class Dup defined twice in pk/mod.py: the older one becomes "Dup 0" (model.py:1381)
     { [B("pk.mod.Dup 0", "Dup 0", "Class", "pk.mod", "D") EXCEPT !.incontents = FALSE, !.dupname = TRUE, !.dupfull = TRUE,
                                                                   !.qid = "pk.mod.Dup%200"],
       [B("pk.mod.Dup 0.a", "a", "Function", "pk.mod.Dup 0", "A") EXCEPT !.dupfull = TRUE, !.doc = FALSE, !.qid = "pk.mod.Dup%200.a"],
       B("pk.mod.Dup", "Dup", "Class", "pk.mod", "D"),
       [B("pk.mod.Dup.b", "b", "Function", "pk.mod.Dup", "B") EXCEPT !.doc = FALSE] } ELSE {})
  \cup (IF f.move THEN     \* pk/__init__.py: from pk._impl import Moved, mf; __all__ = ['Moved', 'mf']  (re-export move)
     \* mf(x=1) and Moved.mm(self, n=1) have a default value (their docstring linker exists since AST time, before the
     \* move) and their docstrings refer to helper, which stays in pk._impl
     \* mf's signature is annotated (rendering it switches linker contexts in a nested way); the docstrings of pk._impl and
     \* of helper refer to pk.mf, documented on the package page, which is written BEFORE the page of pk._impl
     { [B("pk._impl", "_impl", "Module", "pk", "_") EXCEPT !.priv = "PRIVATE", !.xrefs = {"pk.mf"}, !.sumrefs = {"pk.mf"}],
       [B("pk._impl.helper", "helper", "Function", "pk._impl", "H") EXCEPT !.xrefs = {"pk.mf"}, !.sumrefs = {"pk.mf"}],
       [B("pk.mf", "mf", "Function", "pk", "M") EXCEPT !.xrefs = {"pk._impl.helper"}, !.sumrefs = {"pk._impl.helper"}],
       B("pk.Moved", "Moved", "Class", "pk", "M"),
       [B("pk.Moved.mm", "mm", "Function", "pk.Moved", "M") EXCEPT !.xrefs = {"pk._impl.helper"}, !.sumrefs = {"pk._impl.helper"}] } ELSE {})
  \cup (IF f.multi THEN    \* a second root: module m2 with a subclass of pk.mod.Base
     { B("m2", "m2", "Module", None, "M"),
       [B("m2.K", "K", "Class", "m2", "K") EXCEPT !.bases = <<"pk.mod.Base">>, !.mro = <<"m2.K", "pk.mod.Base">>],
       [B("m2.K.other", "other", "Function", "m2.K", "O") EXCEPT !.docsrc = "pk.mod.Base.other",
            !.xrefs = {"pk.mod.Base.attr"}, !.sumrefs = {"pk.mod.Base.attr"}] } ELSE {})

\* objects whose privacy the enumeration varies, with the alternatives to their default
Alt(v) == CASE v = "pk" -> {"PRIVATE"}
            [] v = "pk._impl" -> {"PUBLIC", "HIDDEN"}
            [] OTHER -> {"PRIVATE", "HIDDEN"}
Varied(f) == {"pk", "pk.mod", "pk.mod.Base", "pk.mod.Base.meth", "pk.mod.Base.attr", "pk.mod.Hid", "pk.mod.Hid.hm",
              "pk.mod.Sub", "pk.mod.func", "pk.cyca.CBase.keep", "pk.cyca.CBase.side", "pk.cycb.Impl", "pk.cycb.Impl.run"}
             \cup (IF f.nested THEN {"pk.mod.Sub.Inner"} ELSE {})
             \cup (IF f.dup THEN {"pk.mod.Dup"} ELSE {})
             \cup (IF f.move THEN {"pk._impl", "pk.Moved"} ELSE {})
             \cup (IF f.multi THEN {"m2", "m2.K"} ELSE {})

Skeleton(f, assign, d) ==
  LET os == SkelObjs(f)
      pr(o) == IF \E r \in assign : r.id = o.id THEN (CHOOSE r \in assign : r.id = o.id).p ELSE o.priv
  IN [objs  |-> [i \in {o.id : o \in os} |-> LET o == CHOOSE x \in os : x.id = i IN [o EXCEPT !.priv = pr(o)]],
      roots |-> IF f.multi THEN <<"pk", "m2">> ELSE <<"pk">>,
      depth |-> d]

(***************************************************************************)
(* 2. Object model read from the projection of a real System (file mode)   *)
(***************************************************************************)
Norm(o) == [id |-> o.id, qid |-> o.qid, name |-> o.name, cls |-> o.cls, parent |-> o.parent, priv |-> o.priv,
            incontents |-> o.incontents, inall |-> o.inall, bases |-> o.bases, mro |-> o.mro, subclasses |-> Range(o.subclasses),
            doc |-> o.doc, docsrc |-> o.docsrc, module |-> o.module, locals |-> {}, xrefs |-> {}, sumrefs |-> {}, annrefs |-> {}, sigrefs |-> {},
            initial |-> o.initial, dupname |-> o.dupname, dupfull |-> o.dupfull]
FromProjection(c) == [objs |-> [i \in DOMAIN c.objs |-> Norm(c.objs[i])], roots |-> c.roots, depth |-> c.depth]

Case == Cases[cid]
Model0 == IF Source = "enum" THEN Skeleton(feat, nd, depth)
          ELSE IF Case.kind = "enum" THEN Skeleton(Case.feat, Range(Case.nd), Case.depth)
          ELSE FromProjection(Case)
\* derived tables, computed once by action Build (TLC does not memoise operators):
RECURSIVE VisR(_, _)      \* model.py:360 Documentable.isVisible
VisR(os, i) == os[i].priv # "HIDDEN" /\ (os[i].parent = None \/ os[i].parent \notin DOMAIN os \/ VisR(os, os[i].parent))
RECURSIVE InTreeR(_, _)   \* reachable from a root through .contents (what _writeDocsFor / the inventory walk)
InTreeR(os, i) == os[i].incontents /\ (os[i].parent = None \/ (os[i].parent \in DOMAIN os /\ InTreeR(os, os[i].parent)))
Model == LET m0 == Model0  os == m0.objs IN
         [objs |-> os, roots |-> m0.roots, depth |-> m0.depth,
          vis |-> [i \in DOMAIN os |-> VisR(os, i)], intree |-> [i \in DOMAIN os |-> InTreeR(os, i)],
          kids |-> [i \in DOMAIN os |-> {c \in DOMAIN os : os[c].parent = i /\ os[c].incontents}]]
M == mdl

(***************************************************************************)
(* 3. What the code computes from the object model                         *)
(***************************************************************************)
Objs  == M.objs
Ids   == DOMAIN Objs
Roots == M.roots
IsOwn(i) == Objs[i].cls \in {"Package", "Module", "Class"}     \* DocLocation.OWN_PAGE
IsMod(i) == Objs[i].cls \in {"Package", "Module"}
IsCls(i) == Objs[i].cls = "Class"

Vis(i)         == M.vis[i]
InTree(i)      == M.intree[i]
Contents(i)    == M.kids[i]
VisContents(i) == {c \in Contents(i) : Vis(c)}
Names(S)       == {Objs[c].name : c \in S}
RECURSIVE Chain(_)
Chain(i) == {i} \cup (IF Objs[i].parent = None \/ Objs[i].parent \notin Ids THEN {} ELSE Chain(Objs[i].parent))
RECURSIVE ModuleOf(_)     \* model.py Documentable.module
ModuleOf(i) == IF IsMod(i) \/ Objs[i].parent = None THEN i ELSE ModuleOf(Objs[i].parent)

\* model.py:212-243  page_object / url : one scheme for pages and fragments, single root -> index.html
SingleRoot == Cardinality(Range(Roots)) = 1
Multi      == Cardinality(Range(Roots)) > 1
PageOf(i)  == IF IsOwn(i) THEN i ELSE Objs[i].parent
FileOf(i)  == IF SingleRoot /\ PageOf(i) = Roots[1] THEN "index" ELSE PageOf(i)
FragOf(i)  == IF IsOwn(i) THEN "" ELSE Objs[i].name
Url(i)     == [file |-> FileOf(i), frag |-> FragOf(i)]
\* writer.py:120 opens the QUOTED url as a file name: the page of an object whose name needs percent-encoding lies
\* on disk under the encoded name, while a link to it means the decoded name
Written(i) == IF FileOf(i) = "index" \/ Fx("percent-encoded-page-filename") THEN FileOf(i) ELSE Objs[PageOf(i)].qid

\* linker.py:21-47 taglink: NO visibility test (it only logs); a target on the linker's page is shortened to
\* "#frag", which the browser resolves against the page the fragment is RENDERED on.
TagLink(t, ctxfile, page) == IF ctxfile # "" /\ FileOf(t) = ctxfile /\ FragOf(t) # ""
                             THEN [file |-> page, frag |-> FragOf(t)] ELSE Url(t)      \* ctxfile: a FileOf(), page: a Written()

\* with the fix of link-to-hidden-object taglink() returns the bare label for a hidden target: no link
Linkable(S) == IF Fx("link-to-hidden-object") THEN {t \in S : Vis(t)} ELSE S
\* taglink(t, page_url = the url of page object p), written on p's own page
PL(t, p) == TagLink(t, FileOf(p), Written(p))

L(page, u, prod)     == [page |-> page, file |-> u.file, frag |-> u.frag, prod |-> prod, member |-> ""]
LM(page, u, prod, m) == [page |-> page, file |-> u.file, frag |-> u.frag, prod |-> prod, member |-> m]
E(page, kind, u, private) == [page |-> page, kind |-> kind, file |-> u.file, frag |-> u.frag, private |-> private]
IsPrivate(i) == Objs[i].priv # "PUBLIC"               \* model.py:372 isPrivate (HIDDEN counts)
MarkedPrivate(i) == Objs[i].priv = "PRIVATE"          \* util.py:34 css_class

\* writer.py:113 _writeDocsFor: visible, own page, reached through contents
ObjPages == {i \in Ids : IsOwn(i) /\ Vis(i) /\ InTree(i)}
SummaryFiles == {"moduleIndex", "classIndex", "nameIndex", "undoccedSummary", "all-documents"}
HtmlFiles == {Written(i) : i \in ObjPages} \cup SummaryFiles
             \cup (IF Multi THEN {"index"} ELSE {})                     \* summary.py:368 IndexPage
             \cup (IF SingleRoot THEN {Roots[1]} ELSE {})               \* writer.py:101 symlink <root>.html (not quoted)

\* pages/__init__.py:303 methods(): what gets a detail block (function-child.html / attribute-child.html)
Methods(p) == {c \in VisContents(p) : ~IsOwn(c)}

\* util.py:61-145 nested_bases / unmasked_attrs / class_members / inherited_members
Mro(p) == Objs[p].mro
Unmasked(p, k) == LET masking == UNION {Names(Contents(Mro(p)[j])) : j \in 1..(k-1)}
                  IN {c \in VisContents(Mro(p)[k]) : Objs[c].name \notin masking}
BaseIdx(p)   == {k \in 2..Len(Mro(p)) : Mro(p)[k] \in Ids /\ Unmasked(p, k) # {}}
Inherited(p) == UNION {Unmasked(p, k) : k \in BaseIdx(p)}

\* ---- producers on the page of object p (templatewriter/pages/__init__.py, table.py, sidebar.py)
Namespace(p, pf) == {L(pf, Url(a), "namespace") : a \in {x \in Chain(p) : IsOwn(x)}}                 \* :249
ChildTable(p, pf) == {L(pf, PL(c, p), "childTable") : c \in VisContents(p)}                             \* :283,:385; table.py:50
BaseTable(p, pf) == IF IsCls(p) THEN {L(pf, PL(c, p), "baseTable") : c \in Inherited(p)} ELSE {}        \* :483
BaseName(p, pf) == IF IsCls(p)                                                                        \* :497 (no visibility test)
                   THEN {L(pf, Url(b), "baseName") : b \in Linkable({Mro(p)[j] : j \in {j \in 2..Len(Mro(p)) : \E k \in BaseIdx(p) : j = k \/ (2 <= j /\ j < k)}})}
                   ELSE {}
ClassSignature(p, pf) == IF IsCls(p)                                                                  \* :68 format_class_signature
                         THEN {L(pf, Url(b), "classSignature") : b \in Linkable({b \in Range(Objs[p].bases) : b \in Ids})}
                              \* names inside the base expressions: _AnnotationLinker(cls) under switch_context(cls)
                              \cup {L(pf, TagLink(t, FileOf(p), pf), "classSignature") : t \in Linkable(Objs[p].sigrefs)}
                         ELSE {}
Subclasses(p, pf) == IF IsCls(p)                                                                      \* :465 assembleList filters on isVisible
                     THEN {L(pf, Url(s), "subclasses") : s \in {s \in Objs[p].subclasses : s \in Ids /\ Vis(s)}} ELSE {}
\* :517 get_override_info, called for the class itself and for every member shown (objectExtras)
Overridden(p, nm) == LET ks == {k \in 2..Len(Mro(p)) : Mro(p)[k] \in Ids /\ nm \in Names(Contents(Mro(p)[k]))}
                     IN IF ks = {} THEN {}
                        ELSE LET k == CHOOSE k \in ks : \A k2 \in ks : k <= k2
                             IN {c \in Contents(Mro(p)[k]) : Objs[c].name = nm}
\* pages/__init__.py:517 the "overrides X" note is written only for a visible X
OverridesNoted(p) == IF IsCls(p)
                     THEN {c \in UNION {Overridden(p, Objs[x].name) : x \in Methods(p) \cup {p}} : Vis(c)}
                     ELSE {}
Overrides(p, pf) == IF IsCls(p)                                                                       \* no visibility test
                    THEN {L(pf, PL(c, p), "overrides") : c \in Linkable(OverridesNoted(p))} ELSE {}
RECURSIVE OvSubs(_, _, _)      \* util.py:46 overriding_subclasses
OvSubs(c, nm, first) == IF ~first /\ nm \in Names(Contents(c)) THEN {c}
                        ELSE UNION {OvSubs(s, nm, FALSE) : s \in {s \in Objs[c].subclasses : s \in Ids /\ Vis(s)}}
\* :531 the classes the "overridden in A, B" notes of page p name (assembleList drops the hidden ones, :413)
OverriddenInNoted(p) == IF IsCls(p)
                        THEN {s \in UNION {OvSubs(p, Objs[x].name, TRUE) : x \in Methods(p) \cup {p}} : Vis(s)}
                        ELSE {}
OverriddenIn(p, pf) == {L(pf, Url(s), "overriddenIn") : s \in OverriddenInNoted(p)}
\* :465 the classes the "Known subclasses: A, B" paragraph names (same filter)
SubclassesNoted(p) == IF IsCls(p) THEN {s \in Objs[p].subclasses : s \in Ids /\ Vis(s)} ELSE {}
HeaderLink(p, pf) == {L(pf, [file |-> pf, frag |-> Objs[c].name], "headerLink") : c \in Methods(p)}   \* attributechild.py:47
InHierarchy(p, pf) == IF IsCls(p) THEN {L(pf, [file |-> "classIndex", frag |-> p], "inhierarchy")} ELSE {}   \* :479
\* epydoc2stan.py:783 format_docstring: the stan is made with the linker of the docstring's SOURCE object, whose
\* page is the source's page; it is rendered on page pf (deviation when the docstring is inherited)
\* (with the fix of inherited-docstring-samepage-link: full urls when source and object live on different pages)
DocCtx(c) == IF Fx("inherited-docstring-samepage-link") /\ PageOf(Objs[c].docsrc) # PageOf(c) THEN "" ELSE FileOf(Objs[c].docsrc)
\* node2stan.py HTMLTranslator.starttag: every id and every local href of a docstring gets the prefix "rst-", unless it
\* already starts with it - the SAME rule for the anchor and for the reference, so they keep pointing to each other
LocalId(t) == IF t.pre THEN t.id ELSE "rst-" \o t.id
Docstring(p, pf) == {L(pf, TagLink(t, DocCtx(p), pf), "docstring") : t \in Linkable(Objs[p].xrefs)}
                    \cup {L(pf, [file |-> pf, frag |-> LocalId(t)], "docstring") : t \in {t \in Objs[p].locals : t.ref}}
MemberDoc(p, pf) == UNION {{LM(pf, TagLink(t, DocCtx(c), pf), "memberDoc", c) : t \in Linkable(Objs[c].xrefs)} : c \in Methods(p)}
\* epydoc2stan.py:814 format_summary: switch_context(None) -> always full urls
SummaryRefs(pg, S) == UNION {{L(pg, Url(t), "summaryDoc") : t \in Linkable(Objs[c].sumrefs)} : c \in S}
\* linker.py:242 _AnnotationLinker: switch_context(obj) -> the page of the annotated object
Annotation(p, pf) == UNION {{L(pf, TagLink(t, FileOf(p), pf), "annotation") : t \in Linkable(Objs[c].annrefs)} : c \in Methods(p)}

\* sidebar.py: two sections (the object, and its package / module), items expand while level < depth
RECURSIVE SideItems(_, _)
SideItems(ob, level) ==
  LET direct == VisContents(ob) \cup (IF IsCls(ob) THEN {c \in Inherited(ob) : ~IsOwn(c)} ELSE {})   \* :146 only Function / Attribute lists
  IN direct \cup (IF level < M.depth THEN UNION {SideItems(c, level + 1) : c \in {c \in VisContents(ob) : IsOwn(c)}} ELSE {})
\* sidebar.py:54 the second section of a class page is the module the object is in NOW (walk up the parents; 7b4db5c), not
\* ob.module = Documentable.parentMod, which reparent() updates for the moved object only (field `module` of the projected
\* System still records that answer: everything below a re-exported class keeps the module it was defined in)
ModuleSeen(p) == ModuleOf(p)
SideSections(p) == {p} \cup (IF IsMod(p) THEN (IF Objs[p].parent = None THEN {} ELSE {Objs[p].parent}) ELSE {ModuleSeen(p)})
SideListed(p) == UNION {SideItems(s, 1) : s \in SideSections(p)}
SidebarTitle(p, pf) == {L(pf, Url(s), "sidebarTitle") : s \in Linkable(SideSections(p))}                      \* sidebar.py:82
\* sidebar.py:195 docstringToc: the "Contents" of the documented object's own docstring (get_toc builds the entries from the
\* SAME docutils document the body was rendered from: same ids), unless --sidebar-toc-depth is 0
TocOn == IF Source = "enum" THEN TRUE ELSE Case.toc
SidebarToc(p, pf) == IF TocOn THEN {L(pf, [file |-> pf, frag |-> LocalId(t)], "sidebarToc") : t \in {t \in Objs[p].locals : t.sec}} ELSE {}
SidebarItem(p, pf) == {L(pf, PL(c, p), "sidebarItem") : c \in SideListed(p)}                            \* sidebar.py:379

NavTargets == {"index", "moduleIndex", "classIndex", "nameIndex"}                                     \* nav.html, footer.html
Nav(pg) == {L(pg, [file |-> t, frag |-> ""], "nav") : t \in NavTargets}

ObjPageLinks(p) ==
  LET pf == Written(p) IN
  Namespace(p, pf) \cup ChildTable(p, pf) \cup BaseTable(p, pf) \cup BaseName(p, pf) \cup ClassSignature(p, pf)
  \cup Subclasses(p, pf) \cup Overrides(p, pf) \cup OverriddenIn(p, pf) \cup HeaderLink(p, pf) \cup InHierarchy(p, pf)
  \cup Docstring(p, pf) \cup MemberDoc(p, pf) \cup Annotation(p, pf)
  \cup SummaryRefs(pf, VisContents(p) \cup (IF IsCls(p) THEN Inherited(p) ELSE {}))
  \cup SidebarTitle(p, pf) \cup SidebarItem(p, pf) \cup SidebarToc(p, pf) \cup Nav(pf)

ObjPageEntries(p) ==
  LET pf == Written(p) IN
  {E(pf, "overridesNote", Url(c), FALSE) : c \in OverridesNoted(p)} \cup
  {E(pf, "overriddenInNote", Url(s), FALSE) : s \in OverriddenInNoted(p)} \cup     \* a class named by a note, linked or not
  {E(pf, "subclassesNote", Url(s), FALSE) : s \in SubclassesNoted(p)} \cup
  {E(pf, "table", PL(c, p), MarkedPrivate(c)) : c \in VisContents(p) \cup (IF IsCls(p) THEN Inherited(p) ELSE {})}   \* table.py:30
  \cup {E(pf, "detail", [file |-> pf, frag |-> Objs[c].name], MarkedPrivate(c)) : c \in Methods(p)}                  \* attributechild.py:33
  \cup {E(pf, "sidebarTitle", Url(s), FALSE) : s \in SideSections(p)}     \* the section title names s, linked or not
  \cup {E(pf, "sidebar", PL(c, p), IsPrivate(c)) : c \in SideListed(p)}                                                \* sidebar.py:329

\* ---- summary.py
RECURSIVE ModTree(_)      \* :20 moduleSummary ; the roots themselves are NOT filtered on visibility (:75)
ModTree(m) == {m} \cup (IF Objs[m].cls = "Package" THEN UNION {ModTree(s) : s \in {c \in VisContents(m) : IsMod(c)}} ELSE {})
ListedRoots == IF Fx("hidden-root-listed") THEN {r \in Range(Roots) : Vis(r)} ELSE Range(Roots)
ModListed == UNION {ModTree(r) : r \in ListedRoots}
\* (an item whose link taglink() refused is still written: an entry, identified by the name it displays)
ModuleIndexLinks == {L("moduleIndex", Url(m), "moduleIndex") : m \in Linkable(ModListed)} \cup SummaryRefs("moduleIndex", ModListed)
ModuleIndexEntries == {E("moduleIndex", "moduleIndex", Url(m), IsPrivate(m)) : m \in ModListed}

\* :84 findRootClasses / :130 subclassesFrom
Documented(i) == Vis(i) /\ InTree(i)     \* util.is_documented() of the fix of superseded-duplicate-listed
CIClasses == {c \in Ids : IsCls(c) /\ Objs[c].inall /\ Vis(c) /\ (IF Fx("superseded-duplicate-listed") THEN InTree(c) ELSE ~Objs[c].dupname)}
CITop == {c \in CIClasses : Objs[c].bases = <<>> \/ \E j \in DOMAIN Objs[c].bases :
                               Objs[c].bases[j] \notin Ids \/ ~Vis(Objs[c].bases[j])}
RECURSIVE CIReach(_)
CIReach(c) == {c} \cup UNION {CIReach(s) : s \in {s \in Objs[c].subclasses : s \in Ids /\ Vis(s)
                                   /\ (IF Fx("superseded-duplicate-listed") THEN InTree(s) ELSE ~Objs[s].dupfull)}}
CIListed == UNION {CIReach(t) : t \in CITop}
RECURSIVE PrivCtx(_)      \* :107 isPrivate(obj): the object or one of its containers
PrivCtx(i) == IsPrivate(i) \/ (Objs[i].parent # None /\ Objs[i].parent \in Ids /\ PrivCtx(Objs[i].parent))
RECURSIVE ClassNodePrivate(_)   \* :118
ClassNodePrivate(c) == PrivCtx(c) /\ \A s \in {s \in Objs[c].subclasses : s \in Ids} : ClassNodePrivate(s)
ClassIndexLinks == {L("classIndex", Url(c), "classIndex") : c \in CIListed} \cup SummaryRefs("classIndex", CIListed)
ClassIndexEntries == {E("classIndex", "classIndex", Url(c), ClassNodePrivate(c)) : c \in CIListed}

\* :273 NameIndexPage, :330 UndocumentedSummaryPage, search.py:21, :118 : built from allobjects, visible only
AllVisible == {i \in Ids : Objs[i].inall /\ Vis(i) /\ (Fx("superseded-duplicate-listed") => InTree(i))}
Initials == {Objs[i].initial : i \in AllVisible}
NameIndexLinks == {L("nameIndex", Url(i), "nameIndex") : i \in AllVisible}
                  \cup (IF Cardinality(Initials) > 1 THEN {L("nameIndex", [file |-> "nameIndex", frag |-> x], "letterlinks") : x \in Initials} ELSE {})
NameIndexEntries == {E("nameIndex", "nameIndex", Url(i), PrivCtx(i)) : i \in AllVisible}
Undocced == {i \in AllVisible : ~Objs[i].doc}
UndoccedLinks == {L("undoccedSummary", Url(i), "undocced") : i \in Undocced}
UndoccedEntries == {E("undoccedSummary", "undocced", Url(i), FALSE) : i \in Undocced}
\* :300 IndexPage (more than one root): the roots are NOT filtered on visibility (:310)
IndexLinks == IF Multi THEN {L("index", Url(r), "indexRoots") : r \in Linkable(ListedRoots)}
                            \cup {L("index", [file |-> t, frag |-> ""], "indexStatic") : t \in {"moduleIndex", "classIndex", "nameIndex"}}
                       ELSE {}
IndexEntries == IF Multi THEN {E("index", "indexRoots", Url(r), FALSE) : r \in ListedRoots} ELSE {}
AllDocsLinks == SummaryRefs("all-documents", AllVisible)
Docs == {[id |-> i, file |-> FileOf(i), frag |-> FragOf(i), privacy |-> Objs[i].priv] : i \in AllVisible}
Search == AllVisible
Inventory == {i \in Ids : Vis(i) /\ InTree(i)}            \* sphinx.py:226 walks contents

AnchorsOf(pg) ==                                            \* <a name=...> anchors
  IF pg = "classIndex" THEN CIListed                        \* summary.py:139
  ELSE IF pg = "nameIndex" THEN Initials                    \* nameIndex.html
  ELSE UNION {{Objs[c].name, c} : c \in UNION {Methods(p) : p \in {p \in ObjPages : Written(p) = pg}}}   \* function-child.html

Pred ==
  [files   |-> HtmlFiles,
   nameanchors |-> [pg \in HtmlFiles |-> IF SingleRoot /\ pg = Roots[1] THEN AnchorsOf("index") ELSE AnchorsOf(pg)],
   \* + the ids of the targets inside the docstrings shown on the page (id= attributes)
   anchors |-> [pg \in HtmlFiles |-> LET pg2 == IF SingleRoot /\ pg = Roots[1] THEN "index" ELSE pg IN
                                     AnchorsOf(pg2) \cup UNION {{LocalId(t) : t \in Objs[p].locals} : p \in {p \in ObjPages : Written(p) = pg2}}],
   links   |-> UNION {ObjPageLinks(p) : p \in ObjPages} \cup ModuleIndexLinks \cup ClassIndexLinks \cup NameIndexLinks
               \cup UndoccedLinks \cup IndexLinks \cup AllDocsLinks
               \cup UNION {Nav(pg) : pg \in SummaryFiles \cup (IF Multi THEN {"index"} ELSE {})},
   entries |-> UNION {ObjPageEntries(p) : p \in ObjPages} \cup ModuleIndexEntries \cup ClassIndexEntries
               \cup NameIndexEntries \cup UndoccedEntries \cup IndexEntries,
   subjects |-> [pg \in HtmlFiles |-> IF \E p \in ObjPages : Written(p) = pg THEN CHOOSE p \in ObjPages : Written(p) = pg
                                      ELSE IF SingleRoot /\ pg = Roots[1] THEN Roots[1] ELSE ""],
   inv     |-> Inventory, docs |-> Docs, search |-> Search, fsearch |-> Search,
   encfiles |-> {FileOf(i) : i \in {i \in ObjPages : Written(i) # FileOf(i)}}]
PredView == [i \in Ids |-> [id |-> i, parent |-> Objs[i].parent, priv |-> Objs[i].priv, own |-> IsOwn(i),
                            file |-> FileOf(i), frag |-> FragOf(i), intree |-> InTree(i),
                            root |-> Objs[i].parent = None, docsrc |-> Objs[i].docsrc, mro |-> Range(Objs[i].mro),
                            subs |-> {x \in Objs[i].subclasses : x \in Ids}, main |-> IsMod(i) /\ Objs[i].name = "__main__"]]

(***************************************************************************)
(* 4. The properties, over an object view O (id -> [parent, priv, own,     *)
(*    file, frag, intree, root, docsrc, mro]) and a site S.  From the       *)
(*    statements of C11 / C12, not from the code.  A link means the file   *)
(*    with the DECODED name (what a browser / web server resolves).        *)
(***************************************************************************)
RECURSIVE HiddenIn(_, _)   \* "an object whose privacy is HIDDEN, and everything inside it"
HiddenIn(O, i) == O[i].priv = "HIDDEN" \/ (O[i].parent # None /\ O[i].parent \in DOMAIN O /\ HiddenIn(O, O[i].parent))
Resolves(S, f, g) == f \in S.files /\ (g = "" \/ (f \in DOMAIN S.anchors /\ g \in S.anchors[f]))

\* C11
BadLinks(S) == {l \in S.links : ~Resolves(S, l.file, l.frag)}
BadDocs(S)  == {d \in S.docs : ~Resolves(S, d.file, d.frag)}
\* "has its OWN page at the address links use for it": the file exists and is the page of that object
NoPage(O, S)   == {i \in DOMAIN O : ~HiddenIn(O, i) /\ O[i].own
                                     /\ ~(O[i].file \in S.files /\ O[i].file \in DOMAIN S.subjects /\ S.subjects[O[i].file] = i)}
NoAnchor(O, S) == {i \in DOMAIN O : ~HiddenIn(O, i) /\ ~O[i].own /\ ~(O[i].frag # "" /\ Resolves(S, O[i].file, O[i].frag))}
LinksResolve(O, S)           == BadLinks(S) = {} /\ BadDocs(S) = {}
VisibleHasPage(O, S)         == NoPage(O, S) = {}
VisibleMemberHasAnchor(O, S) == NoAnchor(O, S) = {}

\* C12
MarkedKinds == {"table", "detail", "sidebar", "moduleIndex", "nameIndex"}    \* + search documents (docs.privacy)
CoreKinds == {"table", "detail", "sidebar", "moduleIndex"}     \* listings whose marker depends on the object alone
HiddenSet(O)  == {i \in DOMAIN O : HiddenIn(O, i)}
VisibleUrls(O) == {<<O[i].file, O[i].frag>> : i \in {i \in DOMAIN O : ~HiddenIn(O, i)}}
\* addresses that belong to hidden objects only (a superseding visible definition owns its address)
HidPages(O, multi) == {O[h].file : h \in {h \in HiddenSet(O) : O[h].own /\ <<O[h].file, "">> \notin VisibleUrls(O)
                                                                /\ ~(multi /\ O[h].file = "index")}}
HidFrags(O) == {<<O[h].file, O[h].frag>> : h \in {h \in HiddenSet(O) : ~O[h].own /\ <<O[h].file, O[h].frag>> \notin VisibleUrls(O)}}
HidIds(O)   == {h \in HiddenSet(O) : <<O[h].file, O[h].frag>> \notin VisibleUrls(O)}
Targets(O, multi, f, g) == f \in HidPages(O, multi) \/ <<f, g>> \in HidFrags(O)
HiddenTraces(O, S, multi) ==
  LET hp == HidPages(O, multi)  hf == HidFrags(O)  hi == HidIds(O)
      tg(f, g) == f \in hp \/ <<f, g>> \in hf
  IN  {[trace |-> "file", page |-> "", file |-> f, frag |-> "", prod |-> ""] : f \in hp \cap (S.files \cup S.encfiles)}
 \cup {[trace |-> "anchor", page |-> "", file |-> x[1], frag |-> x[2], prod |-> ""] :
           x \in {x \in hf : x[1] \in DOMAIN S.anchors /\ x[2] \in S.anchors[x[1]]}}
 \cup {[trace |-> "link", page |-> l.page, file |-> l.file, frag |-> l.frag, prod |-> l.prod] : l \in {l \in S.links : tg(l.file, l.frag)}}
 \cup {[trace |-> "entry", page |-> e.page, file |-> e.file, frag |-> e.frag, prod |-> e.kind] : e \in {e \in S.entries : tg(e.file, e.frag)}}
 \cup {[trace |-> "inventory", page |-> "", file |-> i, frag |-> "", prod |-> ""] : i \in hi \cap S.inv}
 \cup {[trace |-> "searchDoc", page |-> "", file |-> i, frag |-> "", prod |-> ""] : i \in hi \cap {d.id : d \in S.docs}}
 \cup {[trace |-> "searchindex", page |-> "", file |-> i, frag |-> "", prod |-> ""] : i \in hi \cap S.search}
 \cup {[trace |-> "fullsearchindex", page |-> "", file |-> i, frag |-> "", prod |-> ""] : i \in hi \cap S.fsearch}
\* classIndex.html is a tree: the item of a PRIVATE class holds the items of its subclasses, so it must carry the marker
\* unless that would hide a visible subclass (at any depth) that is not private itself nor by its containers
RECURSIVE PrivCtxIn(_, _)
PrivCtxIn(O, i) == O[i].priv # "PUBLIC" \/ (O[i].parent # None /\ O[i].parent \in DOMAIN O /\ PrivCtxIn(O, O[i].parent))
RECURSIVE Excused(_, _, _)
Excused(O, c, seen) == \E x \in O[c].subs \ seen : (~HiddenIn(O, x) /\ ~PrivCtxIn(O, x)) \/ Excused(O, x, seen \cup {x})
ClassNodeUrls(O) == {<<O[i].file, O[i].frag>> : i \in {i \in DOMAIN O : ~HiddenIn(O, i) /\ O[i].priv = "PRIVATE" /\ ~Excused(O, i, {i})}}
PrivUrls(O) == {<<O[i].file, O[i].frag>> : i \in {i \in DOMAIN O : ~HiddenIn(O, i) /\ O[i].priv = "PRIVATE"}}
Unmarked(O, S) ==
  LET pu == PrivUrls(O)  cu == ClassNodeUrls(O)
      \* whatever privacy the System gives an object, its listings must tell the same story: an address that carries the
      \* marker in one of the listings named by the statement must carry it in all of them and in its search document
      marked == {<<e.file, e.frag>> : e \in {e \in S.entries : e.kind \in CoreKinds /\ e.private}}
  IN  {[page |-> e.page, kind |-> e.kind, file |-> e.file, frag |-> e.frag] :
          e \in {e \in S.entries : e.kind \in CoreKinds /\ ~e.private /\ <<e.file, e.frag>> \in marked}}
 \cup {[page |-> "all-documents", kind |-> "searchDoc", file |-> d.file, frag |-> d.frag] :
          d \in {d \in S.docs : d.privacy # "PRIVATE" /\ <<d.file, d.frag>> \in marked}}
 \cup
      {[page |-> e.page, kind |-> e.kind, file |-> e.file, frag |-> e.frag] :
          e \in {e \in S.entries : ~e.private /\ (\/ (e.kind \in MarkedKinds /\ <<e.file, e.frag>> \in pu)
                                                  \/ (e.kind = "classIndex" /\ <<e.file, e.frag>> \in cu))}}
 \cup {[page |-> "all-documents", kind |-> "searchDoc", file |-> d.file, frag |-> d.frag] :
          d \in {d \in S.docs : d.privacy # "PRIVATE" /\ d.id \in DOMAIN O /\ ~HiddenIn(O, d.id) /\ O[d.id].priv = "PRIVATE"}}
HiddenNoTrace(O, S, multi) == HiddenTraces(O, S, multi) = {}
PrivateMarked(O, S)        == Unmarked(O, S) = {}

(***************************************************************************)
(* 5. Known findings (DESIGN.md 2.5): named predicates over one failing    *)
(*    instance; the harness has a Python twin of each.                     *)
(***************************************************************************)
\* the page of an object whose name needs percent-encoding is written under the ENCODED name (writer.py:120)
KF_EncodedFilename(S, f) == f \in S.encfiles
\* a superseded duplicate ("name 0", not in parent.contents) and everything below it: still in allobjects
Superseded(O) == {i \in DOMAIN O : ~HiddenIn(O, i) /\ ~O[i].intree}
IsSupersededUrl(O, f, g) == \E i \in Superseded(O) : O[i].file = f /\ O[i].frag = g
AllObjectsProds == {"nameIndex", "undocced", "classIndex", "searchDoc"}
\* ... listed by the producers that iterate allobjects, although no page / anchor is written for it
KF_SupersededListed(O, l) == l.prod \in AllObjectsProds /\ IsSupersededUrl(O, l.file, l.frag)
\* ... linked as a base class / inherited member / override (class A(A) redefinition idiom), and the subclass of a
\* superseded ancestor never enters classIndex.html, so its "View In Hierarchy" anchor is missing
\* (only the links that FOLLOW FROM the class hierarchy: a docstring / annotation reference that lands on a superseded
\* object - names are never resolved to one - is not part of this finding)
HierarchyProds == {"classSignature", "baseName", "baseTable", "sidebarItem", "subclasses", "overrides", "overridesNote", "overriddenIn",
                   "overriddenInNote", "subclassesNote"}
KF_SupersededNotRendered(O, l) == \/ (l.prod \in HierarchyProds /\ IsSupersededUrl(O, l.file, l.frag))
                                  \/ (l.prod = "inhierarchy" /\ l.file = "classIndex" /\ l.frag \in DOMAIN O
                                      /\ \E b \in O[l.frag].mro : b \in Superseded(O))
\* inherited docstring: "#frag" made for the source's page, rendered on the inheriting member's page
KF_InheritedDocLink(O, l) == l.prod = "memberDoc" /\ l.file = l.page /\ l.frag # "" /\ l.member \in DOMAIN O
                             /\ O[l.member].docsrc # l.member
\* taglink() builds the link although the target is hidden
TagLinkProds == {"classSignature", "annotation", "docstring", "memberDoc", "summaryDoc", "overrides", "baseName", "extras"}
KF_LinkToHidden(O, multi, l) == l.prod \in TagLinkProds /\ Targets(O, multi, l.file, l.frag)
\* the lists of root modules (moduleIndex, index.html) are not filtered on visibility
KF_HiddenRootListed(O, l) == l.prod \in {"moduleIndex", "indexRoots"} /\ \E r \in HiddenSet(O) : O[r].root /\ O[r].file = l.file /\ l.frag = ""

\* a section title of a docstring links back to the ToC entry id of the LAST build_table_of_content() call made before
\* the docstring was rendered; sidebar.py rebuilds the ToC (fresh ids) for every ObjContent, also on other pages
KF_TocBackrefStale(l) == l.prod = "tocBackref" /\ l.file = l.page /\ l.frag # ""

\* docutils writes the link from a footnote back to its reference(s) directly (footnote_backrefs), not through starttag():
\* "#footnote-reference-1" while the id of the reference is "rst-footnote-reference-1"
KF_FootnoteBackref(l) == l.prod = "fnBackref" /\ l.file = l.page /\ l.frag # ""
\* a reference to a target inside the docstring, standing in the summary paragraph, is copied as "#rst-x" with the summary
\* into the tables and indexes of OTHER pages, where that anchor does not exist
KF_SummaryLocalRef(l) == l.prod = "summaryLocalRef" /\ l.file = l.page /\ l.frag # ""

\* the title of the second sidebar section names the HIDDEN module a nested class was defined in before its enclosing
\* class was re-exported
KF_SidebarTitleHidden(O, multi, l) == l.prod = "sidebarTitle" /\ Targets(O, multi, l.file, l.frag)
\* get_override_info() writes "overrides <full name>" although the overridden member is hidden
KF_OverridesNoteHidden(O, multi, l) == l.prod = "overridesNote" /\ Targets(O, multi, l.file, l.frag)
\* Module.privacyClass answers PRIVATE for a module named __main__ before the rules are consulted: a rule that hides it
\* (customize.rst: rules override the defaults) has no effect, the module and its members are rendered
RECURSIVE InMain(_, _)
InMain(O, i) == (O[i].main /\ O[i].priv = "HIDDEN") \/ (O[i].parent # None /\ O[i].parent \in DOMAIN O /\ InMain(O, O[i].parent))
MainHidden(O) == {i \in DOMAIN O : InMain(O, i)}
KF_MainIgnoresRules(O, f, g) == \E i \in MainHidden(O) : (O[i].file = f /\ (O[i].own \/ O[i].frag = g)) \/ (i = f /\ g = "")

KfLink(O, S, multi, l) == IF KF_EncodedFilename(S, l.file) THEN "percent-encoded-page-filename"
                          ELSE IF KF_OverridesNoteHidden(O, multi, l) THEN "overrides-note-names-hidden-member"
                          ELSE IF KF_SidebarTitleHidden(O, multi, l) THEN "sidebar-names-hidden-origin-module"
                          ELSE IF KF_TocBackrefStale(l) THEN "toc-backref-stale-id"
                          ELSE IF KF_FootnoteBackref(l) THEN "footnote-backref-unprefixed"
                          ELSE IF KF_SummaryLocalRef(l) THEN "summary-local-reference-copied"
                          ELSE IF KF_SupersededListed(O, l) THEN "superseded-duplicate-listed"
                          ELSE IF KF_InheritedDocLink(O, l) THEN "inherited-docstring-samepage-link"
                          ELSE IF KF_LinkToHidden(O, multi, l) THEN "link-to-hidden-object"
                          ELSE IF KF_HiddenRootListed(O, l) THEN "hidden-root-listed"
                          ELSE IF KF_SupersededNotRendered(O, l) THEN "superseded-duplicate-not-rendered"
                          ELSE "none"
KfObj(O, S, i) == IF KF_EncodedFilename(S, O[i].file) THEN "percent-encoded-page-filename"
                  ELSE IF i \in Superseded(O) THEN "superseded-duplicate-not-rendered" ELSE "none"

Verdict(O, S, multi) ==
  [LinksResolve |-> {[page |-> l.page, file |-> l.file, frag |-> l.frag, prod |-> l.prod, kf |-> KfLink(O, S, multi, l)] : l \in BadLinks(S)}
                    \cup {[page |-> "all-documents", file |-> d.file, frag |-> d.frag, prod |-> "searchDoc",
                           kf |-> KfLink(O, S, multi, [page |-> "all-documents", file |-> d.file, frag |-> d.frag, prod |-> "searchDoc", member |-> ""])] : d \in BadDocs(S)},
   VisibleHasPage |-> {[obj |-> i, kf |-> KfObj(O, S, i)] : i \in NoPage(O, S)},
   VisibleMemberHasAnchor |-> {[obj |-> i, kf |-> KfObj(O, S, i)] : i \in NoAnchor(O, S)},
   HiddenNoTrace |-> {[trace |-> t.trace, page |-> t.page, file |-> t.file, frag |-> t.frag, prod |-> t.prod,
                       kf |-> IF KF_MainIgnoresRules(O, t.file, t.frag) THEN "main-module-ignores-rules"
                              ELSE IF t.trace \in {"link", "entry"}
                              THEN KfLink(O, S, multi, [page |-> t.page, file |-> t.file, frag |-> t.frag, prod |-> t.prod, member |-> ""])
                              ELSE "none"] : t \in HiddenTraces(O, S, multi)},
   PrivateMarked |-> Unmarked(O, S)]

(***************************************************************************)
(* 6. Enumeration (design level) and validation of observed sites          *)
(***************************************************************************)
Sig(v) == {[inv |-> "LinksResolve", prod |-> x.prod, kf |-> x.kf] : x \in v.LinksResolve}
          \cup {[inv |-> "VisibleHasPage", prod |-> "", kf |-> x.kf] : x \in v.VisibleHasPage}
          \cup {[inv |-> "VisibleMemberHasAnchor", prod |-> "", kf |-> x.kf] : x \in v.VisibleMemberHasAnchor}
          \cup {[inv |-> "HiddenNoTrace", prod |-> x.prod, kf |-> x.kf] : x \in v.HiddenNoTrace}
          \cup {[inv |-> "PrivateMarked", prod |-> x.kind, kf |-> "none"] : x \in v.PrivateMarked}

\* ---- design level: the invariants on the predicted site of an enumerated model
\* which (relation, privacy of source, privacy of target) combinations a model exhibits: the harness realises a sample
\* of the models that covers every combination some model has (effective privacy: HIDDEN also by container)
Eff(i) == IF ~Vis(i) THEN "HIDDEN" ELSE Objs[i].priv
Fact(r, a, b) == [rel |-> r, a |-> Eff(a), b |-> Eff(b)]
Cov == {Fact("member", Objs[i].parent, i) : i \in {i \in Ids : Objs[i].parent # None}}
       \cup UNION {{Fact("subclass", c, x) : x \in {x \in Objs[c].subclasses : x \in Ids}} : c \in {c \in Ids : IsCls(c)}}
       \cup UNION {{Fact("xref", i, t) : t \in Objs[i].xrefs} : i \in Ids}
       \cup UNION {{Fact("annotation", i, t) : t \in Objs[i].annrefs} : i \in Ids}
       \cup UNION {{Fact("inheritsdoc", i, Objs[i].docsrc)} : i \in {i \in Ids : Objs[i].docsrc # i}}
       \cup UNION {UNION {{Fact("overrides", x, c) : c \in Overridden(p, Objs[x].name)} : x \in Contents(p)} : p \in {p \in Ids : IsCls(p)}}
       \cup UNION {UNION {{[rel |-> "inherited2", a |-> Eff(Mro(p)[k]), b |-> Eff(c)] : c \in Contents(Mro(p)[k])} : k \in {k \in 3..Len(Mro(p)) : Mro(p)[k] \in Ids}} : p \in {p \in Ids : IsCls(p)}}
       \* objects sharing a short name (listed together in nameIndex.html), per name
       \cup UNION {{[rel |-> "samename:" \o Objs[i].name, a |-> Eff(i), b |-> Eff(j)] :
                       j \in {j \in Ids : j # i /\ Objs[j].name = Objs[i].name}} : i \in Ids}
       \cup {[rel |-> "root", a |-> Eff(r), b |-> IF Multi THEN "multi" ELSE "single"] : r \in Range(Roots)}
       \cup {[rel |-> "feature", a |-> x, b |-> IF M.depth > 1 THEN "expanded" ELSE "flat"] :
                 x \in {x \in {"dup", "move", "multi", "nested"} : (x = "dup" /\ feat.dup) \/ (x = "move" /\ feat.move)
                                                                   \/ (x = "multi" /\ feat.multi) \/ (x = "nested" /\ feat.nested)}}
EnumOut == LET P == Pred  V == PredView IN
           [feat |-> feat, depth |-> depth, nd |-> nd, nobjs |-> Cardinality(Ids), npages |-> Cardinality(ObjPages),
            nlinks |-> Cardinality(P.links), sig |-> Sig(Verdict(V, P, Multi)), cov |-> Cov]

\* ---- observed sites
ObsSite == [files   |-> Range(Case.site.files),
            anchors |-> [pg \in DOMAIN Case.site.anchors |-> Range(Case.site.anchors[pg])],
            links   |-> Range(Case.site.links), entries |-> Range(Case.site.entries),
            inv     |-> Range(Case.site.inv), docs |-> Range(Case.site.docs),
            search  |-> Range(Case.site.search), fsearch |-> Range(Case.site.fsearch),
            encfiles |-> Range(Case.site.encfiles), subjects |-> Case.site.subjects]
RECURSIVE CaseInTree(_)
CaseInTree(i) == Case.objs[i].incontents /\ (Case.objs[i].parent = None
                    \/ (Case.objs[i].parent \in DOMAIN Case.objs /\ CaseInTree(Case.objs[i].parent)))
\* customize.rst: "The order of arguments matters. Pattern added last have priority over a pattern added before, but
\* an exact match wins over a fnmatch."  For an object named exactly by rules of the list the privacy the manual
\* promises is that of the LAST such rule, whatever System.privacyClass answered; otherwise (patterns, defaults: C13)
\* the System's answer is taken.  The property is judged against this expected privacy.
\* A custom --system-class may override privacyClass(), call super() and adjust the answer (documented customisation): the
\* harness's AdjustingSystem gives the objects named in Case.custom the privacy listed there, whatever the rules say.
ExactRules(i) == {k \in DOMAIN Case.rules : Case.rules[k].m = i}
CustomFor(i)  == {k \in DOMAIN Case.custom : Case.custom[k].m = i}
Expected(i, sys) == IF CustomFor(i) # {} THEN Case.custom[CHOOSE k \in CustomFor(i) : TRUE].p
                    ELSE IF ExactRules(i) = {} THEN sys
                    ELSE Case.rules[CHOOSE k \in ExactRules(i) : \A k2 \in ExactRules(i) : k2 <= k].p
ObsView == [i \in DOMAIN Case.objs |-> LET o == Case.objs[i] IN
              [id |-> i, parent |-> o.parent, priv |-> Expected(i, o.priv), own |-> o.ownpage, file |-> o.file, frag |-> o.frag,
               intree |-> CaseInTree(i), root |-> o.parent = None, docsrc |-> o.docsrc, mro |-> Range(o.mro),
               subs |-> {x \in Range(o.subclasses) : x \in DOMAIN Case.objs},
               main |-> o.cls \in {"Module", "Package"} /\ o.name = "__main__"]]
ObsMulti == Cardinality(Range(Case.roots)) > 1

Modelled == Range(Case.modelled)       \* producers / entry kinds whose output the model predicts for this case
Diff(S) ==
  LET P == Pred
      ol == {l \in S.links : l.prod \in Modelled}      pl == {l \in P.links : l.prod \in Modelled}
      oe == {e \in S.entries : e.kind \in Modelled}    pe == {e \in P.entries : e.kind \in Modelled}
      opages == Range(Case.site.pages)
      oa == UNION {{<<pg, a>> : a \in Range(Case.site.nameanchors[pg])} : pg \in opages}
      pa == UNION {{<<pg, a>> : a \in P.nameanchors[pg]} : pg \in P.files}
      os == {<<pg, S.subjects[pg]>> : pg \in DOMAIN S.subjects}
      ps == {<<pg, P.subjects[pg]>> : pg \in DOMAIN P.subjects}
  IN [files_missing |-> P.files \ opages, files_extra |-> opages \ P.files,
      subjects_missing |-> ps \ os, subjects_extra |-> os \ ps,
      links_missing |-> pl \ ol, links_extra |-> ol \ pl,
      entries_missing |-> pe \ oe, entries_extra |-> oe \ pe,
      anchors_missing |-> pa \ oa, anchors_extra |-> oa \ pa,
      inv_missing |-> P.inv \ S.inv, inv_extra |-> S.inv \ P.inv,
      docs_missing |-> P.docs \ S.docs, docs_extra |-> S.docs \ P.docs,
      search_missing |-> P.search \ S.search, search_extra |-> S.search \ P.search,
      fsearch_missing |-> P.fsearch \ S.fsearch, fsearch_extra |-> S.fsearch \ P.fsearch]
\* the realised project is the object model the skeleton describes (enum cases), as the real System sees it
ModelDiff ==
  LET flds(o) == [qid |-> o.qid, name |-> o.name, cls |-> o.cls, parent |-> o.parent, priv |-> o.priv, incontents |-> o.incontents, inall |-> o.inall,
                  bases |-> o.bases, mro |-> o.mro, subclasses |-> o.subclasses, doc |-> o.doc, docsrc |-> o.docsrc,
                  initial |-> o.initial, dupname |-> o.dupname, dupfull |-> o.dupfull]
      real == FromProjection(Case)
  IN [ids_missing |-> Ids \ DOMAIN real.objs, ids_extra |-> DOMAIN real.objs \ Ids,
      fields |-> {i \in Ids \cap DOMAIN real.objs : flds(Objs[i]) # flds(real.objs[i])},
      urls |-> {i \in Ids \cap DOMAIN Case.objs : Case.objs[i].file # FileOf(i) \/ Case.objs[i].frag # FragOf(i)},
      roots |-> Roots # real.roots]
FileOut == LET O == ObsView  S == ObsSite IN
           \* a run limited to --html-subject objects rewrites some pages of an existing output directory: a link to a page
           \* this run does not write is not judged, a fragment on a page it does write must exist (C11); the traces of
           \* hidden objects are judged as always (C12)
           [cid |-> cid, name |-> Case.name,
            verdict |-> IF Case.partial
                        THEN LET v == Verdict(O, S, ObsMulti) IN
                             [v EXCEPT !.LinksResolve = {x \in v.LinksResolve : x.file \in S.files}, !.VisibleHasPage = {}, !.VisibleMemberHasAnchor = {}]
                        ELSE Verdict(O, S, ObsMulti),
            diff |-> IF Case.predict THEN Diff(S) ELSE [skipped |-> TRUE],
            modeldiff |-> IF Case.kind = "enum" THEN ModelDiff ELSE [skipped |-> TRUE]]

Assignments(S) == {g \in [S -> {"PUBLIC", "PRIVATE", "HIDDEN"}] : \A v \in S : g[v] \in Alt(v)}
InitEnum == /\ Source = "enum" /\ cid = 0
            /\ feat \in {f \in Feats : Cardinality({x \in {"dup", "move", "multi", "nested"} :
                                  (x = "dup" /\ f.dup) \/ (x = "move" /\ f.move) \/ (x = "multi" /\ f.multi) \/ (x = "nested" /\ f.nested)})
                                  \in FeatCounts}
            /\ depth \in Depths
            /\ \E S \in {S \in SUBSET Varied(feat) : Cardinality(S) <= MaxNonDefault} :
                 \E g \in Assignments(S) : nd = {[id |-> v, p |-> g[v]] : v \in S}
InitFile == /\ Source = "file"
            /\ cid \in 1..Len(Cases)
            /\ feat = [dup |-> FALSE, move |-> FALSE, multi |-> FALSE, nested |-> FALSE]
            /\ depth = 0 /\ nd = {}
Init == (InitEnum \/ InitFile) /\ mdl = <<>> /\ out = <<>> /\ phase = "init"
Build == /\ phase = "init" /\ mdl' = Model /\ phase' = "built" /\ UNCHANGED <<cid, feat, depth, nd, out>>
Judge == /\ phase = "built" /\ out' = (IF Source = "enum" THEN EnumOut ELSE FileOut) /\ phase' = "done"
         /\ UNCHANGED <<cid, feat, depth, nd, mdl>>
Next == Build \/ Judge
Spec == Init /\ [][Next]_vars
Emit == phase = "done" => PrintT(ToJson(out))

\* design-level invariants: what the model predicts (never a verdict on the code by itself)
Has(inv) == phase = "done" /\ Source = "enum" /\ \E s \in out.sig : s.inv = inv
D_LinksResolve           == ~Has("LinksResolve")
D_VisibleHasPage         == ~Has("VisibleHasPage")
D_VisibleMemberHasAnchor == ~Has("VisibleMemberHasAnchor")
D_HiddenNoTrace          == ~Has("HiddenNoTrace")
D_PrivateMarked          == ~Has("PrivateMarked")
\* the invariants with the known findings taken out (Inv \/ KF_...): anything else is a NEW design-level flaw
D_OnlyKnown == (phase = "done" /\ Source = "enum") => \A s \in out.sig : s.kf # "none"
=============================================================================
