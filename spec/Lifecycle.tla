------------------------------ MODULE Lifecycle ------------------------------
(***************************************************************************)
(* C01 : the life cycle of one pydoctor run (driver.main):                 *)
(*   discover -> process every module (a file that does not parse is       *)
(*   reported and left behind, the others go on; imports may process a     *)
(*   module on demand, nested) -> post-process -> summary pages ->         *)
(*   individual pages -> inventory -> exit with 0, 2 or 3.                 *)
(*                                                                         *)
(* One step relation Step(e), parameterised by the event it produces /     *)
(* consumes:                                                               *)
(*   Source = "enum": TLC enumerates small projects with a fault lattice   *)
(*       (per file: parses | syntax error | null byte; per module          *)
(*       docstring: none | fine | recoverable problem | fatal markup error;*)
(*       -W on/off) and generates the run; the terminal event list is      *)
(*       compared with the recorded run of the real driver on the realised *)
(*       tree (spec -> code).                                              *)
(*   Source = "file": the events recorded from REAL runs on arbitrary      *)
(*       trees (generated, mutated, unparsable) are consumed one by one    *)
(*       (code -> spec): a run is accepted iff it is a complete life cycle *)
(*       ending in Exit(c) with c the documented status for the observed   *)
(*       counters.  An uncaught exception or a hang is an event no action  *)
(*       accepts.                                                          *)
(***************************************************************************)
EXTENDS Integers, Sequences, FiniteSets, TLC, Json, IOUtils, SequencesExt

CONSTANTS Source, MaxMods

Traces == IF Source = "file" THEN JsonDeserialize(IOEnv.TRACE_FILE) ELSE <<>>
ASSUME TLCSet(1, {})

Faults == {"ok", "syntax", "nullbyte"}
DocCls == {"none", "good", "warn", "fatal"}

VARIABLES tid, l,                 \* file mode: trace id, events consumed
          n, fault, doc, W,       \* the project (enum mode; in file mode n and W come from the trace header)
          imp,                    \* enum mode: imp[i] = the module that the first statement of module i imports (0: none)
          phase, mstate, stack, reported, pages, viol, perr, events, code
vars == <<tid, l, n, fault, doc, W, imp, phase, mstate, stack, reported, pages, viol, perr, events, code>>

ExitCode(w, violations, parseErrors) == IF w /\ violations THEN 3 ELSE IF parseErrors THEN 2 ELSE 0

InitEnum == /\ Source = "enum" /\ tid = 0 /\ l = 0
            /\ n \in 1..MaxMods
            /\ fault \in [1..n -> Faults]
            /\ doc \in [1..n -> DocCls]
            /\ \A i \in 1..n : fault[i] # "ok" => doc[i] = "none"
            /\ W \in BOOLEAN
            \* imports between the modules (also of / from a file that does not parse, also circular); the docstring lattice and
            \* the import shapes are explored separately
            /\ imp \in [1..n -> 0..n]
            /\ \A i \in 1..n : imp[i] # i
            /\ ((\E i \in 1..n : imp[i] # 0) => \A i \in 1..n : doc[i] = "none")
InitFile == /\ Source = "file" /\ tid \in 1..Len(Traces) /\ l = 0
            /\ n = Traces[tid].n /\ W = Traces[tid].W
            /\ fault = <<>> /\ doc = <<>> /\ imp = <<>>
Init == /\ (InitEnum \/ InitFile)
        /\ phase = "start" /\ mstate = [i \in 1..n |-> "UNPROCESSED"] /\ stack = <<>>
        /\ reported = {} /\ pages = {} /\ viol = FALSE /\ perr = FALSE /\ events = <<>> /\ code = -1

Ev(k, m) == [k |-> k, m |-> m]
Keep == UNCHANGED <<n, fault, doc, W, imp, tid>>
Emit(e) == events' = Append(events, e)

\* ---- the life cycle, one action per event kind
Discover(e) == /\ e.k = "discover" /\ phase = "start" /\ e.m = n
               /\ phase' = "process" /\ Emit(e)
               /\ UNCHANGED <<mstate, stack, reported, pages, viol, perr, code>>
\* System.processModule: from the unprocessed list when the stack is empty, or on demand inside another module
StartMod(e) == /\ e.k = "start" /\ phase = "process" /\ e.m \in 1..n /\ mstate[e.m] = "UNPROCESSED"
               /\ mstate' = [mstate EXCEPT ![e.m] = "PROCESSING"] /\ stack' = Append(stack, e.m) /\ Emit(e)
               /\ UNCHANGED <<phase, reported, pages, viol, perr, code>>
FinishMod(e) == /\ e.k = "finish" /\ phase = "process" /\ stack # <<>> /\ stack[Len(stack)] = e.m
                /\ mstate' = [mstate EXCEPT ![e.m] = "PROCESSED"] /\ stack' = SubSeq(stack, 1, Len(stack) - 1) /\ Emit(e)
                /\ UNCHANGED <<phase, reported, pages, viol, perr, code>>
\* parseFile / parseString caught SyntaxError or ValueError: reported against the file, module stays PROCESSING
ParseFailed(e) == /\ e.k = "parse_failed" /\ phase = "process" /\ stack # <<>> /\ stack[Len(stack)] = e.m
                  /\ stack' = SubSeq(stack, 1, Len(stack) - 1) /\ reported' = reported \cup {e.m} /\ viol' = TRUE /\ Emit(e)
                  /\ UNCHANGED <<phase, mstate, pages, perr, code>>
PostProcess(e) == /\ e.k = "postprocess" /\ phase = "process" /\ stack = <<>>
                  /\ \A i \in 1..n : mstate[i] # "UNPROCESSED"
                  /\ phase' = "post" /\ Emit(e)
                  /\ UNCHANGED <<mstate, stack, reported, pages, viol, perr, code>>
Summary(e) == /\ e.k = "summary" /\ phase = "post"
              /\ phase' = "pages" /\ Emit(e)
              /\ UNCHANGED <<mstate, stack, reported, pages, viol, perr, code>>
Page(e) == /\ e.k = "page" /\ phase = "pages" /\ e.m \notin pages
           /\ pages' = pages \cup {e.m} /\ Emit(e)
           /\ UNCHANGED <<phase, mstate, stack, reported, viol, perr, code>>
Inventory(e) == /\ e.k = "inventory" /\ phase = "pages"
                /\ phase' = "inventory" /\ Emit(e)
                /\ UNCHANGED <<mstate, stack, reported, pages, viol, perr, code>>
\* e.m = <<exit status, violations > 0, some parse error>> as observed
Exit(e) == /\ e.k = "exit" /\ phase = "inventory"
           /\ e.m[1] = ExitCode(W, e.m[2], e.m[3])
           /\ (viol => e.m[2])                        \* a reported unparsable file counts as a problem
           /\ phase' = "exited" /\ code' = e.m[1] /\ viol' = e.m[2] /\ perr' = e.m[3] /\ Emit(e)
           /\ UNCHANGED <<mstate, stack, reported, pages>>
Step(e) == (Discover(e) \/ StartMod(e) \/ FinishMod(e) \/ ParseFailed(e) \/ PostProcess(e) \/ Summary(e) \/ Page(e)
            \/ Inventory(e) \/ Exit(e)) /\ Keep

\* ---- enum mode: the environment produces the events the fault lattice dictates (modules in order 1..n)
NextToProcess == CHOOSE i \in 1..n : mstate[i] = "UNPROCESSED" /\ \A j \in 1..(i - 1) : mstate[j] # "UNPROCESSED"
WarnAny == \E i \in 1..n : doc[i] \in {"warn", "fatal"}
FatalAny == \E i \in 1..n : doc[i] = "fatal"
EnumEvent ==
  CASE phase = "start" -> Ev("discover", n)
    [] phase = "process" /\ stack # <<>> ->
          LET t == stack[Len(stack)] IN
          IF fault[t] # "ok" THEN Ev("parse_failed", t)                                   \* nothing of the file is executed
          ELSE IF imp[t] # 0 /\ mstate[imp[t]] = "UNPROCESSED" THEN Ev("start", imp[t])   \* on demand, nested in t
          ELSE Ev("finish", t)
    [] phase = "process" /\ stack = <<>> /\ (\E u \in 1..n : mstate[u] = "UNPROCESSED") -> Ev("start", NextToProcess)
    [] phase = "process" /\ stack = <<>> /\ ~(\E u \in 1..n : mstate[u] = "UNPROCESSED") -> Ev("postprocess", 0)
    [] phase = "post" -> Ev("summary", 0)
    [] phase = "pages" /\ pages # 1..n -> Ev("page", CHOOSE p \in (1..n) \ pages : \A q \in (1..n) \ pages : p <= q)
    [] phase = "pages" /\ pages = 1..n -> Ev("inventory", 0)
    [] phase = "inventory" -> Ev("exit", <<ExitCode(W, viol \/ WarnAny, FatalAny), viol \/ WarnAny, FatalAny>>)
    [] OTHER -> Ev("none", 0)
NextEnum == Source = "enum" /\ phase # "exited" /\ Step(EnumEvent) /\ UNCHANGED l
NextFile == /\ Source = "file" /\ l < Len(Traces[tid].ev)
            /\ Step(Traces[tid].ev[l + 1]) /\ l' = l + 1
Next == NextEnum \/ NextFile
Spec == Init /\ [][Next]_vars /\ WF_vars(Next)

\* ---- the property (design level)
Exited == phase = "exited"
ExitIsDocumented == Exited => code \in {0, 2, 3}
NobodyLeftBehind == Exited => \A i \in 1..n : mstate[i] # "UNPROCESSED"
UnparsableIsolated ==
  (Exited /\ Source = "enum") =>
      /\ \A i \in 1..n : (fault[i] = "ok" <=> mstate[i] = "PROCESSED")
      /\ reported = {j \in 1..n : fault[j] # "ok"}
      /\ pages = 1..n
AlwaysEnds == <>Exited

\* ---- emission / acceptance
EmitEnum == (Source = "enum" /\ Exited) =>
              PrintT(ToJson([n |-> n, fault |-> fault, doc |-> doc, W |-> W, imp |-> imp, events |-> events, code |-> code]))
Accept == (Source = "file" /\ Exited /\ l = Len(Traces[tid].ev)) => TLCSet(1, TLCGet(1) \cup {tid})
Post == Source = "file" => PrintT(ToJson([accepted |-> SetToSeq(TLCGet(1))]))
=============================================================================
