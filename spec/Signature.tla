----------------------------- MODULE Signature -----------------------------
(***************************************************************************)
(* Property C14: a displayed signature is the signature that was written.  *)
(*                                                                         *)
(* A LAYOUT is what the author wrote: a sequence of parameters             *)
(*   [kind : PO (positional-only) | PK (positional-or-keyword) | VP: *a     *)
(*           | KO (keyword-only) | VK: **k,   def : BOOLEAN, ann : AnnStates] *)
(* and a return annotation.  Parameter i is called p<i>, its default (when *)
(* written) is the expression d<i>, its annotation the expression a<i>     *)
(* ("string": written as a string literal), so a default or annotation     *)
(* that ends up at another parameter is visible.                           *)
(*                                                                         *)
(* REFERENCE (Python): Valid (CPython's rules for a parameter list),       *)
(*   Ast (what ast.parse hands to pydoctor: posonlyargs / args / defaults  *)
(*   belonging to the LAST positional parameters / kwonlyargs with         *)
(*   kw_defaults of equal length / vararg / kwarg), ReadBack (how Python   *)
(*   reads a printed parameter list: `/` and `*` separators), Expected     *)
(*   (the layout with string annotations unquoted and `-> None` omitted).  *)
(* MODEL (pydoctor): PdParameters = astbuilder._handleFunctionDef          *)
(*   (get_default / add_arg, astbuilder.py:880-924), PdAnnotation =        *)
(*   _annotations_from_function + unstring_annotation, Items = the order   *)
(*   and separators of inspect.Signature.__str__ used by                   *)
(*   pages.format_signature.                                               *)
(* Property (design level): ReadBack(Items(PdParameters(Ast(L)))) =        *)
(*   Expected(L) for every valid layout L.                                 *)
(*                                                                         *)
(* The input builder AddParam enumerates every valid layout of <= MaxP     *)
(* parameters (exhaustive) or is sampled with -simulate (longer layouts).  *)
(***************************************************************************)
EXTENDS Naturals, Sequences, FiniteSets, TLC, Json

CONSTANTS MinP,        \* a layout is finished with at least this many parameters (0; > 0 to sample long signatures)
          MaxP,        \* parameters per layout
          AnnStates,   \* subset of {"none", "plain", "string"}
          RetStates    \* subset of {"none", "None", "plain", "string"}

Kinds == <<"PO", "PK", "VP", "KO", "VK">>
Ord(kd) == CHOOSE i \in 1..5 : Kinds[i] = kd
Positional(kd) == kd \in {"PO", "PK"}

VARIABLES params, ret, phase
vars == <<params, ret, phase>>

\* ===================================================================== REFERENCE: Python
\* CPython accepts `def f(<params>)` iff
Valid(ps) ==
    /\ \A i \in 1..(Len(ps) - 1) : Ord(ps[i].kind) <= Ord(ps[i + 1].kind)                   \* p/o, p-or-k, *a, k/o, **k
    /\ Cardinality({i \in 1..Len(ps) : ps[i].kind = "VP"}) <= 1
    /\ Cardinality({i \in 1..Len(ps) : ps[i].kind = "VK"}) <= 1
    /\ \A i \in 1..Len(ps) : ps[i].kind \in {"VP", "VK"} => ~ps[i].def                        \* no default on *a / **k
    /\ \A i, j \in 1..Len(ps) : (i < j /\ Positional(ps[i].kind) /\ Positional(ps[j].kind) /\ ps[i].def) => ps[j].def
                                                                                              \* non-default follows default
Idx(ps, S) == SelectSeq([i \in 1..Len(ps) |-> i], LAMBDA i : ps[i].kind \in S)
\* the ast.arguments node of the definition; a parameter is its index, a default expression d<i> is i
Ast(ps) == [posonlyargs |-> Idx(ps, {"PO"}),
            args        |-> Idx(ps, {"PK"}),
            defaults    |-> SelectSeq(Idx(ps, {"PO", "PK"}), LAMBDA i : ps[i].def),         \* of the LAST positional ones
            vararg      |-> Idx(ps, {"VP"}),                                                  \* <<>> or <<i>>
            kwonlyargs  |-> Idx(ps, {"KO"}),
            kw_defaults |-> [j \in 1..Len(Idx(ps, {"KO"})) |->                                \* None (0) where none written
                               IF ps[Idx(ps, {"KO"})[j]].def THEN Idx(ps, {"KO"})[j] ELSE 0],
            kwarg       |-> Idx(ps, {"VK"}),
            ann         |-> [i \in 1..Len(ps) |-> ps[i].ann]]

\* what is displayed must read back as this: [name, kind, default expression (0 none), annotation expression (0 none)]
\* a string annotation "a<i>" is shown unquoted: the same expression a<i>
Expected(ps) == [i \in 1..Len(ps) |-> [name |-> i, kind |-> ps[i].kind,
                                        default |-> IF ps[i].def THEN i ELSE 0,
                                        ann |-> IF ps[i].ann = "none" THEN 0 ELSE i]]
ExpectedRet(r) == IF r \in {"none", "None"} THEN "none" ELSE "expr"       \* `-> None` is omitted

\* ===================================================================== MODEL: pydoctor
NoneV == 0
\* astbuilder.py:883-891
PdGetDefault(a, index0) == LET num_pos_args == Len(a.posonlyargs) + Len(a.args)
                               default_offset == num_pos_args - Len(a.defaults)
                           IN IF index0 < default_offset THEN NoneV ELSE a.defaults[index0 - default_offset + 1]
\* _annotations_from_function (:977-1015) + unstring_annotation: by parameter name; a string is parsed
PdAnnotation(a, i) == IF a.ann[i] = "none" THEN NoneV ELSE i
\* add_arg (:894-898)
PdArg(a, i, kd, d) == [name |-> i, kind |-> kd, default |-> d, ann |-> PdAnnotation(a, i)]
PdParameters(a) ==
       [j \in 1..Len(a.posonlyargs) |-> PdArg(a, a.posonlyargs[j], "PO", PdGetDefault(a, j - 1))]                       \* :900-901
    \o [j \in 1..Len(a.args) |-> PdArg(a, a.args[j], "PK", PdGetDefault(a, Len(a.posonlyargs) + j - 1))]                \* :903-904
    \o [j \in 1..Len(a.vararg) |-> PdArg(a, a.vararg[j], "VP", NoneV)]                                                   \* :906-908
    \o [j \in 1..Len(a.kwonlyargs) |-> PdArg(a, a.kwonlyargs[j], "KO", a.kw_defaults[j])]                                \* :910-912  zip
    \o [j \in 1..Len(a.kwarg) |-> PdArg(a, a.kwarg[j], "VK", NoneV)]                                                     \* :914-916
\* :918-919
PdReturn(r) == IF r = "none" \/ r = "None" THEN "none" ELSE "expr"

\* inspect.Signature.__str__ : the parameters in order with `/` after the last positional-only one and a bare `*`
\* before the first keyword-only one unless a *a came first
RECURSIVE ItemsFrom(_, _, _, _)
ItemsFrom(ps, i, posSep, kwSep) ==
    IF i > Len(ps) THEN (IF posSep THEN << [t |-> "sep", v |-> "/"] >> ELSE <<>>)
    ELSE LET p == ps[i]
             slash == (p.kind # "PO") /\ posSep
             star  == (p.kind = "KO") /\ kwSep
             kw2   == IF p.kind = "VP" THEN FALSE ELSE IF star THEN FALSE ELSE kwSep
         IN (IF slash THEN << [t |-> "sep", v |-> "/"] >> ELSE <<>>)
            \o (IF star THEN << [t |-> "sep", v |-> "*"] >> ELSE <<>>)
            \o << [t |-> "param", v |-> p] >>
            \o ItemsFrom(ps, i + 1, IF p.kind = "PO" THEN TRUE ELSE IF slash THEN FALSE ELSE posSep, kw2)
Items(ps) == ItemsFrom(ps, 1, FALSE, TRUE)

\* ===================================================================== REFERENCE: reading a printed list back
\* Python's reading of `(item, item, ...)`: names before `/` are positional-only; after `*` or `*a` keyword-only
StarMark(it) == IF it.t = "sep" THEN it.v = "*" ELSE it.v.kind = "VP"
ReadKind(items, j) ==
    LET it == items[j] IN
    IF it.v.kind = "VP" THEN "VP" ELSE IF it.v.kind = "VK" THEN "VK"
    ELSE IF \E q \in 1..(j - 1) : StarMark(items[q]) THEN "KO"
    ELSE IF \E q \in (j + 1)..Len(items) : items[q].t = "sep" /\ items[q].v = "/" THEN "PO"
    ELSE "PK"
ReadBack(items) == LET js == SelectSeq([j \in 1..Len(items) |-> j], LAMBDA j : items[j].t = "param") IN
    [x \in 1..Len(js) |-> [name |-> items[js[x]].v.name, kind |-> ReadKind(items, js[x]),
                            default |-> items[js[x]].v.default, ann |-> items[js[x]].v.ann]]

\* ===================================================================== behaviours (input builder)
ParamShapes == [kind : {"PO", "PK", "VP", "KO", "VK"}, def : BOOLEAN, ann : AnnStates]
Init == params = <<>> /\ ret = "none" /\ phase = "build"
AddParam == /\ phase = "build" /\ Len(params) < MaxP
            /\ \E p \in ParamShapes : Valid(Append(params, p)) /\ params' = Append(params, p)
            /\ UNCHANGED <<ret, phase>>
Finish == /\ phase = "build" /\ Len(params) >= MinP /\ \E r \in RetStates : ret' = r
          /\ phase' = "done" /\ UNCHANGED params
Next == AddParam \/ Finish
Spec == Init /\ [][Next]_vars

\* ===================================================================== property C14 (design level)
Done == phase = "done"
Shown == Items(PdParameters(Ast(params)))
SameParameters == Done => ReadBack(Shown) = Expected(params)
SameReturn == Done => PdReturn(ret) = ExpectedRet(ret)
\* well-formedness of what is printed: it is itself a valid parameter list
ShownIsValid == Done => Valid([i \in 1..Len(ReadBack(Shown)) |->
                                 [kind |-> ReadBack(Shown)[i].kind, def |-> ReadBack(Shown)[i].default # 0, ann |-> "none"]])

\* compact export: a parameter is <<name, kind, default, ann>>, a separator <<"/">> or <<"*">>
Cp(p) == <<p.name, p.kind, p.default, p.ann>>
CpSeq(ps) == [i \in 1..Len(ps) |-> Cp(ps[i])]
CpItems(its) == [i \in 1..Len(its) |-> IF its[i].t = "sep" THEN <<its[i].v>> ELSE Cp(its[i].v)]
Emit == Done => PrintT(ToJson([params |-> [i \in 1..Len(params) |-> <<params[i].kind, params[i].def, params[i].ann>>],
                               ret |-> ret, ast |-> Ast(params),
                               expected |-> CpSeq(Expected(params)), expected_ret |-> ExpectedRet(ret),
                               pd |-> CpSeq(PdParameters(Ast(params))), pd_ret |-> PdReturn(ret),
                               items |-> CpItems(Shown)]))
=============================================================================
