----------------------------- MODULE PageHistory -----------------------------
(***************************************************************************)
(* C10 - "every HTML page pydoctor writes is well-formed" - over a HISTORY *)
(* of runs into ONE output directory: Run(v1, out) ; Run(v2, out) ; ...    *)
(* where v1, v2 are versions of the same project (docstrings get longer or *)
(* shorter, members and classes come and go).                              *)
(*                                                                         *)
(* Escape.tla ends every route with the stage FlattenToFile; this module   *)
(* is that stage seen from the file: templatewriter/writer.py opens the    *)
(* file of a page with open('wb') (writer.py:92 summary pages, :122 object *)
(* pages) - the old content is dropped - and flattenToFile (writer.py:21)  *)
(* writes the DOCTYPE and the rendering.  Pages of objects that no longer  *)
(* exist are not removed.  An object hidden by a --privacy=HIDDEN rule     *)
(* (and everything below it) is skipped BEFORE its file is opened:         *)
(* _writeDocsFor starts with `if not ob.isVisible: return` (writer.py:119)  *)
(* - no file, not an empty one.                                            *)
(*                                                                         *)
(* A file is a sequence of segments [v, from, to]: bytes from..to of the   *)
(* rendering of the page in version v.  WriteMode = "truncate" is what the *)
(* code does; "overwrite" (open r+b, seek(0), write, no truncate) is the   *)
(* model-level negative control: TLC must then violate WholePages.         *)
(*                                                                         *)
(* Binding (harness/checks/c10.py): every history TLC prints is realised   *)
(* with real driver.main runs into one directory; every *.html must parse  *)
(* (verdict WellFormed) and must be, byte for byte, the page of a fresh    *)
(* build of the version this module says it holds (conformance).           *)
(***************************************************************************)
EXTENDS Naturals, Sequences, FiniteSets, TLC, Json

CONSTANTS MaxRuns,     \* length of the histories explored
          WriteMode    \* "truncate" | "overwrite"

(* The project universe (harness: HISTORY_VERSIONS).  Pages:                *)
(*   1 index.html (package)  2 module page  3 page of class Worker          *)
(*   4 page of class Extra (only in the long version)  5 nameIndex.html     *)
(*   6 module hpkg.hid, 7 class hpkg.mod.Secret, 8 class Secret.Inner       *)
(*     nested in it: 6 and 7 are hidden by --privacy=HIDDEN rules in every  *)
(*     run, 8 is below a hidden object                                      *)
(* Size[v][p] = relative length of the rendering, 0 = not part of v.        *)
Versions == {"long", "short"}
Pages == 1..8
Size == [long  |-> <<2, 2, 2, 2, 2, 2, 2, 2>>,
         short |-> <<1, 1, 1, 0, 1, 1, 1, 1>>]
Hidden == {6, 7}          \* objects matched by a HIDDEN rule
Below == [p \in Pages |-> IF p = 8 THEN {7} ELSE {}]      \* ancestors that have a page of their own
Visible(p) == p \notin Hidden /\ Below[p] \cap Hidden = {}

VARIABLES hist,   \* versions built so far, in order
          dir     \* page -> content (sequence of segments); <<>> = no such file
vars == <<hist, dir>>

Init == hist = <<>> /\ dir = [p \in Pages |-> <<>>]

Whole(v, p) == <<[v |-> v, from |-> 1, to |-> Size[v][p]]>>
Total(c) == IF c = <<>> THEN 0 ELSE c[Len(c)].to
\* what is left of content c behind byte n
RECURSIVE Behind(_, _)
Behind(c, n) == IF c = <<>> THEN <<>>
                ELSE IF Head(c).to <= n THEN Behind(Tail(c), n)
                ELSE <<[Head(c) EXCEPT !.from = IF Head(c).from > n THEN Head(c).from ELSE n + 1]>> \o Tail(c)

\* TemplateWriter.writeIndividualFiles / writeSummaryPages for version v
WritePage(v, p, old) ==
  IF Size[v][p] = 0 \/ ~Visible(p) THEN old                    \* not part of this version / hidden: no open()
  ELSE IF WriteMode = "truncate" THEN Whole(v, p)              \* open('wb')
  ELSE Whole(v, p) \o Behind(old, Size[v][p])                  \* seek(0); write(); no truncate()

Run(v) == /\ Len(hist) < MaxRuns
          /\ hist' = Append(hist, v)
          /\ dir' = [p \in Pages |-> WritePage(v, p, dir[p])]

Next == \E v \in Versions : Run(v)
Spec == Init /\ [][Next]_vars

\* ----------------------------------------------------------------------------- properties
\* every file is one complete rendering of the page in some version (hence well-formed)
WholePages == \A p \in Pages : dir[p] = <<>> \/ \E v \in Versions : dir[p] = Whole(v, p)
\* and the pages of the version built last are the pages a fresh directory would hold
LastRunFresh == hist = <<>> \/ LET v == hist[Len(hist)] IN
                  \A p \in Pages : (Size[v][p] > 0 /\ Visible(p)) => dir[p] = Whole(v, p)

Emit == hist # <<>> =>
  PrintT(ToJson([hist |-> hist,
                 pages |-> [p \in Pages |-> [segments |-> dir[p], whole |-> dir[p] = <<>> \/ \E v \in Versions : dir[p] = Whole(v, p)]]]))
=============================================================================
