------------------------------- MODULE ExprStr -------------------------------
(***************************************************************************)
(* Property C15, literal leaves: the text shown for a str / bytes constant *)
(* reads back, as a Python literal, to the same value.                     *)
(*                                                                         *)
(*   implementation  _pyval_repr._str_escape / _bytes_escape and           *)
(*                   PyvalColorizer._colorize_str (quote choice, one       *)
(*                   _output per line when line breaks are allowed), and   *)
(*                   docutils' nodes.Text.astext(), which drops NUL        *)
(*   reference       PyDecode: Python's string / bytes literal reader      *)
(*                   (checked against ast.literal_eval by the harness)     *)
(*                                                                         *)
(* Characters are symbols: one-character strings stand for themselves,     *)
(* longer names for the special characters:                                *)
(*   sq ' dq " bs \ nl tab cr ff vt nul esc(0x1b) uni(U+00E9 / byte 0xE9)  *)
(*   sur (lone surrogate U+D800, str only)   soh (0x01)                    *)
(*   nbsp (U+00A0)   ffff (U+FFFF, not an XML character)                   *)
(* Two observation points: the colouriser's text (Shown) and the text of   *)
(* the HTML written for it (HtmlShown = after stanutils.html2stan).        *)
(* TLC enumerates every string over the alphabet up to MaxLen, for str and *)
(* bytes, with and without line breaks allowed.                            *)
(***************************************************************************)
EXTENDS Naturals, Sequences, FiniteSets, TLC, Json

CONSTANTS StrAlphabet, BytesAlphabet, MaxLen, Open, Fixed

FixNul        == "str-nul-dropped" \in Fixed
FixBytesQuote == "bytes-single-quote" \in Fixed

Range(s) == {s[i] : i \in DOMAIN s}
RECURSIVE Flat(_)
Flat(ss) == IF ss = <<>> THEN <<>> ELSE Head(ss) \o Flat(Tail(ss))

\* ------------------------------------------------------------ implementation
\* _str_escape.enc (_pyval_repr.py:223-238) + the backslashreplace of unencodable characters (:244-248)
EscChar(ch) == CASE ch = "sq" -> <<"bs", "sq">> [] ch = "tab" -> <<"bs", "t">> [] ch = "cr" -> <<"bs", "r">>
                 [] ch = "nl" -> <<"bs", "n">> [] ch = "ff" -> <<"bs", "f">> [] ch = "vt" -> <<"bs", "v">>
                 [] ch = "bs" -> <<"bs", "bs">>
                 [] ch = "sur" -> <<"bs", "u", "d", "8", "0", "0">>
                 [] ch = "nul" /\ FixNul -> <<"bs", "x", "0", "0">>
                 [] OTHER -> <<ch>>
\* _bytes_escape = repr(b)[2:-1] (:252-253): bytes.__repr__ quotes with " when b contains ' and no "
ReprUsesDq(line) == "sq" \in Range(line) /\ "dq" \notin Range(line)
BEscChar(ch, dq) == CASE ch = "bs" -> <<"bs", "bs">>
                      [] ch = "sq" -> IF dq /\ ~FixBytesQuote THEN <<"sq">> ELSE <<"bs", "sq">>
                      [] ch = "tab" -> <<"bs", "t">> [] ch = "nl" -> <<"bs", "n">> [] ch = "cr" -> <<"bs", "r">>
                      [] ch = "nul" -> <<"bs", "x", "0", "0">> [] ch = "esc" -> <<"bs", "x", "1", "b">>
                      [] ch = "ff" -> <<"bs", "x", "0", "c">> [] ch = "vt" -> <<"bs", "x", "0", "b">>
                      [] ch = "uni" -> <<"bs", "x", "e", "9">>
                      [] OTHER -> <<ch>>
EscLine(line, by) == IF by THEN Flat([i \in DOMAIN line |-> BEscChar(line[i], ReprUsesDq(line))])
                     ELSE Flat([i \in DOMAIN line |-> EscChar(line[i])])
\* pyval.split('\n')
RECURSIVE SplitNl(_, _)
SplitNl(s, cur) == IF s = <<>> THEN <<cur>>
                   ELSE IF Head(s) = "nl" THEN <<cur>> \o SplitNl(Tail(s), <<>>)
                   ELSE SplitNl(Tail(s), Append(cur, Head(s)))
RECURSIVE JoinNl(_, _)
JoinNl(lines, by) == IF Len(lines) = 1 THEN EscLine(lines[1], by)
                     ELSE EscLine(lines[1], by) \o <<"nl">> \o JoinNl(Tail(lines), by)
\* docutils.nodes.Text.astext() -> unescape(): "\x00 " and "\x00" disappear (a body line is one Text node)
RECURSIVE DropNul(_)
DropNul(s) == IF s = <<>> THEN <<>>
              ELSE IF Head(s) = "nul" THEN (IF Len(s) >= 2 /\ s[2] = " " THEN DropNul(Tail(Tail(s))) ELSE DropNul(Tail(s)))
              ELSE <<Head(s)>> \o DropNul(Tail(s))
\* _colorize_str (:471-501)
ImplShown(s, by, lbok) ==
   LET triple == lbok /\ "nl" \in Range(s)
       quote  == IF triple THEN <<"sq", "sq", "sq">> ELSE <<"sq">>
       body   == IF lbok THEN JoinNl(SplitNl(s, <<>>), by) ELSE EscLine(s, by)
   IN (IF by THEN <<"b">> ELSE <<>>) \o quote \o DropNul(body) \o quote

\* the value as it reaches the page: ParsedRstDocstring.to_stan -> HTML -> stanutils.html2stan (:13-32), which
\* spells the C0 control characters XML does not allow (all but \t \n \f \r) as \xNN, two hex digits
C0Hex(ch) == CASE ch = "nul" -> <<"0", "0">> [] ch = "soh" -> <<"0", "1">> [] ch = "vt" -> <<"0", "b">> [] ch = "esc" -> <<"1", "b">>
HtmlText(s) == Flat([i \in DOMAIN s |-> IF s[i] \in {"nul", "soh", "vt", "esc"} THEN <<"bs", "x">> \o C0Hex(s[i]) ELSE <<s[i]>>])

\* ------------------------------------------------- reference: Python's literal reader
Inv == <<"INVALID">>
Cons(x, rest) == IF rest = Inv THEN Inv ELSE <<x>> \o rest
HexDigits == {"0", "1", "8", "9", "a", "b", "c", "d", "e", "f"}
\* the character \xh1h2: a symbol of the alphabet, or the generic symbol "xh1h2" for any other code point
Hex(h1, h2) == CASE h1 = "0" /\ h2 = "0" -> "nul" [] h1 = "1" /\ h2 = "b" -> "esc" [] h1 = "e" /\ h2 = "9" -> "uni"
                 [] h1 = "0" /\ h2 = "c" -> "ff" [] h1 = "0" /\ h2 = "b" -> "vt" [] h1 = "0" /\ h2 = "1" -> "soh"
                 [] h1 \in HexDigits /\ h2 \in HexDigits -> "x" \o h1 \o h2
                 [] OTHER -> "none"
Simple(e) == CASE e = "n" -> "nl" [] e = "t" -> "tab" [] e = "r" -> "cr" [] e = "f" -> "ff" [] e = "v" -> "vt" [] OTHER -> e
RECURSIVE Body(_, _, _, _)
\* s[i..] = rest of the literal after the opening quote; q = 1 | 3 quote width; the closing quote must end s
Body(s, i, q, by) ==
   IF i > Len(s) THEN Inv                                                   \* unterminated
   ELSE LET ch == s[i] IN
     IF ch = "sq" THEN
        IF q = 1 THEN (IF i = Len(s) THEN <<>> ELSE Inv)
        ELSE IF i + 2 <= Len(s) /\ s[i+1] = "sq" /\ s[i+2] = "sq" THEN (IF i + 2 = Len(s) THEN <<>> ELSE Inv)
        ELSE Cons("sq", Body(s, i + 1, q, by))
     ELSE IF ch = "bs" THEN
        IF i = Len(s) THEN Inv
        ELSE LET e == s[i+1] IN
          IF e \in {"sq", "dq", "bs"} THEN Cons(e, Body(s, i + 2, q, by))
          ELSE IF e \in {"n", "t", "r", "f", "v"} THEN Cons(Simple(e), Body(s, i + 2, q, by))
          ELSE IF e = "x" THEN IF i + 3 <= Len(s) /\ Hex(s[i+2], s[i+3]) # "none"
                                 THEN Cons(Hex(s[i+2], s[i+3]), Body(s, i + 4, q, by)) ELSE Inv
          ELSE IF e = "u" /\ ~by THEN IF i + 5 <= Len(s) /\ SubSeq(s, i + 2, i + 5) = <<"d", "8", "0", "0">>
                                        THEN Cons("sur", Body(s, i + 6, q, by)) ELSE Inv
          ELSE IF e = "nl" THEN Body(s, i + 2, q, by)                       \* line continuation
          ELSE Cons("bs", Body(s, i + 1, q, by))                            \* unknown escape keeps its backslash
     ELSE IF ch \in {"nl", "cr"} THEN (IF q = 3 THEN Cons("nl", Body(s, i + 1, q, by)) ELSE Inv)
     ELSE IF ch = "nul" THEN Inv                                            \* source code cannot contain NUL
     ELSE IF by /\ ch \in {"uni", "sur"} THEN Inv                           \* bytes literals are ASCII
     ELSE Cons(ch, Body(s, i + 1, q, by))
PyDecode(s, by) ==
   LET st == IF by THEN 2 ELSE 1 IN
   IF Len(s) < st + 1 \/ (by /\ s[1] # "b") \/ s[st] # "sq" THEN Inv
   ELSE IF Len(s) >= st + 2 /\ s[st+1] = "sq" /\ s[st+2] = "sq" THEN Body(s, st + 3, 3, by)
   ELSE Body(s, st + 1, 1, by)

\* ------------------------------------------------------------------- the cases
VARIABLES val, by, lbok
vars == <<val, by, lbok>>
Strings(A) == UNION {[1..k -> A] : k \in 0..MaxLen}
Init == /\ by \in BOOLEAN /\ lbok \in BOOLEAN
        /\ val \in Strings(IF by THEN BytesAlphabet ELSE StrAlphabet)
Next == FALSE /\ UNCHANGED vars
Spec == Init /\ [][Next]_vars

Shown == ImplShown(val, by, lbok)
Classes == (IF ~by /\ "nul" \in Range(val) /\ ~FixNul THEN {"str-nul-dropped"} ELSE {})
           \cup (IF by /\ ~FixBytesQuote /\ \E l \in Range(IF lbok THEN SplitNl(val, <<>>) ELSE <<val>>) : ReprUsesDq(l)
                   THEN {"bytes-single-quote"} ELSE {})
\* U+00A0 (docutils writes &nbsp;, an entity the XML parser does not know) and U+FFFE / U+FFFF (refused by expat) make
\* html2stan fail; for a constant's value safe_to_stan then falls back on epydoc2stan.colorized_pyval_fallback, which
\* puts the colouriser's text into the page as it is
FallsBack(s) == \E i \in DOMAIN s : s[i] \in {"nbsp", "ffff"}
HtmlShown   == IF ~by /\ lbok /\ FallsBack(Shown) THEN Shown ELSE HtmlText(Shown)
ReadsBack   == PyDecode(Shown, by) = val /\ PyDecode(HtmlShown, by) = val
DesignKnown == ReadsBack \/ (Classes # {} /\ Classes \subseteq Open)
Emit == PrintT(ToJson([val |-> val, by |-> by, lbok |-> lbok, shown |-> Shown, dec |-> PyDecode(Shown, by),
                       html |-> HtmlShown, dech |-> PyDecode(HtmlShown, by),
                       cls |-> IF ReadsBack THEN {} ELSE Classes]))
=============================================================================
