--------------------------- MODULE ConfigHistory ---------------------------
(***************************************************************************)
(* C20, histories: several parses in ONE process (pydoctor's own test      *)
(* suite, the Sphinx extension, System construction asking for the default *)
(* options all call Options.from_args / get_parser more than once).        *)
(*                                                                         *)
(* "Setting a value in a file yields the same effective configuration as   *)
(* passing it on the command line" speaks about ONE parse: the effective   *)
(* configuration of a parse is a function of that parse's inputs (argv +   *)
(* the config file found) alone - the same parse done in a fresh process.  *)
(*                                                                         *)
(* Inputs are named; what the spec needs to know about each is the list of *)
(* packages it names and the project name it gives.  The process keeps no  *)
(* memory between parses (options.get_parser() builds a new parser each    *)
(* time, the module-level PydoctorConfigParser is stateless): Parse leaves *)
(* `mem` unchanged.  Memory # "none" are the design-level negative         *)
(* controls:                                                               *)
(*   "packages"  a cached parser whose default list collects every         *)
(*               add-package seen (sourcepath leaks into later parses);    *)
(*   "format"    the composite parser remembering which format parsed the  *)
(*               last file and trying it first on the next one;            *)
(*   "sections"  the list of section names shared by all parser objects:   *)
(*               once another tool has built its own parsers for its own   *)
(*               sections, pydoctor reads those sections too;              *)
(*   "defaults"  one ConfigParser object reused and clear()ed: the         *)
(*               [DEFAULT] section of an INI file survives and supplies    *)
(*               values to every later INI file.                           *)
(*                                                                         *)
(* Every history up to MaxLen is a state; each is printed and executed by  *)
(* harness/checks/c20.py in a forked child process (so that histories do   *)
(* not see each other); every step must give what the one-step history of  *)
(* the same input gives.                                                   *)
(***************************************************************************)
EXTENDS Naturals, Sequences, FiniteSets, TLC, Json

CONSTANTS Inputs,   \* subset of the names below
          MaxLen,
          Memory    \* "none" (the code) | "packages" | "format" | "defaults" | "sections"

\* what one input says, on its own
Pkgs(i) == CASE i \in {"pkgToml", "pkgCli"} -> <<"dir1">>
             [] i = "pkgCfg" -> <<"dir2">>
             [] OTHER -> <<>>
Positional(i) == i = "srcPos"                       \* a SOURCEPATH argument on the command line
Name(i) == CASE i = "nameCfg" -> "FromCfg"
             [] i = "foreignBoth" -> "Demo2"
             [] i = "defaultCfg" -> "FromDefault"    \* [DEFAULT] project-name = ... applies to the sections of ITS file (INI)
             [] i = "nameTomlComment" -> "Demo"      \* project-name = "Demo"  # comment   (TOML; as INI the comment is text)
             [] OTHER -> "-"
\* verbose / quiet counts the input's OWN pydoctor settings give.  "foreignBoth": setup.cfg has [flake8] verbose = 2
\* next to [tool:pydoctor] project-name = Demo2, pyproject.toml has only [tool.black] quiet = true: none of pydoctor's
\* business.  "otherParsers": another tool builds IniConfigParser(["flake8"]) and TomlConfigParser(["tool.black"])
\* in this process, then pydoctor parses an empty command line.
Verb(i)  == CASE i = "verboseToml" -> 2 [] i = "defaultCfg" -> 1 [] OTHER -> 0
Quiet(i) == 0
Format(i) == CASE i \in {"pkgCfg", "nameCfg", "privIni", "defaultCfg", "foreignBoth"} -> "ini"
               [] i \in {"pkgToml", "nameTomlComment", "verboseToml"} -> "toml"
               [] OTHER -> "-"                       \* no file

VARIABLES hist, mem, out
vars == <<hist, mem, out>>

NoMem == [pkgs |-> <<>>, fmt |-> "-", dflt |-> "-", foreign |-> FALSE]
Init == hist = <<>> /\ out = <<>> /\ mem = NoMem

Parse(i) ==
  LET pk == (IF Memory = "packages" THEN mem.pkgs ELSE <<>>) \o Pkgs(i)
      nm == IF Memory = "format" /\ mem.fmt = "ini" /\ i = "nameTomlComment" THEN "Demo+comment"
            ELSE IF Memory = "defaults" /\ Format(i) = "ini" /\ Name(i) = "-" THEN mem.dflt
            ELSE Name(i)
  IN /\ Len(hist) < MaxLen
     /\ hist' = Append(hist, i)
     /\ out' = Append(out, [i |-> i, pkgs |-> pk, name |-> nm,
                             verb  |-> IF Memory = "sections" /\ mem.foreign /\ i = "foreignBoth" THEN 2 ELSE Verb(i),
                             quiet |-> IF Memory = "sections" /\ mem.foreign /\ i = "foreignBoth" THEN 1 ELSE Quiet(i)])
     /\ mem' = [pkgs |-> IF Memory = "packages" /\ ~Positional(i) THEN pk ELSE mem.pkgs,
                fmt  |-> IF Memory = "format" /\ Format(i) # "-" THEN Format(i) ELSE mem.fmt,
                dflt |-> IF Memory = "defaults" /\ i = "defaultCfg" THEN "FromDefault" ELSE mem.dflt,
                foreign |-> mem.foreign \/ (Memory = "sections" /\ i = "otherParsers")]
Next == \E i \in Inputs : Parse(i)
Spec == Init /\ [][Next]_vars

\* the property: every parse gives what its own inputs say
Independent == \A k \in 1..Len(out) : /\ out[k].pkgs = Pkgs(out[k].i) /\ out[k].name = Name(out[k].i)
                                       /\ out[k].verb = Verb(out[k].i) /\ out[k].quiet = Quiet(out[k].i)
\* the code keeps nothing
NoMemory == Memory = "none" => mem = NoMem

Emit == hist # <<>> => PrintT(ToJson([hist |-> hist, out |-> out]))
=============================================================================
