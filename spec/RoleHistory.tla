----------------------------- MODULE RoleHistory -----------------------------
(***************************************************************************)
(* C10 over a HISTORY of reStructuredText docstrings parsed by one process. *)
(*                                                                         *)
(* docutils keeps the role named by a ".. default-role::" directive in a   *)
(* process-wide table (roles._roles['']) and removes it only at the end of *)
(* a SUCCESSFUL parse.  pydoctor's reST parser wraps publish_string in     *)
(* try / finally: roles._roles.pop('', None)                               *)
(* (epydoc/markup/restructuredtext.py:103-111): whatever a docstring       *)
(* declares, and whether docutils raises on it or not, the next docstring  *)
(* starts with the standard default role - interpreted text `like this` is *)
(* a cross reference whose label goes through route xrefrst of Escape.tla  *)
(* (text at level 1 in the page).  With a raw-based default role still in  *)
(* force the same text would be copied as raw HTML (Escape.tla: a          *)
(* DocutilsRaw / ParseXml at level 0 flow).                                *)
(*                                                                         *)
(* Docstring kinds:                                                        *)
(*   rawfail  declares `.. role:: html(raw)` + `.. default-role:: html`,   *)
(*            then makes docutils raise (csv-table with an empty :escape:) *)
(*   rawok    declares the same and parses fine                            *)
(*   clean    ordinary text with interpreted text `payload`                *)
(* Cleanup = "always" is what the code does; "on_success" (docutils alone) *)
(* is the model-level negative control.                                    *)
(*                                                                         *)
(* Binding (harness/checks/c10.py): every history TLC prints is written as *)
(* one module whose functions carry these docstrings in this order and run *)
(* through the real pydoctor next to its twin; the pages of the `clean`    *)
(* docstrings are judged like any other canary (verdict) and the role the  *)
(* model gives each docstring is compared with what the page shows.        *)
(***************************************************************************)
EXTENDS Naturals, Sequences, TLC, Json

CONSTANTS MaxLen,      \* length of the histories explored
          Cleanup      \* "always" | "on_success"

Kinds == {"rawfail", "rawok", "clean"}

VARIABLES hist,        \* docstrings parsed so far, in order
          role,        \* roles._roles.get('') between two docstrings: "std" | "raw"
          seen         \* the default role each docstring was parsed under, in order
vars == <<hist, role, seen>>

Init == hist = <<>> /\ role = "std" /\ seen = <<>>

\* the role in force while the text of docstring k is read (its own directives come first)
During(k, before) == IF k \in {"rawfail", "rawok"} THEN "raw" ELSE before
After(k, before) ==
  IF k = "clean" THEN before                       \* nothing declared, nothing to restore
  ELSE IF k = "rawok" THEN "std"                   \* docutils: end of a successful parse
  ELSE IF Cleanup = "always" THEN "std"            \* pydoctor: finally: roles._roles.pop('', None)
  ELSE "raw"                                       \* the exception skips docutils' own reset

Parse(k) == /\ Len(hist) < MaxLen
            /\ hist' = Append(hist, k)
            /\ seen' = Append(seen, role)
            /\ role' = After(k, role)

Next == \E k \in Kinds : Parse(k)
Spec == Init /\ [][Next]_vars

\* every docstring starts under the standard default role: the interpreted text of a clean docstring is text
StartsStandard == \A i \in DOMAIN seen : seen[i] = "std"

Emit == hist # <<>> => PrintT(ToJson([hist |-> hist, startsUnder |-> seen]))
=============================================================================
