------------------------------ MODULE Epytext ------------------------------
(***************************************************************************)
(* pydoctor/epydoc/markup/epytext.py : the block STRUCTURER of parse()     *)
(* (epytext.py:285-375) - a stack machine that turns the token stream of   *)
(* _tokenize (paragraph / heading / literal block / doctest block / bullet *)
(* tokens, each with an indentation) into the DOM tree, using two parallel *)
(* stacks (elements, indentations):                                        *)
(*     _pop_completed_blocks  epytext.py:377-413                           *)
(*     _add_para              epytext.py:415-432                           *)
(*     _add_section           epytext.py:434-471                           *)
(*     _add_list              epytext.py:473-574                           *)
(* One action per iteration of the pop loop and one per _add_* call.       *)
(* The input is chosen token by token (NextToken), restricted to what the  *)
(* tokenizer can emit; every prefix is a complete input, so the terminal   *)
(* record of every prefix is printed.  harness/checks/c09.py renders the   *)
(* tokens as epytext source, checks that the real _tokenize yields exactly *)
(* these tokens, runs the real parse() and compares tree and errors.       *)
(*                                                                         *)
(* Property at this level (C09): the structurer never drops a token        *)
(* silently - without a (fatal) error every token's content is in the      *)
(* tree, once, in source order.                                            *)
(*                                                                         *)
(* Conventions: indentation -1 stands for Python's None (unknown).  The    *)
(* tree is the pre-order list of [d |-> depth, tag, id]; id = index of the *)
(* token that carried the content (0 for structural elements).  Rendered   *)
(* sources start with two blank lines, so no bullet has startline 1 (the   *)
(* exemption at epytext.py:524 is outside the model).                      *)
(***************************************************************************)
EXTENDS Naturals, Integers, Sequences, FiniteSets, TLC, Json

CONSTANTS MaxTokens,   \* bound on the length of the token stream
          Indents,     \* indentations used, e.g. {0, 2, 4}
          Bullets,     \* subset of {"u", "o1", "o2", "f"}: "-", "1.", "2.", "@tag:"
          Levels       \* heading levels used, subset of 0..2

None == -1
Tok(tag, ind, kind, level) == [tag |-> tag, ind |-> ind, kind |-> kind, level |-> level]
ListType(kind) == IF kind = "u" THEN "ulist" ELSE IF kind = "f" THEN "fieldlist" ELSE "olist"
Num(kind) == IF kind = "o1" THEN 1 ELSE IF kind = "o2" THEN 2 ELSE 0

VARIABLES toks,     \* tokens consumed so far (the input)
          phase,    \* "idle" | "pop" | "add"
          stack,    \* <<[tag, ind, num, sec]>>; stack[1] is the dummy (None element, -1), stack[2] the document;
                    \* num = number of the last item of an olist, sec = the last child of the element is a section
          tree,     \* pre-order list of [d, tag, id]
          errs,     \* messages of the StructuringErrors, in order
          encf,     \* encountered_field
          crash     \* an exception other than ParseError escapes (int < None; KeyError 'bullet')
vars == <<toks, phase, stack, tree, errs, encf, crash>>

E(tag, ind) == [tag |-> tag, ind |-> ind, num |-> 0, sec |-> FALSE]
Init == /\ toks = <<>> /\ phase = "idle"
        /\ stack = <<E("NONE", -1), E("epytext", None)>>
        /\ tree = <<[d |-> 0, tag |-> "epytext", id |-> 0]>>
        /\ errs = <<>> /\ encf = FALSE /\ crash = FALSE

Cur == toks[Len(toks)]
Top == stack[Len(stack)]
Below == stack[Len(stack) - 1]

\* ------------------------------------------------------------------ what _tokenize can emit next
\* indentation that a literal block opened by the last token would get (epytext.py:993-1014)
LitIndent == IF Cur.ind # None THEN Cur.ind ELSE toks[Len(toks) - 1].ind
CanFollow(t) ==
    LET first == toks = <<>>
        prev == Cur
    IN /\ (t.tag = "para" /\ t.ind = None) => (~first /\ prev.tag = "bullet")
       \* the second line of a paragraph that starts on a bullet line is not dedented past the bullet
       /\ (t.tag = "para" /\ t.ind # None /\ ~first /\ prev.tag = "bullet") => t.ind >= prev.ind
       /\ t.tag = "lit" => (~first /\ prev.tag = "para" /\ t.ind = LitIndent)
       \* whatever follows a literal block is indented no more than the block's paragraph
       /\ (~first /\ prev.tag = "lit") => t.ind <= prev.ind
       /\ t.tag # "para" => t.ind # None
Candidates ==
    {Tok("para", i, "", 0) : i \in Indents \cup {None}} \cup
    {Tok("heading", i, "", l) : i \in Indents, l \in Levels} \cup
    {Tok("lit", i, "", 0) : i \in Indents} \cup
    {Tok("doctest", i, "", 0) : i \in Indents} \cup
    {Tok("bullet", i, k, 0) : i \in Indents, k \in Bullets}

NextToken(t) == /\ phase = "idle" /\ ~crash /\ Len(toks) < MaxTokens
                /\ t \in Candidates /\ CanFollow(t)
                /\ toks' = Append(toks, t)
                /\ phase' = IF t.ind = None THEN "add" ELSE "pop"     \* "if indent is not None:" (epytext.py:390)
                /\ UNCHANGED <<stack, tree, errs, encf, crash>>

\* ------------------------------------------------------------------ _pop_completed_blocks: one loop iteration
PopDecision ==
    IF Len(stack) <= 2 THEN "stop"
    ELSE IF Top.ind # None /\ Cur.ind < Top.ind THEN "pop"                           \* dedent past a block
    ELSE IF Top.ind = None /\ Below.ind = None THEN "crash"                           \* int < None
    ELSE IF Top.ind = None /\ Cur.ind < Below.ind THEN "pop"
    ELSE IF Cur.tag = "bullet" /\ Cur.ind = Below.ind /\ Top.tag \in {"li", "field"} THEN "pop"
    ELSE IF Top.tag \in {"ulist", "olist"} /\ (Cur.tag # "bullet" \/ Cur.kind = "f") THEN "pop"
    ELSE "stop"
PopBlock == /\ phase = "pop" /\ PopDecision = "pop"
            /\ stack' = SubSeq(stack, 1, Len(stack) - 1)
            /\ UNCHANGED <<toks, phase, tree, errs, encf, crash>>
PopDone  == /\ phase = "pop" /\ PopDecision = "stop"
            /\ phase' = "add"
            /\ UNCHANGED <<toks, stack, tree, errs, encf, crash>>
PopCrash == /\ phase = "pop" /\ PopDecision = "crash"
            /\ crash' = TRUE /\ phase' = "idle"
            /\ UNCHANGED <<toks, stack, tree, errs, encf>>

\* ------------------------------------------------------------------ the _add_* calls
Id == Len(toks)
Node(stk, tag, id) == [d |-> Len(stk) - 1, tag |-> tag, id |-> id]       \* a child of the element on top of stk
SetTopInd(stk, i) == [stk EXCEPT ![Len(stk)] = [@ EXCEPT !.ind = i]]
\* "Check if the DOM element we just added was a field.." (epytext.py:359-366)
FieldOrder(stk, e) == IF stk[Len(stk)].tag = "field" THEN <<TRUE, e>>
                      ELSE IF encf /\ Len(stk) <= 3 THEN <<encf, Append(e, "Fields must be the final elements in an epytext string.")>>
                      ELSE <<encf, e>>
Finish(stk, tr, e) == LET fo == FieldOrder(stk, e) IN
                      /\ stack' = stk /\ tree' = tr /\ encf' = fo[1] /\ errs' = fo[2]
                      /\ phase' = "idle" /\ UNCHANGED <<toks, crash>>

AddPara == /\ phase = "add" /\ Cur.tag = "para"
           /\ LET stk == IF Top.ind = None THEN SetTopInd(stack, Cur.ind) ELSE stack
              IN IF Cur.ind = stk[Len(stk)].ind
                   THEN Finish(stk, Append(tree, Node(stk, "para", Id)), errs)
                   ELSE Finish(stk, tree, Append(errs, "Improper paragraph indentation."))    \* the paragraph is dropped

AddBlock == /\ phase = "add" /\ Cur.tag \in {"lit", "doctest"}
            /\ Finish(stack, Append(tree, Node(stack, IF Cur.tag = "lit" THEN "literalblock" ELSE "doctestblock", Id)), errs)

NotSectionAbove(stk) == \E i \in 3..Len(stk) : stk[i].tag # "section"
AddSection ==
    /\ phase = "add" /\ Cur.tag = "heading"
    /\ LET stk1 == IF Top.ind = None THEN SetTopInd(stack, Cur.ind) ELSE stack
           e1 == IF Top.ind # None /\ Top.ind # Cur.ind THEN Append(errs, "Improper heading indentation.") ELSE errs
           e2 == IF NotSectionAbove(stk1) THEN Append(e1, "Headings must occur at the top level.") ELSE e1
           index == Cur.level + 2
           e3 == IF index > Len(stk1) THEN Append(e2, "Wrong underline character for heading.") ELSE e2
           stk2 == IF index < Len(stk1) THEN SubSeq(stk1, 1, index) ELSE stk1          \* stack[index:] = []
           sec == Node(stk2, "section", 0)
           stk3 == Append([stk2 EXCEPT ![Len(stk2)] = [@ EXCEPT !.sec = TRUE]], E("section", None))
       IN Finish(stk3, tree \o <<sec, Node(stk3, "heading", Id)>>, e3)

\* old_listitem.attribs['bullet'] (epytext.py:499) when the last child of the open olist is not an item but a section
\* that an (already reported) misplaced heading put there: KeyError
OlistKeyError == Cur.tag = "bullet" /\ ListType(Cur.kind) = "olist" /\ Top.tag = "olist" /\ Top.sec
AddListCrash == /\ phase = "add" /\ OlistKeyError
                /\ crash' = TRUE /\ phase' = "idle"
                /\ UNCHANGED <<toks, stack, tree, errs, encf>>
AddList ==
    /\ phase = "add" /\ Cur.tag = "bullet" /\ ~OlistKeyError
    /\ LET lt == ListType(Cur.kind)
           newlist == \/ Top.tag # lt
                      \/ (lt = "olist" /\ Num(Cur.kind) # Top.num + 1)        \* not the next number: a new list
           e1 == IF newlist /\ Top.tag = "fieldlist" THEN Append(errs, "Lists must be indented.") ELSE errs
           stk1 == IF newlist /\ Top.tag \in {"ulist", "olist", "fieldlist"} THEN SubSeq(stack, 1, Len(stack) - 1) ELSE stack
           t1 == stk1[Len(stk1)]
           e2 == IF newlist /\ lt # "fieldlist" /\ t1.ind # None /\ Cur.ind = t1.ind
                   THEN Append(e1, "Lists must be indented.") ELSE e1
           e3 == IF newlist /\ lt = "fieldlist" /\ NotSectionAbove(stk1)
                   THEN Append(e2, "Fields must be at the top level.") ELSE e2
           stk2 == IF newlist /\ lt = "fieldlist" THEN SubSeq(stk1, 1, 2) ELSE stk1       \* stack[2:] = []
           stk3 == IF newlist THEN Append(stk2, E(lt, Cur.ind)) ELSE stk2
           tr1 == IF newlist THEN Append(tree, Node(stk2, lt, 0)) ELSE tree
           \* remember the number of the item just added (old_bullet of the next comparison)
           stk4 == [stk3 EXCEPT ![Len(stk3)] = [@ EXCEPT !.num = Num(Cur.kind), !.sec = FALSE]]
           li == IF lt = "fieldlist" THEN "field" ELSE "li"
       IN Finish(Append(stk4, E(li, None)), Append(tr1, Node(stk4, li, Id)), e3)

Next == \/ \E t \in Candidates : NextToken(t)
        \/ PopBlock \/ PopDone \/ PopCrash \/ AddPara \/ AddBlock \/ AddSection \/ AddList \/ AddListCrash
Spec == Init /\ [][Next]_vars

\* ================================================================== properties (design level)
Terminal == phase = "idle" /\ toks # <<>>
Ids == SelectSeq([i \in 1..Len(tree) |-> tree[i].id], LAMBDA x : x # 0)
\* no token is dropped silently, none duplicated, order kept
Conserved == (Terminal /\ ~crash /\ errs = <<>>) => Ids = [i \in 1..Len(toks) |-> i]
\* "No 2 consecutive indent_stack values will be ever be None" (comment at epytext.py:316-321) - holds as long as
\* no error has been recorded; afterwards _add_section can leave [document(None), section(None)] and a later
\* token makes _pop_completed_blocks compare an int with None (TypeError).  That only happens on inputs that are
\* already rejected, so the weaker forms are the invariants.
TwoNone == \E i \in 2..(Len(stack) - 1) : stack[i].ind = None /\ stack[i + 1].ind = None
NoTwoNone == TwoNone => errs # <<>>
NoCrash == crash => errs # <<>>
\* what parse_docstring (epytext.py:1256-1298) relies on: without errors the fields form ONE field list, the last child
FieldLists == SelectSeq([i \in 1..Len(tree) |-> i], LAMBDA i : tree[i].tag = "fieldlist")
FieldsAreLast == (Terminal /\ ~crash /\ errs = <<>>) =>
                    /\ Len(FieldLists) <= 1
                    /\ \A i \in 1..Len(tree) : tree[i].tag = "fieldlist" => (tree[i].d = 1 /\ \A j \in (i+1)..Len(tree) : tree[j].d > 1)

\* ------------------------------------------------------------------ emission
Emit == Terminal => PrintT(ToJson([toks |-> toks, tree |-> tree, errs |-> errs, crash |-> crash,
                                   conserved |-> Conserved, fieldsLast |-> FieldsAreLast]))
=============================================================================
